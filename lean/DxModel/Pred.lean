/-
  DxModel/Pred.lean — predicates of row filters (property C03).  Mathlib-free.

  Transliterates, as they are in /repo now:
    * dask_expr/_expr.py   rewrite_filters, _get_predicate_components, _convert_mapping,
                           _replace_common_or_components, is_filter_pushdown_available (its counting part)
    * dask_expr/io/parquet.py   _DNF.normalize / combine / extract_pq_filters (+ ReadParquet's accept test)
    * dask_expr/_merge.py  Merge._filter_passthrough_available and the side selection of
                           Merge._simplify_up(Filter), as decision functions over an abstract
                           description of the predicate's columns
  and defines the semantics the theorems of Props/C03.lean are about:
    * two-valued evaluation of predicate trees (pandas: after the atoms are evaluated everything is Bool)
    * three-valued (Kleene) evaluation of reader filters, "row kept iff `some true`"
    * joins on row lists (inner / left / right / outer / leftsemi), unmatched rows padded with `none`.

  "Identity of components by `_name`" in the code is structural equality here (`DecidableEq`).
-/
namespace Dx.Pred

/-! ### 1. predicate trees -/

/-- predicate tree over atoms `α`; `And`/`Or`/`Invert` of dask_expr, every other predicate class is an atom -/
inductive T (α : Type) where
  | atom : α → T α
  | and : T α → T α → T α
  | or : T α → T α → T α
  | not : T α → T α
deriving DecidableEq, Repr

/-- abstract predicates: atoms are numbered comparisons / isin / isna expressions -/
abbrev P := T Nat

/-- pandas meaning once the atoms are evaluated (a comparison with a null already is `False`,
    `!=` already is `True`): plain Boolean algebra -/
def eval2 {α} (v : α → Bool) : T α → Bool
  | .atom a => v a
  | .and a b => eval2 v a && eval2 v b
  | .or a b => eval2 v a || eval2 v b
  | .not a => !(eval2 v a)

def T.size {α} : T α → Nat
  | .atom _ => 1
  | .and a b => a.size + b.size + 1
  | .or a b => a.size + b.size + 1
  | .not a => a.size + 1

def T.atoms {α} : T α → List α
  | .atom a => [a]
  | .and a b => a.atoms ++ b.atoms
  | .or a b => a.atoms ++ b.atoms
  | .not a => a.atoms

/-! ### 2. OR-factoring (`rewrite_filters`) -/

inductive Kind where
  | or | and
deriving DecidableEq, Repr

/-- `_get_predicate_components(predicate, [], type_)`: flatten nested `type_` nodes, left to right -/
def getComponents {α} (k : Kind) : T α → List (T α)
  | .or a b => if k = .or then getComponents k a ++ getComponents k b else [.or a b]
  | .and a b => if k = .and then getComponents k a ++ getComponents k b else [.and a b]
  | p => [p]

/-- keys of `dict(zip(names, components))`: first occurrences, in insertion order
    (a later duplicate overwrites the *value* of an earlier one, which is the same expression) -/
def convertMapping {α} [DecidableEq α] : List (T α) → List (T α)
  | [] => []
  | a :: t => a :: (convertMapping t).filter (fun c => c != a)

/-- `outer = outer & x` folded from the left -/
def mkAnd {α} : T α → List (T α) → T α
  | acc, [] => acc
  | acc, c :: t => mkAnd (.and acc c) t

def mkOr {α} : T α → List (T α) → T α
  | acc, [] => acc
  | acc, c :: t => mkOr (.or acc c) t

/-- the loop over `[mapping] + and_components`; `none` = the early `return outer_component`
    (a whole OR branch is consumed by the replacements) -/
def keepComponents {α} [DecidableEq α] (repl : List (T α)) : List (List (T α)) → Option (List (T α))
  | [] => some []
  | comp :: rest =>
    match comp.filter (fun c => !repl.contains c) with
    | [] => none
    | k :: ks =>
      match keepComponents repl rest with
      | none => none
      | some rs => some (mkAnd k ks :: rs)

/-- `_replace_common_or_components(expr, or_components)`; `none` = Python `None` -/
def replaceCommonOr {α} [DecidableEq α] (first : T α) (rest : List (T α)) : Option (T α) :=
  let mapping := convertMapping (getComponents .and first)
  let andComponents := rest.map (fun c => convertMapping (getComponents .and c))
  let replacements := mapping.filter (fun c => andComponents.all (fun comp => comp.contains c))
  match replacements with
  | [] => none
  | r :: rs =>
    let outer := mkAnd r rs
    match keepComponents replacements (mapping :: andComponents) with
    | none => some outer
    | some [] => none            -- unreachable (the list starts with `mapping`)
    | some (c :: cs) => some (.and outer (mkOr c cs))

/-- `rewrite_filters(predicate)` -/
def rewriteFilters {α} [DecidableEq α] (p : T α) : T α :=
  match getComponents .or p with
  | [] => p
  | [_] => p
  | f :: rest =>
    match replaceCommonOr f rest with
    | none => p
    | some r => r

/-! ### 2b. how `Filter._simplify_up` re-assembles its parent after the rewrite -/

/-- `parent.substitute(self, Filter(frame, result))` seen on the parent's operand list: the operand that is the
    filter is replaced wherever it sits (deeper occurrences inside other operands are replaced by the same
    function recursively; the harness applies the real `substitute` to those operands) -/
def substituteOperand {ε} [DecidableEq ε] (operands : List ε) (self new : ε) : List ε :=
  operands.map (fun o => if o = self then new else o)

/-! ### 3. `is_filter_pushdown_available`, the counting part
    (`inPredicate` = result of `_check_dependents_are_predicates`, computed by the real function) -/

def filterPushdownAvail (nFilterNames nParents : Nat) (inPredicate : Bool) : Bool :=
  if nFilterNames != 1 then false
  else if nParents == 1 then true
  else inPredicate

/-! ### 4. concrete atoms over nullable cells -/

inductive Op where
  | lt | le | eq | ne | gt | ge
deriving DecidableEq, Repr

def Op.cmp : Op → Int → Int → Bool
  | .lt, x, y => decide (x < y)
  | .le, x, y => decide (x ≤ y)
  | .eq, x, y => decide (x = y)
  | .ne, x, y => decide (x ≠ y)
  | .gt, x, y => decide (x > y)
  | .ge, x, y => decide (x ≥ y)

inductive Atom where
  /-- `df.col <op> const` -/
  | cmp (col : Nat) (op : Op) (c : Int)
  /-- `df.col.isin(cs)` (`neg` : the reader-side `not in`) -/
  | isin (col : Nat) (neg : Bool) (cs : List Int)
  /-- `df.col.isna()` / `notna()` -/
  | isna (col : Nat) (neg : Bool)
  /-- `df.col <op> df.col2` -/
  | colcmp (col : Nat) (op : Op) (col2 : Nat)
deriving DecidableEq, Repr

abbrev Cells := Nat → Option Int

/-- pandas: a comparison with a null is `False`, except `!=` (and "not in") which is `True` -/
def Atom.eval2 (v : Cells) : Atom → Bool
  | .cmp col op c => match v col with
      | none => op == .ne
      | some x => op.cmp x c
  | .isin col neg cs => match v col with
      | none => neg
      | some x => if neg then !cs.contains x else cs.contains x
  | .isna col neg => match v col with
      | none => !neg
      | some _ => neg
  | .colcmp col op col2 => match v col, v col2 with
      | some x, some y => op.cmp x y
      | _, _ => op == .ne

/-- reader (pyarrow compute): a comparison with a null is null; `is_null` never is -/
def Atom.eval3 (v : Cells) : Atom → Option Bool
  | .cmp col op c => match v col with
      | none => none
      | some x => some (op.cmp x c)
  | .isin col neg cs => match v col with
      | none => none
      | some x => some (if neg then !cs.contains x else cs.contains x)
  | .isna col neg => match v col with
      | none => some (!neg)
      | some _ => some neg
  | .colcmp col op col2 => match v col, v col2 with
      | some x, some y => some (op.cmp x y)
      | _, _ => none

/-- atoms on which "null ⇒ row dropped" agrees with pandas -/
def Atom.NullCompatible : Atom → Bool
  | .cmp _ op _ => op != .ne
  | .isin _ neg _ => !neg
  | .isna _ _ => true
  | .colcmp _ op _ => op != .ne

def and3 : Option Bool → Option Bool → Option Bool
  | some false, _ => some false
  | _, some false => some false
  | some true, some true => some true
  | _, _ => none

def or3 : Option Bool → Option Bool → Option Bool
  | some true, _ => some true
  | _, some true => some true
  | some false, some false => some false
  | _, _ => none

def not3 : Option Bool → Option Bool
  | some b => some (!b)
  | none => none

/-- Kleene evaluation of a predicate tree over concrete atoms -/
def eval3 (v : Cells) : T Atom → Option Bool
  | .atom a => a.eval3 v
  | .and a b => and3 (eval3 v a) (eval3 v b)
  | .or a b => or3 (eval3 v a) (eval3 v b)
  | .not a => not3 (eval3 v a)

/-- a reader keeps a row iff the filter evaluates to (non-null) true -/
def keep3 (v : Cells) (p : T Atom) : Bool := eval3 v p == some true

/-- the pandas evaluation of the same tree -/
def eval2c (v : Cells) (p : T Atom) : Bool := eval2 (fun a => a.eval2 v) p

def T.negFree {α} : T α → Bool
  | .atom _ => true
  | .and a b => a.negFree && b.negFree
  | .or a b => a.negFree && b.negFree
  | .not _ => false

/-! ### 5. `_DNF` -/

/-- `_Or` of `_And` of tuples (frozensets are lists here; every observation of a `_DNF` — truth value,
    `to_list_tuple` up to order — is invariant under duplicates and order) -/
abbrev DNF (α : Type) := List (List α)

def evalDNF {α} (t : α → Bool) (d : DNF α) : Bool := d.any (fun c => c.all t)

/-- the values `_DNF.normalize` recurses through: tuples, `_And` sets, `_Or` sets, and the raw
    `List[List[Tuple]]` form of a user-supplied `filters=` operand -/
inductive Filt (α : Type) where
  | tup : α → Filt α
  | andS : List (Filt α) → Filt α
  | orS : List (Filt α) → Filt α
  | lst : List (List α) → Filt α

/-- all unions of one conjunction per factor: `itertools.product` + `_And(se for e in c for se in e)` -/
def dnfProduct {α} : List (DNF α) → DNF α
  | [] => [[]]
  | d :: ds => d.flatMap (fun c => (dnfProduct ds).map (fun c' => c ++ c'))

mutual
/-- `_DNF.normalize` on a truthy argument -/
def dnfNormalize {α} : Filt α → DNF α
  | .tup a => [[a]]
  | .lst l => l
  | .orS fs => (dnfNormalizeList fs).flatten
  | .andS fs => dnfProduct (dnfNormalizeList fs)
def dnfNormalizeList {α} : List (Filt α) → List (DNF α)
  | [] => []
  | f :: fs => dnfNormalize f :: dnfNormalizeList fs
end

mutual
def evalFilt {α} (t : α → Bool) : Filt α → Bool
  | .tup a => t a
  | .lst l => evalDNF t l
  | .orS fs => evalFiltAny t fs
  | .andS fs => evalFiltAll t fs
def evalFiltAny {α} (t : α → Bool) : List (Filt α) → Bool
  | [] => false
  | f :: fs => evalFilt t f || evalFiltAny t fs
def evalFiltAll {α} (t : α → Bool) : List (Filt α) → Bool
  | [] => true
  | f :: fs => evalFilt t f && evalFiltAll t fs
end

/-- Python truthiness of a `normalize` argument (`if not filters: result = None`) -/
def Filt.truthy {α} : Filt α → Bool
  | .tup _ => true
  | .lst l => !l.isEmpty
  | .orS fs => !fs.isEmpty
  | .andS fs => !fs.isEmpty

/-- `_DNF(filters)._filters` for any argument; `none` = Python `None` (= no filter) -/
def dnfNormalizeTop {α} : Option (Filt α) → Option (DNF α)
  | none => none
  | some f => if f.truthy then some (dnfNormalize f) else none

/-- a normalised `_filters` value re-read as the nested frozensets it is -/
def Filt.ofDNF {α} (d : DNF α) : Filt α := .orS (d.map (fun c => .andS (c.map .tup)))

/-! frozenset equality of normalised values (sets of sets of tuples), needed because
    `_And([left, right])` / `_Or([left, right])` are frozensets: equal operands collapse into one element -/
def conjSubset {α} [DecidableEq α] (c1 c2 : List α) : Bool := c1.all (fun a => c2.contains a)
def conjSetEq {α} [DecidableEq α] (c1 c2 : List α) : Bool := conjSubset c1 c2 && conjSubset c2 c1
def dnfSubset {α} [DecidableEq α] (d1 d2 : DNF α) : Bool := d1.all (fun c => d2.any (conjSetEq c))
def dnfSetEq {α} [DecidableEq α] (d1 d2 : DNF α) : Bool := dnfSubset d1 d2 && dnfSubset d2 d1

/-- the frozenset `{l, r}` of two normalised `_filters` values -/
def pairSet {α} [DecidableEq α] (l r : DNF α) : List (Filt α) :=
  if dnfSetEq l r then [Filt.ofDNF l] else [Filt.ofDNF l, Filt.ofDNF r]

/-- `_DNF.combine` on the `_filters` of both sides -/
def dnfCombine {α} [DecidableEq α] (a b : Option (DNF α)) : Option (DNF α) :=
  match a, b with
  | none, b => dnfNormalizeTop (b.map Filt.ofDNF)
  | some a, none => dnfNormalizeTop (some (Filt.ofDNF a))
  | some a, some b => dnfNormalizeTop (some (.andS (pairSet a b)))

/-- meaning of an optional filter: `None` filters nothing -/
def evalODNF {α} (t : α → Bool) : Option (DNF α) → Bool
  | none => true
  | some d => evalDNF t d

/-- `_DNF.extract_pq_filters(pq_expr, predicate)._filters`; `none` = not expressible.
    Only `col <op> const` comparisons with `<op>` in LE/GE/LT/GT/EQ are translated: `!=` is excluded (a reader
    drops the rows where the column is null, pandas keeps them), and the mirrored `const <op> col` branch of the
    code is dead (its guard asks `predicate.left` to be both a non-Expr and a Projection). -/
def extractPq : T Atom → Option (DNF Atom)
  | .atom a => match a with
      | .cmp _ op _ => if op = .ne then none else some [[a]]
      | _ => none
  | .and l r => match extractPq l, extractPq r with
      | some dl, some dr =>
          if !dl.isEmpty && !dr.isEmpty then dnfNormalizeTop (some (.andS (pairSet dl dr))) else none
      | _, _ => none
  | .or l r => match extractPq l, extractPq r with
      | some dl, some dr =>
          if !dl.isEmpty && !dr.isEmpty then dnfNormalizeTop (some (.orS (pairSet dl dr))) else none
      | _, _ => none
  | .not _ => none

/-- `ReadParquet._filter_passthrough_available` beyond the generic test: the class tuple and extractability -/
def readerAccepts : T Atom → Bool
  | .not _ => false
  | .atom (.cmp _ op _) => op != .ne    -- NE is neither in the class tuple nor extractable
  | .atom (.colcmp _ _ _) => false     -- LE/…/EQ class but `extract_pq_filters` gives None
  | .atom _ => false
  | p => (extractPq p).isSome

/-- the row test a reader applies for a pushed DNF: some conjunction all of whose tuples are (non-null) true -/
def keepDNF3 (v : Cells) (d : DNF Atom) : Bool := evalDNF (fun a => a.eval3 v == some true) d

/-! ### 6. joins: the decision tables of `Merge` -/

inductive How where
  | inner | left | right | outer | leftsemi
deriving DecidableEq, Repr

/-- what `_predicate_columns(leftmost conjunct)` returned, relative to the inputs' column names -/
inductive PredCols where
  /-- `None`: unsupported predicate shape -/
  | unknown
  /-- the empty set -/
  | empty
  /-- non-empty, ⊆ left.columns only -/
  | left
  /-- non-empty, ⊆ right.columns only -/
  | right
  /-- non-empty, ⊆ left.columns and ⊆ right.columns -/
  | both
  /-- non-empty, in neither -/
  | neither
deriving DecidableEq, Repr

/-- `Merge._filter_sides(predicate_cols)`: into which inputs a filter on these output columns can go —
    the columns must all be columns of that input and must not be renamed by that input's suffix.
    `lcoll` = `left_suffix != "" and any(col+left_suffix in self.columns and col in right.columns)`,
    `rcoll` symmetric. -/
def mergeFilterSides (pc : PredCols) (lcoll rcoll : Bool) : Bool × Bool :=
  match pc with
  | .unknown | .empty | .neither => (false, false)
  | .left => (!lcoll, false)
  | .right => (false, !rcoll)
  | .both => (!lcoll, !rcoll)

/-- `Merge._filter_passthrough_available(parent, dependents)`.
    `avail` = `is_filter_pushdown_available(self, parent, dependents)`,
    `isAnd` = `isinstance(parent.predicate, And)`,
    `leftConjunctIsDependent` = `Filter(self, predicate.left)` is among the dependents of the merge. -/
def mergeFilterAvail (avail : Bool) (how : How) (pc : PredCols) (lcoll rcoll : Bool)
    (isAnd leftConjunctIsDependent : Bool) : Bool :=
  if avail then
    match pc with
    | .unknown => false
    | _ =>
      let sides := mergeFilterSides pc lcoll rcoll
      if sides.1 then how == .left || how == .inner || how == .leftsemi
      else if sides.2 then how == .right || how == .inner
      else if pc != .empty then false     -- `len(predicate_columns) > 0`
      else true
  else if isAnd then leftConjunctIsDependent
  else false

/-- side selection of `Merge._simplify_up(Filter)` for a non-`And` predicate: the same `_filter_sides`;
    `(false,false)` = the rule returns `None` (the filter is not dropped) -/
def mergePushSides (pc : PredCols) (lcoll rcoll : Bool) : Bool × Bool := mergeFilterSides pc lcoll rcoll

/-! ### 7. joins: semantics on row lists -/

/-- an output row: the left part and the right part; `none` = that side padded with nulls -/
abbrev JRow (α β : Type) := Option α × Option β

section Join
variable {α β : Type}

def joinInner (m : α → β → Bool) (L : List α) (R : List β) : List (JRow α β) :=
  L.flatMap (fun a => (R.filter (m a)).map (fun b => (some a, some b)))

/-- rows of one left row in a left join -/
def leftRows (m : α → β → Bool) (R : List β) (a : α) : List (JRow α β) :=
  match R.filter (m a) with
  | [] => [(some a, none)]
  | b :: bs => (b :: bs).map (fun b => (some a, some b))

def joinLeft (m : α → β → Bool) (L : List α) (R : List β) : List (JRow α β) :=
  L.flatMap (leftRows m R)

def rightRows (m : α → β → Bool) (L : List α) (b : β) : List (JRow α β) :=
  match L.filter (fun a => m a b) with
  | [] => [(none, some b)]
  | a :: as => (a :: as).map (fun a => (some a, some b))

def joinRight (m : α → β → Bool) (L : List α) (R : List β) : List (JRow α β) :=
  R.flatMap (rightRows m L)

def joinOuter (m : α → β → Bool) (L : List α) (R : List β) : List (JRow α β) :=
  joinLeft m L R ++ (R.filter (fun b => !L.any (fun a => m a b))).map (fun b => (none, some b))

/-- `leftsemi`: left rows that have a match, each once, left columns only -/
def joinSemi (m : α → β → Bool) (L : List α) (R : List β) : List (JRow α β) :=
  (L.filter (fun a => R.any (m a))).map (fun a => (some a, none))

def join (how : How) (m : α → β → Bool) (L : List α) (R : List β) : List (JRow α β) :=
  match how with
  | .inner => joinInner m L R
  | .left => joinLeft m L R
  | .right => joinRight m L R
  | .outer => joinOuter m L R
  | .leftsemi => joinSemi m L R

end Join

/-- for which join kinds a filter on the output may be replaced by a filter on the given inputs -/
def joinPushLegal (how : How) : Bool × Bool → Bool
  | (false, false) => true
  | (true, false) => how == .inner || how == .left || how == .leftsemi
  | (false, true) => how == .inner || how == .right
  | (true, true) => how == .inner || how == .left || how == .leftsemi

/-- which input really owns the column the predicate reads in the *output*, given the collisions:
    a left suffix collision means the unsuffixed name in the output is the right input's column -/
def semanticSides (pc : PredCols) (lcoll rcoll : Bool) : Bool × Bool :=
  match pc with
  | .left => (true, false)
  | .right => (false, true)
  | .both => if lcoll && rcoll then (false, false) else if lcoll then (false, true) else if rcoll then (true, false) else (true, true)
  | _ => (false, false)

/-! ### 8. semantic categories of operators a filter may cross (see Generated/FilterFlags.lean) -/

inductive Category where
  /-- row i of the output is a function of row i of the input, and the columns a predicate can read keep their values -/
  | rowLocalValuePreserving
  /-- row i of the output is a function of row i of the input; values may change (a cast).  The class substitutes
      its input into the predicate only under its own value-preservation guard, otherwise the pushed filter's
      predicate keeps reading the operator's output -/
  | rowLocalGuarded
  /-- a permutation of the rows -/
  | reorder
  /-- identity on the concatenation of the partitions -/
  | partitionOnly
  /-- keeps a row-locally decided subset of the rows -/
  | rowSelect
  /-- the class overrides `_filter_passthrough_available` (its own legality theorem applies) -/
  | needsOwnCheck
  /-- nothing known: crossing is not justified -/
  | unclassified
deriving DecidableEq, Repr

/-- categories for which Props/C03.lean proves that a filter commutes with the operator -/
def Category.filterCommuting : Category → Bool
  | .rowLocalValuePreserving | .rowLocalGuarded | .reorder | .partitionOnly | .rowSelect => true
  | .needsOwnCheck | .unclassified => false

structure FlagEntry where
  cls : String
  /-- MRO-resolved `_filter_passthrough` (for `Merge`, whose attribute raises: false) -/
  flag : Bool
  /-- class (or a base other than `Expr`) overrides `_filter_passthrough_available` -/
  ownCheck : Bool
  cat : Category
deriving Repr

/-- the table obligation: a class that is flagged, or that decides by its own override, is in a category
    with a crossing theorem, or is recorded as deciding by its own override (whose legality has its own theorem) -/
def FlagEntry.ok (e : FlagEntry) : Bool :=
  if e.flag || e.ownCheck then e.cat.filterCommuting || (e.ownCheck && e.cat == .needsOwnCheck) else true

/-! ### 9. the guard of `AsType._simplify_up`: when may the un-cast frame be substituted into the predicate -/

/-- numpy's fixed-width numeric dtypes -/
inductive NDType where
  | bool | i8 | i16 | i32 | i64 | u8 | u16 | u32 | u64 | f16 | f32 | f64
deriving DecidableEq, Repr

/-- inclusive value range of the integer kinds (bool = {0,1}) -/
def NDType.intRange : NDType → Option (Int × Int)
  | .bool => some (0, 1)
  | .i8 => some (-128, 127) | .i16 => some (-32768, 32767)
  | .i32 => some (-2147483648, 2147483647) | .i64 => some (-9223372036854775808, 9223372036854775807)
  | .u8 => some (0, 255) | .u16 => some (0, 65535) | .u32 => some (0, 4294967295)
  | .u64 => some (0, 18446744073709551615)
  | _ => none

/-- float kinds: (storage bits, bound 2^p below which every integer is represented exactly; p = significand bits) -/
def NDType.float : NDType → Option (Nat × Int)
  | .f16 => some (16, 2048) | .f32 => some (32, 16777216) | .f64 => some (64, 9007199254740992)
  | _ => none

/-- the integer `z` is a value of dtype `n` without rounding or wrap-around -/
def exactIn (n : NDType) (z : Int) : Bool :=
  match n.intRange, n.float with
  | some (lo, hi), _ => decide (lo ≤ z) && decide (z ≤ hi)
  | none, some (_, b) => decide (-b ≤ z) && decide (z ≤ b)
  | none, none => false

/-- the cast `o → n` changes no value (decided from the ranges; float → wider float keeps every value) -/
def castExact (o n : NDType) : Bool :=
  match o.intRange, n.intRange with
  | some (lo, hi), some (lo', hi') => decide (lo' ≤ lo) && decide (hi ≤ hi')
  | some (lo, hi), none => (match n.float with
      | some (_, b) => decide (-b ≤ lo) && decide (hi ≤ b)
      | none => false)
  | none, some _ => false
  | none, none => (match o.float, n.float with
      | some (w, _), some (w', _) => decide (w ≤ w')
      | _, _ => false)

/-- `np.can_cast(o, n, casting="safe")` on these dtypes: exact casts, plus 64-bit integers → float64 -/
def numpySafe (o n : NDType) : Bool :=
  castExact o n || ((o == .i64 || o == .u64) && n == .f64)

/-- one column of `AsType._is_value_preserving`: `o == n or can_cast(o, n, "safe")`
    (extension dtypes / strings / categoricals are not numpy dtypes: `false` unless equal) -/
def castGuard (o n : NDType) : Bool := o == n || numpySafe o n

end Dx.Pred
