/-
  DxModel/Meta.lean — declared schema (`_meta`) versus the schema of the computed partitions (property C07).

  A schema `Sch` is what the harness observes of a pandas object: container kind (frame / series / index / scalar),
  column labels with their dtype *kind*, series name, names and kinds of the index levels.

  Part 1  dtype kinds, the promotion relation ("int/bool columns that acquire missing values")
  Part 2  the pandas primitives the real code calls, at schema level (trusted: tied to pandas by the harness)
  Part 3  operators of /repo: for each one
            `decl`  — transliteration of the class's `_meta`            (what the collection reports lazily)
            `task`  — transliteration of what one output partition of the lowered expression is computed from
                      (chunk / combine / aggregate pipelines, `merge_chunk`, `StackPartition`, `_SetIndexPost` …)
            `guard` — the side condition under which the two agree (its negation is a schema defect of the code)
  Part 4  expression trees, `declT` / `compT`
  Part 5  projection push-down at schema level (the rewrites of `Dx.Cols` applied to trees)

  Transliterates dask_expr/_expr.py, _reductions.py, _groupby.py, _merge.py, _concat.py, _shuffle.py as they are
  in /repo.  Mathlib-free.
-/
import DxModel.Cols
namespace Dx.Meta

abbrev Name := String

/-! ## 1. dtype kinds -/

inductive Kind where
  | int | float | bool | obj | dt
  deriving DecidableEq, Repr, Inhabited

namespace Kind

/-- kind of one column holding values of both kinds (`find_common_type` seen at kind level) -/
def join (a b : Kind) : Kind :=
  if a = b then a else
    match a, b with
    | .int, .float => .float
    | .float, .int => .float
    | _, _ => .obj

/-- the kind a column takes when it acquires missing values -/
def na : Kind → Kind
  | .int => .float
  | .bool => .obj
  | k => k

/-- the promotion relation of the property statement: an integer / boolean column that acquires missing values
    is computed as float / object -/
def promotes (declared computed : Kind) : Prop :=
  computed = declared ∨ ((declared = .int ∨ declared = .bool) ∧ (computed = .float ∨ computed = .obj))

instance (d c : Kind) : Decidable (promotes d c) := by unfold promotes; exact inferInstance

end Kind

abbrev Col := Name × Kind
/-- an index level: name (`None` possible) and kind -/
abbrev Lvl := Option Name × Kind

inductive Sch where
  | frame (cols : List Col) (idx : List Lvl)
  | series (name : Option Name) (kind : Kind) (idx : List Lvl)
  | index (lvls : List Lvl)
  | scalar (kind : Kind)
  /-- the real code raises, or the result has labels outside the model (non-string labels) -/
  | bad
  deriving DecidableEq, Repr, Inhabited

/-- `RangeIndex` -/
def rangeIdx : List Lvl := [(none, .int)]

def labels (cols : List Col) : List Name := cols.map (·.1)

/-! ## 2. pandas primitives at schema level -/

/-- `df[[c1, …]]`: every label has to exist -/
def selectCols (cols : List Col) : List Name → Option (List Col)
  | [] => some []
  | c :: cs =>
    match cols.lookup c, selectCols cols cs with
    | some k, some r => some ((c, k) :: r)
    | _, _ => none

def pGetCols (cs : List Name) : Sch → Sch
  | .frame cols idx =>
    match selectCols cols cs with
    | some sel => .frame sel idx
    | none => .bad
  | _ => .bad

/-- `df[c]` -/
def pGetCol (c : Name) : Sch → Sch
  | .frame cols idx =>
    match cols.lookup c with
    | some k => .series (some c) k idx
    | none => .bad
  | _ => .bad

def renameOne (m : List (Name × Name)) (n : Name) : Name :=
  match m.lookup n with
  | some n' => n'
  | none => n

/-- `df.rename(columns=m)` -/
def pRename (m : List (Name × Name)) : Sch → Sch
  | .frame cols idx => .frame (cols.map (fun c => (renameOne m c.1, c.2))) idx
  | _ => .bad

/-- `s.rename(n)` / `idx.rename(name=n)` for a scalar `n` -/
def pRenameSeries (n : Name) : Sch → Sch
  | .series _ k idx => .series (some n) k idx
  | .index [(_, k)] => .index [(some n, k)]
  | _ => .bad

def pAffix (f : Name → Name) : Sch → Sch
  | .frame cols idx => .frame (cols.map (fun c => (f c.1, c.2))) idx
  | _ => .bad

/-- `df.drop(columns=cs)` (errors='raise') -/
def pDrop (cs : List Name) : Sch → Sch
  | .frame cols idx =>
    if cs.all ((labels cols).contains ·) then .frame (cols.filter (fun c => !cs.contains c.1)) idx else .bad
  | _ => .bad

/-- kind of a value assigned as a column -/
def valueKind : Sch → Option Kind
  | .series _ k _ => some k
  | .scalar k => some k
  | _ => none

def setKind (c : Name) (k : Kind) (cols : List Col) : List Col :=
  if (labels cols).contains c then cols.map (fun x => if x.1 = c then (x.1, k) else x) else cols ++ [(c, k)]

/-- `df.assign(c=v)` -/
def pAssign (c : Name) (df v : Sch) : Sch :=
  match df, valueKind v with
  | .frame cols idx, some k => .frame (setKind c k cols) idx
  | _, _ => .bad

/-- the column label(s) the former index levels get in `reset_index` -/
def resetLabels (lvls : List Lvl) (cols : List Name) : List Name :=
  match lvls with
  | [(none, _)] => [if cols.contains "index" then "level_0" else "index"]
  | _ => (List.range lvls.length).zip lvls |>.map (fun il =>
      match il.2.1 with
      | some n => n
      | none => "level_" ++ toString il.1)

def noClash (new old : List Name) : Bool := new.all (fun n => !old.contains n) && decide new.Nodup

/-- `x.reset_index(drop=drop)`; a Series needs a name to become a column -/
def pResetIndex (drop : Bool) : Sch → Sch
  | .frame cols idx =>
    if drop then .frame cols rangeIdx
    else
      let new := resetLabels idx (labels cols)
      if noClash new (labels cols) then .frame (new.zip (idx.map (·.2)) ++ cols) rangeIdx else .bad
  | .series name k idx =>
    if drop then .series name k rangeIdx
    else match name with
      | some n =>
        let new := resetLabels idx [n]
        if noClash new [n] then .frame (new.zip (idx.map (·.2)) ++ [(n, k)]) rangeIdx else .bad
      | none => .bad
  | _ => .bad

/-- `df.set_index(c, drop=drop)` for a column label `c` -/
def pSetIndex (c : Name) (drop : Bool) : Sch → Sch
  | .frame cols _ =>
    match cols.lookup c with
    | some k => .frame (if drop then cols.filter (fun x => x.1 != c) else cols) [(some c, k)]
    | none => .bad
  | _ => .bad

/-- `x.index` -/
def pIndex : Sch → Sch
  | .frame _ idx => .index idx
  | .series _ _ idx => .index idx
  | _ => .bad

/-- `idx.to_series()`: the values of a MultiIndex are tuples -/
def pIndexToSeries : Sch → Sch
  | .index [] => .bad
  | .index [(n, k)] => .series n k [(n, k)]
  | .index lvls => .series none .obj lvls
  | _ => .bad

def allNamed : List Lvl → Option (List Col)
  | [] => some []
  | (some n, k) :: t => (allNamed t).map ((n, k) :: ·)
  | (none, _) :: _ => none

/-- `idx.to_frame(name=…)` (single level; an unnamed index without `name` gives the integer label 0) -/
def pIndexToFrame (name : Option Name) : Sch → Sch
  | .index [] => .bad
  | .index [(n, k)] =>
    (match name, n with
     | some m, _ => .frame [(m, k)] [(n, k)]
     | none, some m => .frame [(m, k)] [(n, k)]
     | none, none => .bad)
  | .index lvls =>
    (match name, allNamed lvls with
     | none, some cols => .frame cols lvls      -- one column per level of a MultiIndex
     | _, _ => .bad)
  | _ => .bad

/-- `s.to_frame(name=…)` -/
def pToFrame (name : Option Name) : Sch → Sch
  | .series n k idx =>
    match name, n with
    | some m, _ => .frame [(m, k)] idx
    | none, some m => .frame [(m, k)] idx
    | none, none => .bad
  | _ => .bad

/-- `s.value_counts(normalize=…)` (pandas ≥ 2: named count / proportion, indexed by the values) -/
def pValueCounts (normalize : Bool) : Sch → Sch
  | .series n k _ => if normalize then .series (some "proportion") .float [(n, k)] else .series (some "count") .int [(n, k)]
  | _ => .bad

/-! #### aggregations -/

inductive Agg where
  | sum | min | max | count | mean | any | all | first | last | size
  deriving DecidableEq, Repr, Inhabited

/-- kind of `f` over one column of kind `k`; `none`: pandas raises -/
def aggKind : Agg → Kind → Option Kind
  | .sum, .int => some .int
  | .sum, .float => some .float
  | .sum, .bool => some .int
  | .sum, .obj => some .obj
  | .sum, .dt => none
  | .min, k => some k
  | .max, k => some k
  | .first, k => some k
  | .last, k => some k
  | .count, _ => some .int
  | .size, _ => some .int
  | .mean, .int => some .float
  | .mean, .float => some .float
  | .mean, .bool => some .float
  | .mean, .dt => some .dt
  | .mean, .obj => none
  | .any, .dt => none
  | .any, .obj => none
  | .any, _ => some .bool
  | .all, .dt => none
  | .all, .obj => none
  | .all, _ => some .bool

def isNumeric : Kind → Bool
  | .int => true
  | .float => true
  | .bool => true
  | _ => false

/-- kind of the Series `df.f()` over no column at all -/
def emptyKind : Agg → Kind
  | .count => .int
  | .size => .int
  | .any => .bool
  | .all => .bool
  | _ => .float

def joinKinds : List Kind → Option Kind
  | [] => none
  | k :: ks => some (ks.foldl Kind.join k)

def allSome : List (Option Kind) → Option (List Kind)
  | [] => some []
  | some k :: r => (allSome r).map (k :: ·)
  | none :: _ => none

/-- kind of the Series `df.f()` -/
def redKind (f : Agg) (ks : List Kind) : Option Kind :=
  match allSome (ks.map (aggKind f)) with
  | none => none
  | some [] => some (emptyKind f)
  | some l => joinKinds l

/-- `f(x)` followed by `.to_frame().T` when the result is a Series (`Reduction.chunk` / `.combine`) -/
def redStep (f : Agg) : Sch → Sch
  | .frame cols _ =>
    match redKind f (cols.map (·.2)) with
    | some K => .frame (cols.map (fun c => (c.1, K))) rangeIdx
    | none => .bad
  | .series _ k _ =>
    match aggKind f k with
    | some k' => .scalar k'
    | none => .bad
  | _ => .bad

/-- `f(x)` (`Reduction.aggregate`): a frame gives a Series indexed by the column labels, a Series a scalar -/
def redFinal (f : Agg) : Sch → Sch
  | .frame cols _ =>
    match redKind f (cols.map (·.2)) with
    | some K => .series none K [(none, .obj)]
    | none => .bad
  | .series _ k _ =>
    match aggKind f k with
    | some k' => .scalar k'
    | none => .bad
  | _ => .bad

/-- `_concat(inputs)` of dask (`uniform=True`: the caller promises equal schemas); scalars become a Series -/
def uConcat : List Sch → Sch
  | [] => .bad
  | s :: rest =>
    if rest.all (· == s) then
      match s with
      | .scalar k => .series none k rangeIdx
      | s => s
    else .bad

/-- the selection `g[columns]` of a groupby -/
inductive Slice where
  | all
  | one (c : Name)
  | many (cs : List Name)
  deriving DecidableEq, Repr, Inhabited

/-- index levels made of key columns -/
def keyLevels (cols : List Col) : List Name → Option (List Lvl)
  | [] => some []
  | k :: ks =>
    match cols.lookup k, keyLevels cols ks with
    | some kd, some r => some ((some k, kd) :: r)
    | _, _ => none

def aggCols (f : Agg) : List Col → Option (List Col)
  | [] => some []
  | c :: cs =>
    match aggKind f c.2, aggCols f cs with
    | some k, some r => some ((c.1, k) :: r)
    | _, _ => none

/-- `df.groupby(keys)[slice].f()` for column keys -/
def pGroupby (keys : List Name) (sl : Slice) (f : Agg) : Sch → Sch
  | .frame cols _ =>
    if keys.isEmpty then .bad else
    match keyLevels cols keys with
    | none => .bad
    | some lv =>
      if f = .size then
        (match sl with
         | .one c => if (labels cols).contains c then .series (some c) .int lv else .bad
         | _ => .series none .int lv)
      else
      match sl with
      | .all =>
        (match aggCols f (cols.filter (fun c => !keys.contains c.1)) with
         | some r => .frame r lv
         | none => .bad)
      | .many cs =>
        (match selectCols cols cs with
         | some sel => (match aggCols f sel with | some r => .frame r lv | none => .bad)
         | none => .bad)
      | .one c =>
        (match cols.lookup c with
         | some k => (match aggKind f k with | some k' => .series (some c) k' lv | none => .bad)
         | none => .bad)
  | _ => .bad

/-- `x.groupby(level=[all levels]).f()` -/
def pGroupLevel (f : Agg) : Sch → Sch
  | .frame cols idx =>
    (match aggCols f cols with
     | some r => .frame r idx
     | none => .bad)
  | .series n k idx =>
    (match aggKind f k with
     | some k' => .series n k' idx
     | none => .bad)
  | _ => .bad

/-! #### merge / concat -/

inductive How where
  | inner | left | right | outer | leftsemi
  deriving DecidableEq, Repr, Inhabited

structure MergeP where
  how : How
  leftOn : List Name
  rightOn : List Name
  ls : String
  rs : String
  deriving DecidableEq, Repr

def MergeP.cp (m : MergeP) : Dx.Cols.MergeP := { leftOn := m.leftOn, rightOn := m.rightOn, ls := m.ls, rs := m.rs }

/-- columns of `left.merge(right, left_on=…, right_on=…, suffixes=…)`: labels as `Dx.Cols.mergeLabels`, kinds carried -/
def mergeCols (m : Dx.Cols.MergeP) (L R : List Col) : List Col :=
  L.map (fun c => (Dx.Cols.labelL m (labels R) c.1, c.2)) ++
    (R.filter (fun c => !Dx.Cols.commonKey m c.1)).map (fun c => (Dx.Cols.labelR m (labels L) c.1, c.2))

/-- `left.merge(right, how, left_on, right_on, suffixes)` on columns: fresh RangeIndex; pandas refuses duplicate
    result labels and missing keys -/
def pMerge (m : Dx.Cols.MergeP) : Sch → Sch → Sch
  | .frame L _, .frame R _ =>
    if m.leftOn.isEmpty || m.leftOn.length != m.rightOn.length then .bad
    else if !(m.leftOn.all ((labels L).contains ·) && m.rightOn.all ((labels R).contains ·)) then .bad
    else
      let out := mergeCols m L R
      if decide (labels out).Nodup then .frame out rangeIdx else .bad
  | _, _ => .bad

/-- `right[right_on].rename(columns=dict(zip(right_on, left_on)))` of a `leftsemi` merge (collection level) -/
def semiRight (m : MergeP) : Sch → Sch
  | .frame R idx =>
    match selectCols R m.rightOn with
    | some sel => .frame (sel.map (fun c => (renameOne (m.rightOn.zip m.leftOn) c.1, c.2))) idx
    | none => .bad
  | _ => .bad

/-- the kind of a column stacked from the inputs that have it -/
def joinOr (ks : List Kind) : Kind :=
  match joinKinds ks with
  | some k => k
  | none => .obj

def stackKind (frames : List (List Col)) (c : Name) : Kind := joinOr (frames.filterMap (fun f => f.lookup c))

/-- first-seen order of the union of the labels -/
def unionNames (frames : List (List Col)) : List Name :=
  (frames.map labels).flatten.foldl (fun acc c => if acc.contains c then acc else acc ++ [c]) []

/-- union of the columns in first-seen order; a column missing in some frame acquires missing values -/
def unionCols (frames : List (List Col)) : List Col :=
  (unionNames frames).map (fun c =>
    (c, if frames.all (fun f => (labels f).contains c) then stackKind frames c else (stackKind frames c).na))

/-- the columns of the first frame that every frame has -/
def interCols (frames : List (List Col)) : List Col :=
  match frames with
  | [] => []
  | f :: fs =>
    (f.filter (fun c => fs.all (fun g => (labels g).contains c.1))).map (fun c => (c.1, stackKind (f :: fs) c.1))

/-- columns of `pd.concat(frames, axis=0, join=…)`: identical label lists are kept as they are (no re-indexing) -/
def rowCols (inner : Bool) : List (List Col) → List Col
  | [] => []
  | f :: fs =>
    if fs.all (fun g => labels g == labels f) then f.map (fun c => (c.1, stackKind (f :: fs) c.1))
    else if inner then interCols (f :: fs) else unionCols (f :: fs)

/-- two index levels stacked: the name survives where both agree -/
def mergeLvl (a b : Lvl) : Lvl := (if a.1 == b.1 then a.1 else none, Kind.join a.2 b.2)

/-- the common index of a row-wise concat, level by level (inputs with different numbers of levels are outside the
    model: the shorter length wins here) -/
def commonIdx : List (List Lvl) → List Lvl
  | [] => rangeIdx
  | i :: is => is.foldl (List.zipWith mergeLvl) i

def seriesName : List (Option Name) → Option Name
  | [] => none
  | n :: ns => if ns.all (· == n) then n else none

def frameParts : List Sch → Option (List (List Col × List Lvl))
  | [] => some []
  | .frame c i :: t => (frameParts t).map ((c, i) :: ·)
  | _ :: _ => none

def seriesParts : List Sch → Option (List (Option Name × Kind × List Lvl))
  | [] => some []
  | .series n k i :: t => (seriesParts t).map ((n, k, i) :: ·)
  | _ :: _ => none

/-- `pd.concat(objs, axis=0, join=…)` of frames (or of series) -/
def pConcatRows (inner : Bool) (objs : List Sch) : Sch :=
  if objs.isEmpty then .bad
  else match frameParts objs with
    | some fr => .frame (rowCols inner (fr.map (·.1))) (commonIdx (fr.map (·.2)))
    | none =>
      match seriesParts objs with
      | some sr =>
        .series (seriesName (sr.map (·.1)))
          (joinOr (sr.map (·.2.1))) (commonIdx (sr.map (·.2.2)))
      | none => .bad

/-- `pd.concat(frames, axis=1)` of frames: side by side on one common index; inputs whose index levels differ do not
    align (every column acquires missing values) -/
def pConcatCols (objs : List Sch) : Sch :=
  if objs.isEmpty then .bad
  else match frameParts objs with
    | some fr =>
      let cols := (fr.map (·.1)).flatten
      let idxs := fr.map (·.2)
      if idxs.all (· == idxs.headD []) then .frame cols (idxs.headD [])
      else .frame (cols.map (fun c => (c.1, c.2.na))) (commonIdx idxs)
    | none => .bad

/-- `df.astype({c: meta[c].dtype …})` over the columns shared with `meta` (`Concat._lower`) -/
def castTo (mcols : List Col) (cols : List Col) : List Col :=
  cols.map (fun c => match mcols.lookup c.1 with | some k => (c.1, k) | none => c)

/-- kind of a declared column after stacking a partition that has / lacks it -/
def fillKind (declared : Kind) : Option Kind → Kind
  | some k => Kind.join declared k
  | none => declared.na

/-- `methods.concat([meta, part], axis=0, join)` of `StackPartition` (the declared, empty `meta` first): the
    result has the columns of `meta`; a column the partition lacks is filled with missing values -/
def pStack (m part : Sch) : Sch :=
  match m, part with
  | .frame mc mi, .frame pc pi =>
    .frame (mc.map (fun c => (c.1, fillKind c.2 (pc.lookup c.1)))) (commonIdx [mi, pi])
  | .series mn mk mi, .series pn pk pi => .series (seriesName [mn, pn]) (Kind.join mk pk) (commonIdx [mi, pi])
  | _, _ => .bad

/-- `s / n` of `mean_aggregate` -/
def divKind : Kind → Kind → Option Kind
  | .int, .int => some .float
  | .float, .int => some .float
  | .bool, .int => some .float
  | _, _ => none

def pDiv : Sch → Sch → Sch
  | .series n k idx, .series _ k' _ =>
    (match divKind k k' with | some r => .series n r idx | none => .bad)
  | .scalar k, .scalar k' =>
    (match divKind k k' with | some r => .scalar r | none => .bad)
  | _, _ => .bad

/-! ## 3. operators of /repo: declared schema, per-partition computed schema, guard -/

/-- what the lowered expression looks like at run time; none of it is visible in `_meta` -/
structure Rt where
  /-- inputs per `combine` batch, minus one -/
  batch : Nat := 0
  /-- rounds of `combine` in the tree reduction -/
  depth : Nat := 0
  /-- inputs of the final `aggregate`, minus one -/
  nagg : Nat := 0
  /-- lowering path: 0 = blockwise (single partition / already sorted / broadcast), 1 = through a shuffle -/
  path : Nat := 0
  /-- row-wise concat: the input this output partition comes from -/
  which : Nat := 0
  /-- `merge_chunk`: the left partition is empty (the result is re-ordered by `result_meta`) -/
  emptyLhs : Bool := false
  deriving DecidableEq, Repr, Inhabited

def reps (n : Nat) (s : Sch) : List Sch := List.replicate (n + 1) s

def iter (f : Sch → Sch) : Nat → Sch → Sch
  | 0, s => s
  | n + 1, s => iter f n (f s)

/-- `TreeReduce._layer`: `chunk` per partition, `depth` rounds of `combine` over batches, one `aggregate` -/
def treeReduce (chunk : Sch → Sch) (combine aggregate : List Sch → Sch) (rt : Rt) (s : Sch) : Sch :=
  aggregate (reps rt.nagg (iter (fun x => combine (reps rt.batch x)) rt.depth (chunk s)))

/-- `ApplyConcatApply._meta`: the same three functions, once, on the stand-in -/
def acaMeta (chunk : Sch → Sch) (combine aggregate : List Sch → Sch) (s : Sch) : Sch :=
  aggregate [combine [chunk s]]

/-! #### `Reduction` (frame → series over the labels, series → scalar) -/

/-- `reduction_combine or reduction_aggregate or reduction_chunk` / `reduction_aggregate or reduction_chunk`:
    `Count` sums the counts (`df.sum().astype("int64")`), the others re-apply themselves -/
def redSecond : Agg → Agg
  | .count => .sum
  | f => f

def isReduction : Agg → Bool
  | .first => false
  | .last => false
  | .size => false
  | _ => true

/-- `.astype("int64")` of `Count.reduction_aggregate` -/
def castCount (f : Agg) : Sch → Sch
  | .frame cols idx => if f = .count then .frame (cols.map (fun c => (c.1, Kind.int))) idx else .frame cols idx
  | .series n k idx => if f = .count then .series n .int idx else .series n k idx
  | .scalar k => if f = .count then .scalar .int else .scalar k
  | s => s

def redChunk (f : Agg) (s : Sch) : Sch := redStep f s
def redCombine (f : Agg) (inputs : List Sch) : Sch := castCount f (redStep (redSecond f) (uConcat inputs))
def redAggregate (f : Agg) (inputs : List Sch) : Sch := castCount f (redFinal (redSecond f) (uConcat inputs))

/-- `Reduction._meta` (`Mean` overrides it with pandas' own `mean` on the stand-in) -/
def declReduce (f : Agg) (s : Sch) : Sch :=
  if !isReduction f then .bad
  else if f = .mean then redFinal .mean s
  else acaMeta (redChunk f) (redCombine f) (redAggregate f) s

/-- the lowered reduction; `Mean._lower` = `MeanAggregate(frame.sum(), frame.count())` -/
def taskReduce (f : Agg) (rt : Rt) (s : Sch) : Sch :=
  if !isReduction f then .bad
  else if f = .mean then
    pDiv (treeReduce (redChunk .sum) (redCombine .sum) (redAggregate .sum) rt s)
         (treeReduce (redChunk .count) (redCombine .count) (redAggregate .count) rt s)
  else treeReduce (redChunk f) (redCombine f) (redAggregate f) rt s

/-- `Mean`: declared through pandas' own `mean`, computed through `sum` / `count`.  The two agree on numeric
    columns; on datetime columns pandas has a mean but no sum (the computation raises) -/
def allNumeric : Sch → Bool
  | .frame cols _ => cols.all (fun c => isNumeric c.2)
  | .series _ k _ => isNumeric k
  | _ => true

def guardReduce (f : Agg) (s : Sch) : Bool :=
  if f = .mean then allNumeric s else true

/-! #### groupby aggregations (`SingleAggregation`, `Mean`) over column keys -/

/-- `groupby_aggregate or groupby_chunk`: counts and sizes are summed -/
def gbSecond : Agg → Agg
  | .count => .sum
  | .size => .sum
  | f => f

/-- `_mean_chunk`: `g.sum(numeric_only=True)` next to the counts of the same columns renamed `c + "-count"` -/
def meanChunk (keys : List Name) : Sch → Sch
  | .frame cols _ =>
    if keys.isEmpty then .bad else
    match keyLevels cols keys with
    | none => .bad
    | some lv =>
      let num := (cols.filter (fun c => !keys.contains c.1)).filter (fun c => isNumeric c.2)
      match aggCols .sum num with
      | some x => .frame (x ++ num.map (fun c => (c.1 ++ "-count", Kind.int))) lv
      | none => .bad
  | _ => .bad

/-- `_mean_combine`: `groupby(level).sum()` -/
def meanCombine (inputs : List Sch) : Sch := pGroupLevel .sum (uConcat inputs)

/-- `_mean_agg`: sum, split the columns in halves, relabel the counts, divide -/
def meanAgg (inputs : List Sch) : Sch :=
  match pGroupLevel .sum (uConcat inputs) with
  | .frame cols idx =>
    let h := cols.length / 2
    let s := cols.take h
    let c := cols.drop h
    if s.length = c.length then
      match allSome ((s.zip c).map (fun sc => divKind sc.1.2 sc.2.2)) with
      | some ks => .frame ((labels s).zip ks) idx
      | none => .bad
    else .bad
  | _ => .bad

def gbChunk (keys : List Name) (sl : Slice) (f : Agg) (s : Sch) : Sch := pGroupby keys sl f s
def gbAggregate (f : Agg) (inputs : List Sch) : Sch := pGroupLevel (gbSecond f) (uConcat inputs)

def isGroupAgg : Agg → Bool
  | .any => false
  | .all => false
  | _ => true

/-- `GroupByApplyConcatApply._meta`; without a `combine` the aggregate is used twice -/
def declGroupby (keys : List Name) (sl : Slice) (f : Agg) (s : Sch) : Sch :=
  if !isGroupAgg f then .bad
  else if f = .mean then acaMeta (meanChunk keys) meanCombine meanAgg s
  else acaMeta (gbChunk keys sl f) (gbAggregate f) (gbAggregate f) s

def taskGroupby (keys : List Name) (sl : Slice) (f : Agg) (rt : Rt) (s : Sch) : Sch :=
  if !isGroupAgg f then .bad
  else if f = .mean then treeReduce (meanChunk keys) meanCombine meanAgg rt s
  else treeReduce (gbChunk keys sl f) (gbAggregate f) (gbAggregate f) rt s

/-! #### value_counts -/

def vcChunk (s : Sch) : Sch := pValueCounts false s
def vcCombine (inputs : List Sch) : Sch := pGroupLevel .sum (uConcat inputs)
/-- `value_counts_aggregate`: combine, `out /= out.sum()` and the name `proportion` when normalizing -/
def vcAggregate (normalize : Bool) (inputs : List Sch) : Sch :=
  match pGroupLevel .sum (uConcat inputs) with
  | .series n k idx => if normalize then .series (some "proportion") .float idx else .series n k idx
  | _ => .bad

/-! #### unary operators -/

inductive UOp where
  | getCols (cs : List Name)        -- Projection(frame, [..])
  | getCol (c : Name)               -- Projection(frame, 'c')
  | rename (m : List (Name × Name)) -- RenameFrame with a mapping
  | renameSeries (n : Name)         -- RenameSeries with a scalar
  | addPrefix (p : String)
  | addSuffix (s : String)
  | dropCols (cs : List Name)       -- Drop
  | keep                            -- Filter, Head, Tail, sort_values, drop_duplicates, shuffle, repartition, fillna …
  | resetIndex (drop : Bool)
  | setIndex (c : Name) (drop : Bool)
  | index                           -- Index(frame)
  | indexToSeries                   -- ToSeriesIndex
  | indexToFrame (name : Option Name) -- ToFrameIndex
  | toFrame (name : Option Name)    -- ToFrame
  | valueCounts (normalize : Bool)
  | reduce (f : Agg)
  | len                             -- Len / Size
  | gbAgg (keys : List Name) (sl : Slice) (f : Agg)
  deriving DecidableEq, Repr, Inhabited

/-- `_meta` of the operator given the `_meta` of its input -/
def declU : UOp → Sch → Sch
  | .getCols cs, s =>
    (match s with
     | .frame _ _ => pGetCols cs s       -- Blockwise: `operator.getitem(meta, cs)`
     | s => s)                           -- "Avoid column selection for Series/Index"
  | .getCol c, s =>
    (match s with
     | .frame _ _ => pGetCol c s
     | .series _ k _ => .scalar k        -- `meta_nonempty(meta).iloc[0]`
     | .index [(_, k)] => .scalar k
     | .index _ => .scalar .obj
     | _ => .bad)
  | .rename m, s => pRename m s
  | .renameSeries n, s => pRenameSeries n s
  | .addPrefix p, s => pAffix (fun c => p ++ c) s
  | .addSuffix x, s => pAffix (fun c => c ++ x) s
  | .dropCols cs, s => pDrop cs s
  | .keep, s => s
  | .resetIndex d, s => pResetIndex d s
  | .setIndex c d, s => pSetIndex c d s  -- `frame._meta.set_index(c, drop=drop)`
  | .index, s =>
    (match s with
     | .frame _ _ => pIndex s
     | .series _ _ _ => pIndex s
     | s => s)                           -- "Handle scalar results"
  | .indexToSeries, s => pIndexToSeries s
  | .indexToFrame n, s => pIndexToFrame n s
  | .toFrame n, s => pToFrame n s
  | .valueCounts nz, s => pValueCounts nz s   -- hand-written: `frame._meta.value_counts(normalize=…)`
  | .reduce f, s => declReduce f s
  | .len, s =>
    (match s with
     | .bad => .bad
     | .scalar _ => .bad
     | _ => .scalar .int)
  | .gbAgg keys sl f, s => declGroupby keys sl f s

/-- the schema of one output partition, given the schema `s` of the input partitions (`m`: the declared `_meta`,
    which some tasks receive as an argument) -/
def taskU (op : UOp) (rt : Rt) (m : Sch) (s : Sch) : Sch :=
  match op with
  | .getCols cs =>
    (match s with
     | .frame _ _ => pGetCols cs s
     | .series _ _ _ => s                 -- label selection of rows
     | .index _ => s
     | _ => .bad)
  | .getCol c =>
    (match s with
     | .frame _ _ => pGetCol c s
     | .series _ k _ => .scalar k
     | _ => .bad)
  | .rename mp => pRename mp s
  | .renameSeries n => pRenameSeries n s
  | .addPrefix p => pAffix (fun c => p ++ c) s
  | .addSuffix x => pAffix (fun c => c ++ x) s
  | .dropCols cs => pDrop cs s
  | .keep => s
  | .resetIndex d => pResetIndex d s
  | .setIndex c d =>
    if rt.path = 0 then pSetIndex c d s    -- SortIndexBlockwise(SetIndexBlockwise(frame, c, drop))
    else
      -- SetPartition._lower: Assign(frame, "_partitions", …) → Shuffle → Projection(all but "_partitions")
      --   → _SetIndexPost (set_index(c, drop); index.name = c) → SortIndexBlockwise
      let assigned := pAssign "_partitions" s (.series none .int rangeIdx)
      let projected := match assigned with
        | .frame cols _ => pGetCols ((labels cols).filter (· != "_partitions")) assigned
        | _ => .bad
      pSetIndex c d projected
  | .index =>
    (match s with
     | .frame _ _ => pIndex s
     | .series _ _ _ => pIndex s
     | _ => .bad)                          -- `getattr(part, "index")`
  | .indexToSeries => pIndexToSeries s
  | .indexToFrame n => pIndexToFrame n s
  | .toFrame n => pToFrame n s
  | .valueCounts nz => treeReduce vcChunk vcCombine (vcAggregate nz) rt s
  | .reduce f => taskReduce f rt s
  | .len =>
    (match s with
     | .bad => .bad
     | .scalar _ => .bad
     | _ => .scalar .int)
  | .gbAgg keys sl f =>
    let _ := m
    taskGroupby keys sl f rt s

def hasLabel (l : Name) : Sch → Bool
  | .frame cols _ => (labels cols).contains l
  | _ => false

def nodupLabels : Sch → Bool
  | .frame cols _ => decide (labels cols).Nodup
  | _ => true

/-- a frame can go through a shuffle unharmed: the helper column `_partitions` does not clash with a column of the
    user, and the projection that removes it again finds every column once -/
def shuffleSafe (s : Sch) : Bool := !hasLabel "_partitions" s && nodupLabels s

/-- the side condition under which the partitions carry the declared schema -/
def guardU (op : UOp) (rt : Rt) (s : Sch) : Bool :=
  match op with
  | .getCols _ => (match s with | .scalar _ => false | _ => true)
  | .getCol _ => (match s with | .index _ => false | _ => true)
  | .setIndex _ _ => rt.path = 0 || shuffleSafe s
  | .index => (match s with | .index _ => false | .scalar _ => false | _ => true)
  | .reduce f => guardReduce f s
  | _ => true

/-! #### Merge -/

/-- `Merge._meta`: `left.merge(right, how=…)` on the non-empty stand-ins (`leftsemi` declared as `left`) -/
def declMerge (m : MergeP) (l r : Sch) : Sch := pMerge m.cp l r

/-- hash join: `RearrangeByColumn` on both sides (helper column `_partitions` assigned and projected away),
    then `merge_chunk(lhs, rhs, result_meta=meta)` -/
def shuffled (s : Sch) : Sch :=
  match pAssign "_partitions" s (.series none .int rangeIdx) with
  | .frame cols i => pGetCols ((labels cols).filter (· != "_partitions")) (.frame cols i)
  | _ => .bad

def taskMerge (m : MergeP) (rt : Rt) (mt : Sch) (l r : Sch) : Sch :=
  let l' := if rt.path = 0 then l else shuffled l
  let r' := if rt.path = 0 then r else shuffled r
  let out := pMerge m.cp l' r'      -- `leftsemi`: `rhs.drop_duplicates()`, `how="inner"`
  if rt.emptyLhs then
    match mt with
    | .frame mc _ => pGetCols (labels mc) out   -- `out = out[result_meta.columns]`
    | _ => .bad
  else out

def guardMerge (rt : Rt) (l r : Sch) : Bool :=
  rt.path = 0 || (shuffleSafe l && shuffleSafe r)

/-! #### Concat -/

def hasColumns : Sch → Bool
  | .frame cols _ => !cols.isEmpty
  | _ => true

def meetName (a b : Option Name) : Option Name := if a == b then a else none

/-- `n if all(other[i] == n for other in names) else None`, level by level -/
def commonNames : List (List (Option Name)) → List (Option Name)
  | [] => []
  | n :: ns => ns.foldl (List.zipWith meetName) n

def lvlNames (i : List Lvl) : List (Option Name) := i.map (·.1)

def idxOf : Sch → Option (List Lvl)
  | .frame _ i => some i
  | .series _ _ i => some i
  | _ => none

def allIdx : List Sch → Option (List (List Lvl))
  | [] => some []
  | s :: t =>
    match idxOf s, allIdx t with
    | some i, some r => some (i :: r)
    | _, _ => none

def setNames (idx : List Lvl) (names : List (Option Name)) : List Lvl :=
  List.zipWith (fun l n => (n, l.2)) idx names

/-- D99: after the concat of the stand-ins (pandas keeps the name of a leading RangeIndex stand-in) every index level
    is given the name ALL inputs agree on, provided they all have as many levels as the result -/
def overrideNames (m : Sch) (ss : List Sch) : Sch :=
  match allIdx ss with
  | none => m
  | some idxs =>
    match m with
    | .frame c mi =>
      if idxs.all (fun i => i.length == mi.length) then .frame c (setNames mi (commonNames (idxs.map lvlNames))) else m
    | .series n k mi =>
      if idxs.all (fun i => i.length == mi.length) then .series n k (setNames mi (commonNames (idxs.map lvlNames))) else m
    | m => m

/-- `Concat._meta`: frames without columns are ignored ("to avoid dtype upcasting") -/
def declConcat (axis1 inner : Bool) (ss : List Sch) : Sch :=
  let used := ss.filter hasColumns
  if axis1 then pConcatCols used else overrideNames (pConcatRows inner used) ss

/-- `StackPartition._layer`: `check_meta(df._meta, self._meta)` (same container, same labels in the same order —
    dtypes were aligned by `Concat._lower`) and equal index names and series name -/
def checkMeta (part m : Sch) : Bool :=
  match part, m with
  | .frame pc pi, .frame mc mi => labels pc == labels mc && lvlNames pi == lvlNames mi
  | .series pn _ pi, .series mn _ mi => pn == mn && lvlNames pi == lvlNames mi
  | _, _ => false

/-- `AsType(df, {shared columns whose dtype differs: meta dtype})` -/
def castPart (m part : Sch) : Sch :=
  match m, part with
  | .frame mc _, .frame pc pi => .frame (castTo mc pc) pi
  | .series _ mk _, .series pn _ pi => .series pn mk pi
  | _, p => p

def taskConcat (axis1 inner : Bool) (rt : Rt) (m : Sch) (ss : List Sch) : Sch :=
  let _ := inner
  if axis1 then pConcatCols ss     -- ConcatIndexed / ConcatUnindexed: `concat_and_check` of one partition per input
  else
    match ss[rt.which % ss.length]? with
    | none => .bad
    | some s =>
      let part := castPart m s
      if checkMeta part m then part else pStack m part

def lvlKinds (i : List Lvl) : List Kind := i.map (·.2)

/-- a partition passed through unchanged keeps the kind of its own index -/
def idxKindsOk (m s : Sch) : Bool :=
  match m, s with
  | .frame _ mi, .frame _ si => lvlKinds mi == lvlKinds si
  | .series _ _ mi, .series _ _ si => lvlKinds mi == lvlKinds si
  | _, _ => true

/-- frames without columns are ignored by `_meta` but not by the tasks; the declared labels are duplicate-free -/
def guardConcat (axis1 : Bool) (m : Sch) (ss : List Sch) : Bool :=
  if axis1 then ss.all hasColumns
  else nodupLabels m && ss.all (fun s => hasColumns s && idxKindsOk m s)

/-! ## 4. expression trees -/

inductive Tree where
  | src (s : Sch)
  | un (op : UOp) (rt : Rt) (t : Tree)
  | assign (c : Name) (t v : Tree)
  | merge (m : MergeP) (rt : Rt) (l r : Tree)
  | concat (axis1 inner : Bool) (rt : Rt) (ts : List Tree)
  deriving Repr, Inhabited

mutual
/-- the declared schema of the query: every node's `_meta` from the `_meta` of its inputs -/
def declT : Tree → Sch
  | .src s => s
  | .un op _ t => declU op (declT t)
  | .assign c t v => pAssign c (declT t) (declT v)
  | .merge m _ l r => declMerge m (declT l) (declT r)
  | .concat a i _ ts => declConcat a i (declTs ts)
def declTs : List Tree → List Sch
  | [] => []
  | t :: ts => declT t :: declTs ts
end

mutual
/-- the schema of a computed partition of the query: every node's task applied to the partitions of its inputs -/
def compT : Tree → Sch
  | .src s => s
  | .un op rt t => taskU op rt (declU op (declT t)) (compT t)
  | .assign c t v => pAssign c (compT t) (compT v)
  | .merge m rt l r => taskMerge m rt (declMerge m (declT l) (declT r)) (compT l) (compT r)
  | .concat a i rt ts => taskConcat a i rt (declConcat a i (declTs ts)) (compTs ts)
def compTs : List Tree → List Sch
  | [] => []
  | t :: ts => compT t :: compTs ts
end

/-! ## 6. "up to pandas' promotion" -/

def colsPromote : List Col → List Col → Prop
  | [], [] => True
  | d :: ds, c :: cs => d.1 = c.1 ∧ Kind.promotes d.2 c.2 ∧ colsPromote ds cs
  | _, _ => False

def lvlsPromote : List Lvl → List Lvl → Prop
  | [], [] => True
  | d :: ds, c :: cs => d.1 = c.1 ∧ Kind.promotes d.2 c.2 ∧ lvlsPromote ds cs
  | _, _ => False

/-- the comparison of the property: same container, labels, order and names; kinds up to the promotion of
    integer / boolean columns that acquired missing values -/
def SchPromotes : Sch → Sch → Prop
  | .frame dc di, .frame cc ci => colsPromote dc cc ∧ lvlsPromote di ci
  | .series dn dk di, .series cn ck ci => dn = cn ∧ Kind.promotes dk ck ∧ lvlsPromote di ci
  | .index d, .index c => lvlsPromote d c
  | .scalar dk, .scalar ck => Kind.promotes dk ck
  | .bad, .bad => True
  | _, _ => False

/-- the columns `w` acquire missing values (unmatched rows of an outer / left / right join, rows of an input that
    lacks the column) -/
def naCols (w : Name → Bool) (cols : List Col) : List Col :=
  cols.map (fun c => if w c.1 then (c.1, c.2.na) else c)

mutual
/-- the same query with another run-time shape (partition counts, tree depth, lowering path, which partition) -/
def mapRt (g : Rt → Rt) : Tree → Tree
  | .src s => .src s
  | .un op rt t => .un op (g rt) (mapRt g t)
  | .assign c t v => .assign c (mapRt g t) (mapRt g v)
  | .merge m rt l r => .merge m (g rt) (mapRt g l) (mapRt g r)
  | .concat a i rt ts => .concat a i (g rt) (mapRts g ts)
def mapRts (g : Rt → Rt) : List Tree → List Tree
  | [] => []
  | t :: ts => mapRt g t :: mapRts g ts
end

mutual
/-- every node of the tree meets its guard (on the declared schemas of its inputs) -/
def guardT : Tree → Bool
  | .src _ => true
  | .un op rt t => guardT t && guardU op rt (declT t)
  | .assign _ t v => guardT t && guardT v
  | .merge _ rt l r => guardT l && guardT r && guardMerge rt (declT l) (declT r)
  | .concat a i _ ts => guardTs ts && guardConcat a (declConcat a i (declTs ts)) (declTs ts)
def guardTs : List Tree → Bool
  | [] => true
  | t :: ts => guardT t && guardTs ts
end

end Dx.Meta
