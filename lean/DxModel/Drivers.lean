/-
  Drivers.lean — the fixed-point rewrite drivers of dask_expr/_core.py and the staged pipeline of
  dask_expr/_expr.py, transliterated:

      Expr.rewrite(kind)                      rewriteWith / rewrite
      Expr.simplify_once(dependents, simplified)   simplifyOnce (+ simplifyArgs)
      Expr.simplify()                         simplifyLoop / simplifyT / simplify
      Expr.lower_once()                       lowerOnce
      Expr.lower_completely()                 lowerLoop / lowerCompletely
      optimize_until(expr, stage), optimize   optimizeUntilT / optimizeUntil / optimize

  The per-class rules (`_simplify_down`, `_simplify_up`, `_tune_down`, `_tune_up`, `_lower`) and
  `optimize_blockwise_fusion` are a *parameter* (`Rules`).  Rule outputs are not subterms of their
  inputs, so every driver takes fuel; running out of fuel returns the current expression unchanged
  with status `fuel` (the real code would keep running).  A rule result that is not an `Expr`
  (`if not isinstance(out, Expr): return out`, used by a few rules that fold to a python scalar)
  ends the traversal with a non-expression and is not modelled.

  Ghost state that the code does not have: the `exhausted` flag, and the `trace` of `_simplify_up`
  firings (child, parent, the dependents map the rule saw, output) — the latter is what the
  deps-sensitive soundness theorem and the T3 tie talk about.
-/
import DxModel.Expr
namespace Dx

/-- the rule methods of all classes, as functions of the node they are called on -/
structure Rules where
  /-- `e._simplify_down()` -/
  down : Expr → Option Expr
  /-- `child._simplify_up(parent, dependents)` -/
  up : Expr → Expr → Deps → Option Expr
  /-- `e._tune_down()` -/
  tuneDown : Expr → Option Expr
  /-- `child._tune_up(parent)` (no dependents argument in the code) -/
  tuneUp : Expr → Expr → Option Expr
  /-- `e._lower()` -/
  lower : Expr → Option Expr
  /-- `optimize_blockwise_fusion(e)` as one abstract step -/
  fuse : Expr → Expr

inductive Status where
  | ok
  | fuel          -- the model ran out of fuel (no counterpart in the code)
  | nonconverge   -- RuntimeError("Optimizer does not converge. …")
deriving DecidableEq, Repr, Inhabited

structure Res where
  expr : Expr
  st : Status
deriving Repr, Inhabited

/-- The `for child in expr.dependencies(): out = child.<up>(expr …); if out is None: out = expr;
    if out is not expr and out._name != expr._name: expr = out; break` loop: first child whose rule
    returns something different from the parent; returns (child, output). -/
def firstFire (up : Expr → Option Expr) (p : Expr) : List Expr → Option (Expr × Expr)
  | [] => none
  | c :: t => match up c with
    | some o => if o != p then some (c, o) else firstFire up p t
    | none => firstFire up p t

/-! ### `Expr.rewrite(kind)` -/

/-- One unit of fuel per iteration of `while True`; children recurse with the remaining fuel. -/
def rewriteWith (dn : Expr → Option Expr) (up : Expr → Expr → Option Expr) : Nat → Expr → Res
  | 0, e => ⟨e, .fuel⟩
  | n + 1, e =>
    -- Rewrite this node
    let out := (dn e).getD e
    if out != e then rewriteWith dn up n out            -- expr = out; continue
    else
      -- Allow children to rewrite their parents
      match firstFire (fun c => up c e) e e.args with
      | some (_, o) => rewriteWith dn up n o             -- expr = out; _continue = True; break
      | none =>
        -- Rewrite all of the children
        let rs := e.args.map (rewriteWith dn up n)
        if rs.any (fun r => r.st != .ok) then ⟨e, .fuel⟩
        else
          let new := rs.map (fun r => r.expr)
          if new != e.args then rewriteWith dn up n (.node e.cls e.lit new)   -- changed: rebuild; continue
          else ⟨e, .ok⟩                                  -- break

/-- `expr.rewrite(kind="tune")`, the only kind in use: `rewrite("simplify")` would call
    `_simplify_up(expr)` without its `dependents` argument. -/
def rewrite (R : Rules) : Nat → Expr → Res := rewriteWith R.tuneDown R.tuneUp

/-! ### `Expr.simplify_once(dependents, simplified)` -/

abbrev Cache := List (Expr × Expr)      -- `simplified`: newest binding first

structure Firing where
  child : Expr
  parent : Expr
  deps : Deps
  out : Expr
deriving Repr

/-- the two mutable arguments of `simplify_once` + ghost state -/
structure SState where
  deps : Deps
  cache : Cache
  trace : List Firing
  exhausted : Bool
deriving Repr

/-- the `for operand in expr.operands` loop of `simplify_once`:
```
dependents[operand._name].append(weakref.ref(expr))        # "Bandaid for now, waiting for Singleton"
new = operand.simplify_once(dependents=dependents, simplified=simplified)
simplified[operand._name] = new
```
-/
def simplifyArgs (recur : Expr → SState → Expr × SState) (parent : Expr) :
    List Expr → SState → List Expr × SState
  | [], s => ([], s)
  | a :: t, s =>
    let r := recur a { s with deps := s.deps ++ [(a, parent)] }
    let rt := simplifyArgs recur parent t { r.2 with cache := (a, r.1) :: r.2.cache }
    (r.1 :: rt.1, rt.2)

/-- One unit of fuel per level of recursion (the `while True` of the code runs exactly once). -/
def simplifyOnce (R : Rules) : Nat → Expr → SState → Expr × SState
  | 0, e, s => (e, { s with exhausted := true })
  | n + 1, e, s =>
    -- Check if we've already simplified for these dependents
    match s.cache.lookup e with
    | some r => (r, s)
    | none =>
      let out := (R.down e).getD e
      let e1 := if out != e then out else e                -- no restart
      -- Allow children to simplify their parents
      let f := firstFire (fun c => R.up c e1 s.deps) e1 e1.args
      let e2 := match f with | some (_, o) => o | none => e1
      let tr := match f with
        | some (c, o) => s.trace ++ [⟨c, e1, s.deps, o⟩]
        | none => s.trace
      -- Rewrite all of the children
      let r := simplifyArgs (simplifyOnce R n) e2 e2.args { s with trace := tr }
      (if r.1 != e2.args then .node e2.cls e2.lit r.1 else e2, r.2)

/-! ### `Expr.simplify()` -/

/-- `m`: fuel of each `simplify_once`; one unit of the second fuel per iteration of the outer loop. -/
def simplifyLoop (R : Rules) (m : Nat) : Nat → Expr → List Expr → List Firing → Res × List Firing
  | 0, e, _, tr => (⟨e, .fuel⟩, tr)
  | n + 1, e, seen, tr =>
    let r := simplifyOnce R m e ⟨collectDependents e, [], tr, false⟩
    if r.2.exhausted then (⟨e, .fuel⟩, r.2.trace)
    else if r.1 == e then (⟨e, .ok⟩, r.2.trace)                            -- break
    else if seen.contains r.1 then (⟨e, .nonconverge⟩, r.2.trace)          -- raise RuntimeError
    else simplifyLoop R m n r.1 (r.1 :: seen) r.2.trace

def simplifyT (R : Rules) (fuel : Nat) (e : Expr) (tr : List Firing) : Res × List Firing :=
  simplifyLoop R fuel fuel e [] tr

def simplify (R : Rules) (fuel : Nat) (e : Expr) : Res := (simplifyT R fuel e []).1

/-! ### `Expr.lower_once()`, `Expr.lower_completely()` -/

def lowerOnce (R : Rules) : Nat → Expr → Res
  | 0, e => ⟨e, .fuel⟩
  | n + 1, e =>
    -- Lower this node
    let out := (R.lower e).getD e
    -- Lower all children (of the output)
    let rs := out.args.map (lowerOnce R n)
    if rs.any (fun r => r.st != .ok) then ⟨e, .fuel⟩
    else
      let new := rs.map (fun r => r.expr)
      ⟨if new != out.args then .node out.cls out.lit new else out, .ok⟩

def lowerLoop (R : Rules) (m : Nat) : Nat → Expr → Res
  | 0, e => ⟨e, .fuel⟩
  | n + 1, e =>
    let r := lowerOnce R m e
    if r.st != .ok then ⟨e, .fuel⟩
    else if r.expr == e then ⟨e, .ok⟩
    else lowerLoop R m n r.expr

def lowerCompletely (R : Rules) (fuel : Nat) (e : Expr) : Res := lowerLoop R fuel fuel e

/-! ### `optimize_until(expr, stage)`, `optimize(expr, fuse)` (dask_expr/_expr.py) -/

inductive Stage where
  | logical | simplifiedLogical | tunedLogical | physical | simplifiedPhysical | fused
deriving DecidableEq, Repr

/-- An exception of an earlier stage (non-convergence; in the model also fuel) propagates. -/
def optimizeUntilT (R : Rules) (fuel : Nat) (stage : Stage) (e : Expr) : Res × List Firing :=
  if stage = .logical then (⟨e, .ok⟩, [])
  else
    -- Simplify
    let r1 := simplifyT R fuel e []
    if r1.1.st != .ok ∨ stage = .simplifiedLogical then r1
    else
      -- Manipulate Expression to make it more efficient
      let r2 := rewrite R fuel r1.1.expr
      if r2.st != .ok ∨ stage = .tunedLogical then (r2, r1.2)
      else
        -- Lower
        let r3 := lowerCompletely R fuel r2.expr
        if r3.st != .ok ∨ stage = .physical then (r3, r1.2)
        else
          -- Simplify again
          let r4 := simplifyT R fuel r3.expr r1.2
          if r4.1.st != .ok ∨ stage = .simplifiedPhysical then r4
          else
            -- Final graph-specific optimizations
            (⟨R.fuse r4.1.expr, .ok⟩, r4.2)

def optimizeUntil (R : Rules) (fuel : Nat) (stage : Stage) (e : Expr) : Res :=
  (optimizeUntilT R fuel stage e).1

def optimize (R : Rules) (fuel : Nat) (fuse : Bool) (e : Expr) : Res :=
  optimizeUntil R fuel (if fuse then .fused else .simplifiedPhysical) e

/-! ### Finite rule tables

  A stub rule system is a list of (pattern → replacement) entries; the same table drives real stub
  `Expr` subclasses in the harness (harness/props/c01.py) and the model. -/

/-- patterns and templates: a variable or a node; `lit = none` in a pattern matches any literal
    (in a template it builds literal 0) -/
inductive Pat where
  | var (i : Nat)
  | node (cls : Nat) (lit : Option Nat) (args : List Pat)
deriving Repr, Inhabited

abbrev Env := List (Nat × Expr)

mutual
/-- match a pattern; a repeated variable must be bound to the same expression -/
def Pat.matchE : Pat → Expr → Env → Option Env
  | .var i, e, env => match env.lookup i with
    | some b => if b == e then some env else none
    | none => some ((i, e) :: env)
  | .node c l ps, .node c' l' as, env =>
    if c == c' && (match l with | some x => x == l' | none => true) then Pat.matchList ps as env else none
def Pat.matchList : List Pat → List Expr → Env → Option Env
  | [], [], env => some env
  | p :: ps, a :: as, env => match Pat.matchE p a env with
    | some env' => Pat.matchList ps as env'
    | none => none
  | _, _, _ => none
end

mutual
/-- instantiate a template; an unbound variable makes the rule not fire -/
def Pat.inst : Pat → Env → Option Expr
  | .var i, env => env.lookup i
  | .node c l ps, env => match Pat.instList ps env with
    | some as => some (.node c (l.getD 0) as)
    | none => none
def Pat.instList : List Pat → Env → Option (List Expr)
  | [], _ => some []
  | p :: ps, env => match Pat.inst p env, Pat.instList ps env with
    | some a, some as => some (a :: as)
    | _, _ => none
end

/-- side conditions of an up rule on the dependents list of the child -/
inductive Cond where
  | any
  | ndLe (k : Nat)     -- at most k dependents with distinct names
  | nrEq (k : Nat)     -- exactly k entries (duplicates counted)
  | allCls (c : Nat)   -- every dependent has class c
deriving Repr, Inhabited

def dedupExprs : List Expr → List Expr
  | [] => []
  | a :: t => let r := dedupExprs t; if r.contains a then r else a :: r

def Cond.holds (cd : Cond) (ds : List Expr) : Bool :=
  match cd with
  | .any => true
  | .ndLe k => (dedupExprs ds).length ≤ k
  | .nrEq k => ds.length == k
  | .allCls c => ds.all (fun p => p.cls == c)

structure DownRule where
  pat : Pat
  tmpl : Pat
deriving Repr

structure UpRule where
  child : Pat
  parent : Pat
  cond : Cond
  tmpl : Pat
deriving Repr

structure Table where
  down : List DownRule := []
  up : List UpRule := []
  tuneDown : List DownRule := []
  tuneUp : List UpRule := []
  lower : List DownRule := []
deriving Repr

def applyDown (rs : List DownRule) (e : Expr) : Option Expr :=
  rs.findSome? (fun r => match r.pat.matchE e [] with
    | some env => r.tmpl.inst env
    | none => none)

def applyUp (rs : List UpRule) (c p : Expr) (ds : List Expr) : Option Expr :=
  rs.findSome? (fun r => match r.child.matchE c [] with
    | some env => match r.parent.matchE p env with
      | some env' => if r.cond.holds ds then r.tmpl.inst env' else none
      | none => none
    | none => none)

/-- the rule system of a table; fusion is the identity for stub classes -/
def Table.toRules (t : Table) : Rules where
  down := applyDown t.down
  up := fun c p d => applyUp t.up c p (d.of c)
  tuneDown := applyDown t.tuneDown
  tuneUp := fun c p => applyUp t.tuneUp c p []
  lower := applyDown t.lower
  fuse := id

end Dx
