/-
  Driver/Cache.lean — protocol verbs for the LRU model, the get-or-compute patterns and the
  `Expr._instances` table.

    lru cap=2 ops=s0:10,s1:11,g0,c2,l,a3,b4,x5 fail=4
        s<k>:<v> set, g<k> get, c<k> contains, l len,
        a<k>/b<k> get-or-compute pattern A/B with f k = 1000+k (none for k in `fail`), x<k> assert-on-miss read
      -> <obs>,<obs>,…|<k>:<v>;<k>:<v>        (final OrderedDict order)
    tbl ops=n3,n3,g3.5,n4
        n<k> construct tree k, g<k1>.<k2>… garbage collection keeping exactly the listed names
      -> uid of the object handed out by every `n`
-/
import DxModel.Cache
import Driver.Proto
open Dx Dx.Proto
namespace Dx.Drv.Cache
open Dx.Cache

inductive XOp where
  | base (op : Op Nat Nat)
  | goA (k : Nat)
  | goB (k : Nat)
  | assertHit (k : Nat)

def parseOp (w : String) : Option XOp :=
  let body := (w.drop 1).toString
  match w.front with
  | 's' => match body.splitOn ":" with
      | [k, v] => match k.toNat?, v.toNat? with
          | some k, some v => some (.base (.set k v))
          | _, _ => none
      | _ => none
  | 'g' => body.toNat?.map (fun k => .base (.get k))
  | 'c' => body.toNat?.map (fun k => .base (.has k))
  | 'l' => if body = "" then some (.base .len) else none
  | 'a' => body.toNat?.map .goA
  | 'b' => body.toNat?.map .goB
  | 'x' => body.toNat?.map .assertHit
  | _ => none

def rObs : Obs Nat → String
  | .hit v => s!"h{v}"
  | .miss => "m"
  | .ok => "ok"
  | .err => "err"
  | .bool b => s!"b{bool01 b}"
  | .nat n => s!"n{n}"

def rOpt : Option Nat → String
  | some v => s!"v{v}"
  | none => "fail"

def runX (cap : Nat) (f : Nat → Option Nat) : LRU Nat Nat → List XOp → List String × LRU Nat Nat
  | c, [] => ([], c)
  | c, .base op :: rest =>
      let r := step cap c op
      let rr := runX cap f r.2 rest
      (rObs r.1 :: rr.1, rr.2)
  | c, .goA k :: rest =>
      let r := getOrComputeA cap f c k
      let rr := runX cap f r.2 rest
      (rOpt r.1 :: rr.1, rr.2)
  | c, .goB k :: rest =>
      let r := getOrComputeB cap f c k
      let rr := runX cap f r.2 rest
      (rOpt r.1 :: rr.1, rr.2)
  | c, .assertHit k :: rest =>
      let r := assertHit c k
      let rr := runX cap f r.2 rest
      (rOpt r.1 :: rr.1, rr.2)

def handleLru (kv : List (String × String)) : String :=
  match getNat kv "cap", (Proto.get kv "ops").map parseStrs with
  | some cap, some ws =>
      match ws.mapM parseOp with
      | none => "BAD ops"
      | some ops =>
          let fail := (getNats kv "fail").getD []
          let f : Nat → Option Nat := fun k => if fail.contains k then none else some (1000 + k)
          let r := runX cap f [] ops
          joinWith "," r.1 ++ "|" ++ joinWith ";" (r.2.map (fun p => s!"{p.1}:{p.2}"))
  | _, _ => "BAD params"

def parseTOp (w : String) : Option (TOp Nat Nat) :=
  let body := (w.drop 1).toString
  match w.front with
  | 'n' => body.toNat?.map .new
  | 'g' =>
      let ks := if body = "" then some [] else (body.splitOn ".").mapM String.toNat?
      ks.map (fun ks => .gc (fun n => ks.contains n))
  | _ => none

def handleTbl (kv : List (String × String)) : String :=
  match (Proto.get kv "ops").map parseStrs with
  | some ws =>
      match ws.mapM parseTOp with
      | none => "BAD ops"
      | some ops => joinWith "," ((trun (fun x : Nat => x) [] 0 ops).1.map (fun o => toString o.uid))
  | none => "BAD params"

def handle : List String → Option String
  | "lru" :: rest => some (handleLru (kvs rest))
  | "tbl" :: rest => some (handleTbl (kvs rest))
  | _ => none

end Dx.Drv.Cache
