/-
  Driver/Boundary.lean — the boundary constructs (C17) on a lower graph given as a listing
  `g=<id>:<refs>;…` (opaque tasks `t<id>(refs)`), output keys `outs=<ids>` in partition order.

    boundary fromgraph   g= keys= divs=                       FromGraph(layer, divisions, keys)
    boundary persist     n= divs=                             persist(): FromGraph of the persisted values
    boundary todelayed   g= outs= og=                         to_delayed(optimize_graph=og)
    boundary fromdelayed g= outs= og= sel= divs= verify= parts=   from_delayed(to_delayed(..)[sel], divisions, verify_meta)
    boundary legacy      g= outs= divs= opt=                  from_legacy_dataframe(to_legacy_dataframe(), optimize=opt)
    boundary checkmeta   meta= x=                             decision of check_meta

  Key text: lower key `k<id>`, `(k, 0)` `w<id>`, output key of the new expression `@self:<i>`.
-/
import DxModel.Layers.Boundary
import Driver.Proto
open Dx Dx.Proto Dx.Boundary
namespace Dx.Drv.Boundary

def parseListing (s : String) : Option (List (Nat × List Nat)) :=
  if s = "-" ∨ s = "" then some [] else
  (s.splitOn ";").mapM (fun ent => match ent.splitOn ":" with
    | [k, rs] => match k.toNat?, parseNats rs with
        | some k, some rs => some (k, rs)
        | _, _ => none
    | _ => none)

def parseDiv (s : String) : Option (Option Int) :=
  if s = "N" then some none else s.toInt?.map some

def parseDivs (s : String) : Option Divs :=
  if s = "-" ∨ s = "" then some [] else (s.splitOn ",").mapM parseDiv

def rDivs (d : Divs) : String :=
  joinWith "." (d.map (fun x => match x with | none => "N" | some i => toString i))

def rK (k : Nat) : String := s!"k{k}"

def rSum : Nat ⊕ Nat → String
  | .inl k => rK k
  | .inr i => s!"@self:{i}"

def rB : BKey Nat → String
  | .orig k => rK k
  | .wrap k => s!"w{k}"
  | .out i => s!"@self:{i}"

/-- tasks of the lower graph are opaque `t<id>(refs)`; the boundary's own tasks are spelled out -/
def rTsk {κ} (rk : κ → String) : Tsk κ → String
  | .alias k => s!"alias({rk k})"
  | .const _ => "lit"
  | .apply f args => s!"t{f}({joinWith "," (args.map rk)})"
  | _ => "?"

def rWrap {κ} (rk : κ → String) : Tsk κ → String
  | .apply f args => (if f = checkMetaCode then "check_meta(" else if f = identityCode then "identity(" else "?(")
      ++ joinWith "," (args.map rk) ++ ")"
  | t => rTsk rk t

/-- defined keys only, one `key=task` per key, sorted -/
def rGraph {κ} (rk : κ → String) (rt : κ → Tsk κ → String) (cands : List κ) (g : Graph κ) : String :=
  joinWith "|" (sortDedupS (cands.filterMap (fun k => (g k).map (fun t => rk k ++ "=" ++ rt k t))))

def rtB : BKey Nat → Tsk (BKey Nat) → String
  | .out _, t => rWrap rB t
  | _, t => rTsk rB t

def rFromGraph (e : FromGraph Nat) (imported : List Nat) : String :=
  let cands := e.layerKeys imported ++ e.daskKeys
  let dangling := e.daskKeys.filter (fun k => (e.graph k).isNone)
  "G " ++ rGraph rSum (fun _ t => rTsk rSum t) cands e.graph
    ++ " ; keys=" ++ joinWith "," (e.daskKeys.map rSum)
    ++ " ; nparts=" ++ toString e.npartitions
    ++ " ; divs=" ++ rDivs e.divisions
    ++ " ; dangling=" ++ joinWith "," (dangling.map rSum)

def outFn (outs : List Nat) (i : Nat) : Nat := outs.getD i 0

def keepOf (l : List (Nat × List Nat)) (outs : List Nat) : Nat → Bool :=
  let r := reachable l outs
  fun k => r.contains k

def rSelErr : Parts.SelErr → String
  | .unbound => "ERR UnboundLocalError"
  | .index => "ERR IndexError"

def parseDType (s : String) : Option DType :=
  match s.toList with
  | 'n' :: r => (String.ofList r).toNat?.map DType.num
  | 'o' :: r => (String.ofList r).toNat?.map DType.other
  | ['c', 'U'] => some (.cat none)
  | 'c' :: r => (String.ofList r).toNat?.map (fun i => DType.cat (some i))
  | _ => none

def parseSch (s : String) : Option Sch :=
  match s.splitOn "/" with
  | [k, cols] => match k.toNat? with
      | some k =>
        let ents := if cols = "-" ∨ cols = "" then [] else cols.splitOn ","
        (ents.mapM (fun (ent : String) => match ent.splitOn ":" with
          | [c, d] => (parseDType d).map (fun d => (c, d))
          | _ => none)).map (fun cs => { kind := k, cols := cs })
      | none => none
  | _ => none

def handle : List String → Option String
  | "boundary" :: "fromgraph" :: rest =>
    let kv := kvs rest
    match (get kv "g").bind parseListing, getNats kv "keys", (get kv "divs").bind parseDivs with
    | some l, some keys, some divs =>
      let e : FromGraph Nat := { layer := listingGraph l, divisions := divs, keys := keys }
      some (rFromGraph e (l.map Prod.fst))
    | _, _, _ => some "BAD params"
  | "boundary" :: "persist" :: rest =>
    let kv := kvs rest
    match getNat kv "n", (get kv "divs").bind parseDivs with
    | some n, some divs =>
      let e := persist (fun i => i) n divs (fun _ => V.frame [])
      some (rFromGraph e (List.range n))
    | _, _ => some "BAD params"
  | "boundary" :: "todelayed" :: rest =>
    let kv := kvs rest
    match (get kv "g").bind parseListing, getNats kv "outs", getBool kv "og" with
    | some l, some outs, some og =>
      let keep := keepOf l outs
      let ds := toDelayed (listingGraph l) (outFn outs) outs.length og keep
      let cands := l.map Prod.fst
      let parts := ds.map (fun d => "D key=" ++ rK d.key ++ " G " ++ rGraph rK (fun _ t => rTsk rK t) cands d.graph)
      some (joinWith " ; " parts ++ " ; n=" ++ toString ds.length
        ++ " ; cullok=" ++ bool01 (cullCheck l (reachable l outs) outs))
    | _, _, _ => some "BAD params"
  | "boundary" :: "fromdelayed" :: rest =>
    let kv := kvs rest
    match (get kv "g").bind parseListing, getNats kv "outs", getBool kv "og", getNats kv "sel",
          get kv "divs", getBool kv "verify", get kv "parts" with
    | some l, some outs, some og, some sel, some divS, some verify, some partsS =>
      let keep := keepOf l outs
      let all := toDelayed (listingGraph l) (outFn outs) outs.length og keep
      let dfs := sel.filterMap (fun i => all[i]?)
      let arg : Option DivArg :=
        if divS = "none" then some .none else if divS = "sorted" then some .sorted
        else (parseDivs divS).map DivArg.given
      let parts : Option (Option (List Nat)) := if partsS = "-" then some none else (parseNats partsS).map some
      match arg, parts with
      | some arg, some parts =>
        match fromDelayed dfs arg verify with
        | .error .noDelayed => some "ERR TypeError"
        | .error .sorted => some "ERR NotImplementedError"
        | .error .divLen => some "ERR ValueError"
        | .ok e0 =>
          let e : FromDelayed Nat := { e0 with partitions := parts }
          if e.sel.any (fun p => decide (dfs.length ≤ p)) then some "ERR IndexError" else
          let ids := l.map Prod.fst
          let cands : List (BKey Nat) := ids.map BKey.orig ++ ids.map BKey.wrap
            ++ (List.range (e.npartitions + dfs.length + 1)).map BKey.out
          let dangling := e.daskKeys.filter (fun k => (e.graph k).isNone)
          let deps := dfs.map (fun d => "{" ++ rGraph rB rtB cands (delayedExprLayer d) ++ "}")
          let divs := match e.divisions with
            | .ok d => rDivs d
            | .error er => rSelErr er
          some ("G " ++ rGraph rB rtB cands e.graph
            ++ " ; own=" ++ rGraph rB rtB cands e.ownLayer
            ++ " ; deps=" ++ joinWith "" deps
            ++ " ; keys=" ++ joinWith "," (e.daskKeys.map rB)
            ++ " ; nparts=" ++ toString e.npartitions
            ++ " ; divs=" ++ divs
            ++ " ; dangling=" ++ joinWith "," (dangling.map rB))
      | _, _ => some "BAD params"
    | _, _, _, _, _, _, _ => some "BAD params"
  | "boundary" :: "legacy" :: rest =>
    let kv := kvs rest
    match (get kv "g").bind parseListing, getNats kv "outs", (get kv "divs").bind parseDivs, getBool kv "opt" with
    | some l, some outs, some divs, some opt =>
      let roots := (List.range (divs.length - 1)).map (outFn outs)
      let e := legacyRoundtrip (listingGraph l) (outFn outs) divs opt (keepOf l roots)
      some (rFromGraph e (l.map Prod.fst))
    | _, _, _, _ => some "BAD params"
  | "boundary" :: "checkmeta" :: rest =>
    let kv := kvs rest
    match (get kv "meta").bind parseSch, (get kv "x").bind parseSch with
    | some m, some x => some (match checkMeta m x () with | .ok _ => "pass" | .error _ => "ValueError")
    | _, _ => some "BAD params"
  | _ => none

end Dx.Drv.Boundary
