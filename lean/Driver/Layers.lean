/-
  Driver/Layers.lean — protocol verbs for the C02 layers (TreeReduce, CumulativeFinalize,
  CreateOverlappingPartitions, Blockwise) and their helper specifications.
-/
import DxModel.Graph
import DxModel.Layers.TreeReduce
import DxModel.Layers.Cumulative
import DxModel.Layers.Overlap
import DxModel.Layers.Blockwise
import Driver.Proto
import Driver.Render
open Dx Dx.Proto
namespace Dx.Drv.Layers

def rNats (l : List Nat) : String := if l.isEmpty then "-" else joinWith "," (l.map toString)
def rPays (rows : List Row) : String := rNats (rows.map (·.pay))
def mkRows (pays : List Nat) : List Row :=
  (List.range pays.length).zip pays |>.map (fun (i, v) => { idx := i, tgt := 0, pay := v })

/-- one line per entry `key=task`, sorted, joined by `|` -/
def rDict (ents : List String) : String := joinWith "|" (sortDedupS ents)

/-! ### TreeReduce -/

def rTreeKey : Tree.Key → String
  | .dep i => s!"@d0:{i}"
  | .node j i => s!"@self:{j}.{i}"
  | .out => "@self:0"

def rTreeTask : Tsk Tree.Key → String
  | .apply 0 ks => s!"combine([{joinWith "," (ks.map rTreeKey)}])"
  | .apply 2 ks => s!"apply_combine([{joinWith "," (ks.map rTreeKey)}],kw)"
  | .apply 1 ks => s!"apply_aggregate([{joinWith "," (ks.map rTreeKey)}],kw)"
  | t => Render.tsk rTreeKey t

def parseSE (s : String) : Option Tree.SE :=
  if s = "None" then some .dflt else if s = "False" then some .off else s.toInt?.map Tree.SE.int

def handleTree (kv : List (String × String)) : String :=
  match getNat kv "n", (get kv "se").bind parseSE, getBool kv "kw" with
  | some n, some se, some kw =>
    match Tree.splitEveryProp se with
    | none => "ERR ValueError"
    | some k =>
      let p : Tree.Params := { n := n, splitEvery := k, kwargs := kw }
      "G " ++ rDict ((Tree.dict p).map (fun (q, t) => rTreeKey q ++ "=" ++ rTreeTask t))
  | _, _, _ => "BAD params"

/-! ### CumulativeFinalize -/

def rCumKey : Cum.Key → String
  | .dep i => s!"@d0:{i}"
  | .prev i => s!"@d1:{i}"
  | .inter i => s!"-intermediate@self:{i}"
  | .out i => s!"@self:{i}"

def rCumTask : Tsk Cum.Key → String
  | .apply 0 [x, y] => s!"cum_aggregate_apply({rCumKey x},{rCumKey y})"
  | t => Render.tsk rCumKey t

def opOf (s : String) : Option (Nat → Nat → Nat) :=
  match s with
  | "sum" => some (· + ·)
  | "prod" => some (· * ·)
  | "max" => some Nat.max
  | "min" => some Nat.min
  | _ => none

/-- `1,2;-;3` → partitions -/
def parseParts (s : String) : Option (List (List Nat)) := (s.splitOn ";").mapM parseNats

def rV : V → String
  | .frame rows => rPays rows
  | .unit => "None"
  | .err => "ERR"
  | _ => "?"

def optRows (s : String) : Option V :=
  if s = "None" then some .unit else (parseNats s).map (fun l => V.frame (mkRows l))

/-! ### CreateOverlappingPartitions -/

def rOvKey : Overlap.Key → String
  | .dep i => s!"@d0:{i}"
  | .prep i => s!"overlap-prepend-@self:{i}"
  | .app i => s!"overlap-append-@self:{i}"
  | .out i => s!"@self:{i}"
  | .res i => s!"res@self:{i}"

def rOvTask (p : Overlap.Params) : Tsk Overlap.Key → String
  | .apply 0 [k] => s!"tail({rOvKey k},{p.before})"
  | .apply 1 [k] => s!"head({rOvKey k},{p.after})"
  | .apply 2 [c] => s!"combined_parts(None,{rOvKey c},None,{p.before},{p.after})"
  | .apply 3 [c, n] => s!"combined_parts(None,{rOvKey c},{rOvKey n},{p.before},{p.after})"
  | .apply 4 [pr, c] => s!"combined_parts({rOvKey pr},{rOvKey c},None,{p.before},{p.after})"
  | .apply 5 [pr, c, n] => s!"combined_parts({rOvKey pr},{rOvKey c},{rOvKey n},{p.before},{p.after})"
  | t => Render.tsk rOvKey t

def rGraphWith {κ} (rk : κ → String) (rt : Tsk κ → String) (keys : List κ) (g : Graph κ) : String :=
  rDict (keys.map (fun k => match g k with
    | some t => rk k ++ "=" ++ rt t
    | none => rk k ++ "=!undefined"))

/-! ### Blockwise -/

def rBwKey : Blockwise.Key → String
  | .dep d i => s!"@d{d}:{i}"
  | .out i => s!"@self:{i}"

def parseArg (s : String) : Option Blockwise.Arg :=
  match s.splitOn ":" with
  | ["e", d, np, nd] => match d.toNat?, np.toNat?, nd.toNat? with
      | some d, some np, some nd => some (.expr d np nd)
      | _, _, _ => none
  | ["l", t] => some (.lit t)
  | _ => none

def parseArgs (s : String) : Option (List Blockwise.Arg) :=
  if s = "-" then some [] else (s.splitOn ";").mapM parseArg

/-- the task with literals in their positions -/
def rBwTask (p : Blockwise.Params) (i : Nat) : String :=
  "op(" ++ joinWith "," (p.args.map (fun a => match Blockwise.argKey p i a, a with
    | some k, _ => rBwKey k
    | none, .lit t => t
    | none, _ => "?")) ++ ")"

def handleLayer (kind : String) (kv : List (String × String)) : String :=
  match kind with
  | "treereduce" => handleTree kv
  | "cumfinalize" => match getNat kv "n" with
      | some n => "G " ++ rGraphWith rCumKey rCumTask (Cum.keys n) (Cum.layer n)
      | none => "BAD params"
  | "overlap" => match getNat kv "n", getNat kv "before", getNat kv "after" with
      | some n, some b, some a =>
        let p : Overlap.Params := { n := n, before := b, after := a }
        "G " ++ rGraphWith rOvKey (rOvTask p) (Overlap.keys p) (Overlap.layer p)
      | _, _, _ => "BAD params"
  | "blockwise" => match getNat kv "n", getNat kv "ndim", getBool kv "any", (get kv "args").bind parseArgs with
      | some n, some nd, some any, some args =>
        let p : Blockwise.Params := { n := n, ndim := nd, anyNdim := any, args := args }
        "G " ++ rDict ((Blockwise.keys p).map (fun k => match k, Blockwise.layer p k with
          | .out i, some (.apply 0 ks) =>
              -- the keys of the model task must be the keys rendered in place
              if ks == p.args.filterMap (Blockwise.argKey p i) then rBwKey k ++ "=" ++ rBwTask p i
              else rBwKey k ++ "=!mismatch"
          | k, _ => rBwKey k ++ "=!undefined"))
      | _, _, _, _ => "BAD params"
  | _ => "BAD layer"

def handleSpec (kind : String) (kv : List (String × String)) : Option String :=
  match kind with
  | "chunks" => match getNat kv "k", getNat kv "n" with
      | some k, some n => some (joinWith ";" ((Tree.chunks k (List.range n)).map rNats))
      | _, _ => some "BAD params"
  | "cumagg" => match (get kv "op").bind opOf, (get kv "x").bind optRows, (get kv "y").bind optRows with
      | some op, some x, some y => some (rV (Cum.cumAggregateApply op x y))
      | _, _, _ => some "BAD params"
  | "takelast" => match (get kv "op").bind opOf, getNats kv "rows" with
      | some op, some r => some (rV (Cum.takeLast (Cum.cum op (mkRows r))))
      | _, _ => some "BAD params"
  | "cum" => match (get kv "op").bind opOf, getNats kv "rows" with
      | some op, some r => some (rPays (Cum.cum op (mkRows r)))
      | _, _ => some "BAD params"
  | "tail" => match getNat kv "n", getNats kv "rows" with
      | some n, some r => some (rPays (Overlap.tailN n (mkRows r)))
      | _, _ => some "BAD params"
  | "combinedparts" =>
    match getNat kv "before", getNat kv "after", get kv "prev", getNats kv "cur", get kv "next" with
    | some b, some a, some pr, some cur, some nx =>
      let o (s : String) : Option (Option (List Row)) :=
        if s = "None" then some none else (parseNats s).map (fun l => some (mkRows l))
      match o pr, o nx with
      | some pr, some nx =>
        match Overlap.combinedParts b a pr (mkRows cur) nx with
        | none => some "ERR NotImplementedError"
        | some (x, y, z) =>
            -- (combined, prev_part_length, next_part_length)
            let len (l : List Row) : String := if l.length = 0 then "None" else toString l.length
            some s!"{rPays (x ++ y ++ z)}|{len x}|{len z}"
      | _, _ => some "BAD params"
    | _, _, _, _, _ => some "BAD params"
  | "overlapchunk" =>
    -- func = identity: the slice of the combined frame that is kept
    match getNat kv "before", getNat kv "after", getNats kv "prev", getNats kv "cur", getNats kv "next" with
    | some b, some a, some pr, some cur, some nx =>
        some (rPays (Overlap.overlapChunk id b a (mkRows pr) (mkRows (cur.map (· + 1000))) (mkRows nx)))
    | _, _, _, _, _ => some "BAD params"
  | _ => none

def handleProp (kind : String) (kv : List (String × String)) : Option String :=
  match kind with
  | "split_every" => match (get kv "v").bind parseSE with
      | some se => match Tree.splitEveryProp se with
          | none => some "ERR ValueError"
          | some none => some "False"
          | some (some k) => some (toString k)
      | none => some "BAD params"
  | _ => none

/-- `eval cum op=sum parts=1,2;-;3`: run the CumulativeFinalize layer on the partitions -/
def handleEval (kind : String) (kv : List (String × String)) : Option String :=
  match kind with
  | "cum" => match (get kv "op").bind opOf, (get kv "parts").bind parseParts with
      | some op, some parts =>
        let n := parts.length
        let rows (i : Nat) : List Row := (parts.getD i []).map (fun v => { idx := 0, tgt := 0, pay := v })
        some (joinWith ";" ((List.range n).map (fun i =>
          rV (run (Cum.interp op) (Cum.layer n) (Cum.inputs op rows) (n + 1) (.out i)))))
      | _, _ => some "BAD params"
  | "tree" => match getNat kv "n", (get kv "se").bind parseSE, getNats kv "vals" with
      | some n, some se, some vals =>
        match Tree.splitEveryProp se with
        | none => some "ERR ValueError"
        | some k =>
          -- free instance: partial results are lists, combine = aggregate = concatenation
          some (rNats (Tree.treeEval List.flatten List.flatten k ((vals.take n).map (fun v => [v]))))
      | _, _, _ => some "BAD params"
  | _ => none

def handle : List String → Option String
  | "layer" :: kind :: rest =>
      if kind = "treereduce" ∨ kind = "cumfinalize" ∨ kind = "overlap" ∨ kind = "blockwise"
      then some (handleLayer kind (kvs rest)) else none
  | "spec" :: kind :: rest => handleSpec kind (kvs rest)
  | "prop" :: kind :: rest => handleProp kind (kvs rest)
  | "eval" :: kind :: rest => handleEval kind (kvs rest)
  | _ => none

end Dx.Drv.Layers
