/-
  Driver/Knobs.lean — protocol verbs of C10 (all start with `knob`):

    knob layer how=left side=right parts=0,1,2 bsize=2          BroadcastJoin._layer as canonical text
    knob mergelower how=… nl=… nr=… bcast=none|yes|no|bias method=tasks|p2p|disk hint=-|n thr=0|1
                                                                the plan `Merge._lower` picks + its legality
    knob setpartitionspre d=5,10,15 asc=1 keys=1,7,12           set_partitions_pre per key
    knob sortdivs d=… keys=…                                    hypothesis checker `divsOK`
    knob sortplan d=… asc=1 keys=…                              keys per output partition after the sort
    knob bucketfn m=2 keys=… buckets=…                          is the bucket number a function of the key, < m
    knob shufflenparts nin=… se=… so=…                          ShuffleReduce's shuffle_npartitions
    knob presorted asc=0 mins=… maxes=…                         the `presorted` flag of `_calculate_divisions`
-/
import DxModel.Graph
import DxModel.Layers.KnobJoin
import DxModel.Layers.KnobSort
import DxModel.Layers.KnobReduce
import Driver.Proto
import Driver.Render
open Dx Dx.Proto
namespace Dx.Drv.Knobs

/-! ### BroadcastJoin._layer -/

def parseHow : String → Option KJ.How
  | "inner" => some .inner
  | "left" => some .left
  | "right" => some .right
  | "outer" => some .outer
  | "leftsemi" => some .leftsemi
  | _ => none

def rHow : KJ.How → String
  | .inner => "inner"
  | .left => "left"
  | .right => "right"
  | .outer => "outer"
  | .leftsemi => "leftsemi"

def parseSide : String → Option KJ.Side
  | "left" => some .left
  | "right" => some .right
  | _ => none

def rSide : KJ.Side → String
  | .left => "left"
  | .right => "right"

/-- dependency 0 is the left frame, dependency 1 the right frame -/
def rKey (side : KJ.Side) : KJ.Key → String
  | .other i => (match side with | .right => s!"@d0:{i}" | .left => s!"@d1:{i}")
  | .bc j => (match side with | .right => s!"@d1:{j}" | .left => s!"@d0:{j}")
  | .split i => s!"split-@self:{i}"
  | .inter i j => s!"inter-@self:{i}.{j}"
  | .out i => s!"@self:{i}"

def rTask (p : KJ.Params) : Tsk KJ.Key → String
  | .apply 0 [k] =>
      -- `other_on`: the key of the NON-broadcast side
      let on := match p.side with | .right => "left_on" | .left => "right_on"
      s!"split_like_shuffle({rKey p.side k},on={on},n={p.bsize})"
  | .apply 1 [a, b] => s!"merge_chunk({rKey p.side a},{rKey p.side b},how={rHow p.how})"
  | .apply (c + 2) [a, b] =>
      (match p.side with
       | .right => s!"merge_chunk(getitem({rKey p.side a},{c}),{rKey p.side b},how={rHow p.how})"
       | .left => s!"merge_chunk({rKey p.side a},getitem({rKey p.side b},{c}),how={rHow p.how})")
  | .concat ks _ => s!"concat([{joinWith "," (ks.map (rKey p.side))}])"
  | t => Render.tsk (rKey p.side) t

def handleLayer (kv : List (String × String)) : String :=
  match (get kv "how").bind parseHow, (get kv "side").bind parseSide, getNats kv "parts", getNat kv "bsize" with
  | some how, some side, some parts, some bsize =>
    let p : KJ.Params := { how := how, side := side, parts := parts, bsize := bsize }
    let lines := (KJ.keys p).map (fun k => match KJ.layer p k with
      | some t => rKey side k ++ "=" ++ rTask p t
      | none => rKey side k ++ "=!undefined")
    "G " ++ joinWith "|" (sortDedupS lines)
  | _, _, _, _ => "BAD params"

/-! ### Merge._lower -/

def parseBcast : String → Option KJ.Bcast
  | "none" => some .none
  | "yes" => some .yes
  | "no" => some .no
  | "bias" => some .bias
  | _ => none

def parseMethod : String → Option KJ.Method
  | "tasks" => some .tasks
  | "p2p" => some .p2p
  | "disk" => some .disk
  | _ => none

def parseHint (s : String) : Option (Option Nat) :=
  if s = "-" then some none else s.toNat?.map some

def rPlan : KJ.Plan → String
  | .single => "single"
  | .broadcast side nother bsize sh => s!"broadcast side={rSide side} nother={nother} bsize={bsize} shuffled={bool01 sh}"
  | .hash n p2p => s!"hash n={n} p2p={bool01 p2p}"

def handleLower (kv : List (String × String)) : String :=
  match (get kv "how").bind parseHow, getNat kv "nl", getNat kv "nr", (get kv "bcast").bind parseBcast,
        (get kv "method").bind parseMethod, (get kv "hint").bind parseHint, getBool kv "thr" with
  | some how, some nl, some nr, some bc, some m, some hint, some thr =>
    let x : KJ.LowerIn := { how := how, nl := nl, nr := nr, bcast := bc, method := m, hint := hint, thr := thr }
    let plan := KJ.lowerPlan x
    rPlan plan ++ " legal=" ++ bool01 (KJ.planLegal how nl nr plan)
  | _, _, _, _, _, _, _ => "BAD params"

/-! ### sort pipeline -/

def rNats (l : List Nat) : String := if l.isEmpty then "-" else joinWith "," (l.map toString)
def rInts (l : List Int) : String := if l.isEmpty then "-" else joinWith "," (l.map toString)

def mkRows (keys : List Int) : List Row :=
  (List.range keys.length).zip keys |>.map (fun (i, k) => { idx := k, tgt := 0, pay := i })

def handleSort (verb : String) (kv : List (String × String)) : String :=
  match verb, getInts kv "d", getInts kv "keys" with
  | "setpartitionspre", some d, some keys =>
    (match getBool kv "asc" with
     | some asc => rNats (keys.map (KS.setPartitionsPre d asc))
     | none => "BAD params")
  | "sortdivs", some d, some keys => if KS.divsOK d keys then "OK" else "FAIL"
  | "sortplan", some d, some keys =>
    (match getBool kv "asc" with
     | some asc =>
       joinWith "|" ((List.range (d.length - 1)).map (fun o =>
         rInts ((KS.stableSort asc (KS.assigned d asc o (mkRows keys))).map (·.idx))))
     | none => "BAD params")
  | _, _, _ => "BAD params"

/-! ### hash buckets are a function of the key -/

def bucketFnOK (m : Nat) (pairs : List (Int × Nat)) : Bool :=
  pairs.all (fun p => decide (p.2 < m) && pairs.all (fun q => !(p.1 == q.1) || p.2 == q.2))

def handleBucket (kv : List (String × String)) : String :=
  match getNat kv "m", getInts kv "keys", getNats kv "buckets" with
  | some m, some keys, some bs =>
    if keys.length = bs.length then (if bucketFnOK m (keys.zip bs) then "OK" else "FAIL") else "BAD params"
  | _, _, _ => "BAD params"

def handle : List String → Option String
  | "knob" :: "layer" :: rest => some (handleLayer (kvs rest))
  | "knob" :: "mergelower" :: rest => some (handleLower (kvs rest))
  | "knob" :: "bucketfn" :: rest => some (handleBucket (kvs rest))
  | "knob" :: "presorted" :: rest =>
      let kv := kvs rest
      (match getBool kv "asc", getInts kv "mins", getInts kv "maxes" with
       | some asc, some mins, some maxes =>
           if mins.length = maxes.length then some (bool01 (KS.presorted asc (mins.zip maxes))) else some "BAD params"
       | _, _, _ => some "BAD params")
  | "knob" :: "shufflenparts" :: rest =>
      let kv := kvs rest
      (match getNat kv "nin", getNat kv "se", getNat kv "so" with
       | some nin, some se, some so => some (toString (KR.shuffleNpartitions nin se so))
       | _, _, _ => some "BAD params")
  | "knob" :: verb :: rest => some (handleSort verb (kvs rest))
  | _ => none

end Dx.Drv.Knobs
