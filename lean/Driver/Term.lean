/-
  Driver/Term.lean — protocol verbs for the optimizer loops (C19).

    c19 simplify table=<t0,t1,…> start=<i> fuel=<n>      -> "OK <r>" | "NOCONV <e> <new>" | "FUEL"
        (`step i = table[i]`, identity outside the table)
    c19 lower rules=<c>:<pat>;… tree=<tree> fuel=<n>       -> "L passes=<k> <tree>" | "FUEL"
        tree = preorder, comma separated `<class>/<arity>`;  pat = preorder of `N<class>/<arity>`, `K<i>`, `S<i>.<j>`
    c19 once  rules=… tree=…  fuel=<n>                     -> "T <tree>" | "FUEL"
    c19 msr tree=<tr>                                       -> "M <potF> <flow> <potP> <potB> w=<w> fs=<fs>"
        tr = preorder, comma separated `O<w>/<arity>` (operator), `P<w>` (Projection/Index), `F<w>` (Filter),
        `B<w>` (Head/Tail/Partitions/Len/Lengths); w = number of columns   (DxModel/SimplifyMeasure.lean)
    c19 step before=<tr> after=<tr>                         -> "STEP <rule>@<depth>|none DEC <0|1> NOOP <0|1>"
        is the pair an instance of a rule shape (`stepB`), is `msr after < msr before` (`ltQ`), is it a redundant
        insertion of non-narrowing Projections (`noopInsertB`)
-/
import DxModel.Termination
import DxModel.SimplifyMeasure
import Driver.Proto
open Dx Dx.Proto
namespace Dx.Drv.Term
open Dx.Term

/-- parse one tree from a preorder token list -/
def parseT : Nat → List String → Option (T × List String)
  | 0, _ => none
  | _, [] => none
  | fuel+1, tok :: rest =>
    match tok.splitOn "/" with
    | [c, n] =>
      match c.toNat?, n.toNat? with
      | some c, some n =>
        let rec kids (fuel' : Nat) (k : Nat) (rest : List String) (acc : List T) : Option (List T × List String) :=
          match k with
          | 0 => some (acc.reverse, rest)
          | k'+1 =>
            match parseT fuel rest with
            | some (t, rest') => kids fuel' k' rest' (t :: acc)
            | none => none
        match kids fuel n rest [] with
        | some (ks, rest') => some (.node c ks, rest')
        | none => none
      | _, _ => none
    | _ => none

def parsePat : Nat → List String → Option (Pat × List String)
  | 0, _ => none
  | _, [] => none
  | fuel+1, tok :: rest =>
    if tok.startsWith "K" then
      match (tok.drop 1).toString.toNat? with
      | some i => some (.kid i, rest)
      | none => none
    else if tok.startsWith "S" then
      match (tok.drop 1).toString.splitOn "." with
      | [i, j] => match i.toNat?, j.toNat? with
        | some i, some j => some (.sub i j, rest)
        | _, _ => none
      | _ => none
    else if tok.startsWith "N" then
      match (tok.drop 1).toString.splitOn "/" with
      | [c, n] =>
        match c.toNat?, n.toNat? with
        | some c, some n =>
          let rec args (fuel' : Nat) (k : Nat) (rest : List String) (acc : List Pat) : Option (List Pat × List String) :=
            match k with
            | 0 => some (acc.reverse, rest)
            | k'+1 =>
              match parsePat fuel rest with
              | some (p, rest') => args fuel' k' rest' (p :: acc)
              | none => none
          match args fuel n rest [] with
          | some (ps, rest') => some (.new c ps, rest')
          | none => none
        | _, _ => none
      | _ => none
    else none

def renderT : Nat → T → List String
  | 0, _ => ["?"]
  | fuel+1, .node c ks => s!"{c}/{ks.length}" :: ks.flatMap (renderT fuel)

def rTree (t : T) : String := joinWith "," (renderT 10000 t)

def parseRules (s : String) : Option (List (Nat × Pat)) :=
  if s = "-" then some [] else
  (s.splitOn ";").mapM (fun ent => match ent.splitOn ":" with
    | [c, p] => match c.toNat?, parsePat 1000 (p.splitOn ",") with
      | some c, some (p, []) => some (c, p)
      | _, _ => none
    | _ => none)

def stepOf (table : List Nat) (i : Nat) : Nat := table.getD i i

/-- parse one measure tree from a preorder token list -/
def parseTr : Nat → List String → Option (SM.Tr × List String)
  | 0, _ => none
  | _, [] => none
  | fuel+1, tok :: rest =>
    let body := (tok.drop 1).toString
    if tok.startsWith "O" then
      match body.splitOn "/" with
      | [w, n] =>
        match w.toNat?, n.toNat? with
        | some w, some n =>
          let rec kids (k : Nat) (rest : List String) (acc : List SM.Tr) : Option (List SM.Tr × List String) :=
            match k with
            | 0 => some (acc.reverse, rest)
            | k'+1 =>
              match parseTr fuel rest with
              | some (t, rest') => kids k' rest' (t :: acc)
              | none => none
          match kids n rest [] with
          | some (ks, rest') => some (.op w ks, rest')
          | none => none
        | _, _ => none
      | _ => none
    else
      match body.toNat? with
      | none => none
      | some w =>
        if tok.startsWith "P" then
          match parseTr fuel rest with
          | some (x, rest') => some (.proj w x, rest')
          | none => none
        else if tok.startsWith "B" then
          match parseTr fuel rest with
          | some (x, rest') => some (.blind w x, rest')
          | none => none
        else if tok.startsWith "F" then
          match parseTr fuel rest with
          | some (x, rest') =>
            match parseTr fuel rest' with
            | some (p, rest'') => some (.filt w x p, rest'')
            | none => none
          | none => none
        else none

def getTr (kv : List (String × String)) (k : String) : Option SM.Tr :=
  match (get kv k).bind (fun s => parseTr 100000 (s.splitOn ",")) with
  | some (t, []) => some t
  | _ => none

def ruleName : SM.Rule → String
  | .narrow => "narrow" | .projThrough => "projThrough" | .projSink => "projSink" | .leafNarrow => "leafNarrow"
  | .projFilterKeep => "projFilterKeep" | .projFilter => "projFilter" | .projSquash => "projSquash"
  | .projId => "projId" | .opSquash => "opSquash" | .unwrap => "unwrap" | .filtPush => "filtPush"
  | .filtSquash => "filtSquash" | .filtAbsorb => "filtAbsorb" | .blindPush => "blindPush"
  | .blindProj => "blindProj" | .blindFilt => "blindFilt" | .blindSquash => "blindSquash" | .lenPass => "lenPass"

def handle : List String → Option String
  | "c19" :: verb :: rest =>
    let kv := kvs rest
    match verb with
    | "simplify" =>
      match getNats kv "table", getNat kv "start", getNat kv "fuel" with
      | some table, some start, some fuel =>
        match simplify (stepOf table) fuel start with
        | some (.ok r) => some s!"OK {r}"
        | some (.noconv e n) => some s!"NOCONV {e} {n}"
        | none => some "FUEL"
      | _, _, _ => some "BAD params"
    | "lower" =>
      match (get kv "rules").bind parseRules, (get kv "tree").bind (fun s => parseT 1000 (s.splitOn ",")), getNat kv "fuel" with
      | some rules, some (t, []), some fuel =>
        match lowerCompletely (lowOfRules rules) fuel fuel t 0 with
        | some (r, n) => some s!"L passes={n} {rTree r}"
        | none => some "FUEL"
      | _, _, _ => some "BAD params"
    | "once" =>
      match (get kv "rules").bind parseRules, (get kv "tree").bind (fun s => parseT 1000 (s.splitOn ",")), getNat kv "fuel" with
      | some rules, some (t, []), some fuel =>
        match lowerOnce (lowOfRules rules) fuel t with
        | some r => some s!"T {rTree r}"
        | none => some "FUEL"
      | _, _, _ => some "BAD params"
    | "msr" =>
      match getTr kv "tree" with
      | some t =>
        let m := SM.msr t
        some s!"M {m.1} {m.2.1} {m.2.2.1} {m.2.2.2} w={t.w} fs={SM.fs t}"
      | none => some "BAD tree"
    | "step" =>
      match getTr kv "before", getTr kv "after" with
      | some a, some b =>
        let why := if SM.stepB a b then
            (match SM.stepWhy a b with
              | some (r, d) => s!"{ruleName r}@{d}"
              | none => "step")
          else "none"
        some s!"STEP {why} DEC {bool01 (SM.ltQ (SM.msr b) (SM.msr a))} NOOP {bool01 (SM.noopInsertB a b)}"
      | _, _ => some "BAD tree"
    | _ => none
  | _ => none

end Dx.Drv.Term
