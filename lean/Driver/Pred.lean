/-
  Driver/Pred.lean — protocol verbs for predicate rewriting, reader filters and the Merge decision tables (C03)

    pred rewrite <sexpr>                       -> sexpr            (rewrite_filters)
    pred components or|and <sexpr>             -> sexpr ; sexpr …  (_get_predicate_components)
    pred mapping <sexpr>                       -> sexpr ; sexpr …  (keys of _convert_mapping(and-components))
    pred dnf <sexpr>                           -> DNF | None       (_DNF.extract_pq_filters(...)._filters)
    pred accepts <sexpr>                       -> 1|0              (ReadParquet's class tuple + extractability)
    pred normalize <filt>                      -> DNF | None       (_DNF.normalize)
    pred combine a=<DNF|None> b=<DNF|None>     -> DNF | None       (_DNF.combine)
    pred evalrow mode=2|3|dnf3 row=1,N,3 <sexpr|DNF>  -> 1|0       (pandas / Kleene-kept reading of one row)
    pred mergeside how=… side=… lcoll=… rcoll=… avail=… and=… dep=…   -> 1|0       (Merge._filter_passthrough_available)
    pred mergepush side=… lcoll=… rcoll=…      -> LR bits          (Merge._simplify_up side selection)
    pred pushavail nfilters=… nparents=… inpred=…     -> 1|0       (is_filter_pushdown_available)
    pred castguard from=int64 to=float32        -> guard=0 safe=0   (AsType._is_value_preserving per column; np.can_cast safe)
    pred rebuild ops=o0,self,o2                -> o0,new,o2        (Filter._simplify_up: parent.substitute(self, new))

  sexpr: (and x y) (or x y) (not x) or an atom token.  Atom tokens: a<i> (abstract);
  c<col>:<op>:<const>, i<col>:<c,c,…> (isin; I = not in), n<col> (isna; N = notna), k<col>:<op>:<col2>.
  filt:  (and f …) (or f …) n-ary = _And/_Or frozensets, atom token = tuple, L:<DNF> = raw list form.
  DNF:   conjunctions joined by `|`, tuples by `&`, both sorted and de-duplicated.
-/
import DxModel.Pred
import Driver.Proto
open Dx Dx.Proto Dx.Pred
namespace Dx.Drv.Pred

def tokenize (ws : List String) : List String :=
  splitWords (((joinWith " " ws).replace "(" " ( ").replace ")" " ) ")

/-- recursive-descent parser with fuel (total) -/
def parseT {α} (pa : String → Option α) : Nat → List String → Option (T α × List String)
  | 0, _ => none
  | _, [] => none
  | n+1, "(" :: "not" :: rest =>
      match parseT pa n rest with
      | some (x, ")" :: rest') => some (.not x, rest')
      | _ => none
  | n+1, "(" :: op :: rest =>
      match parseT pa n rest with
      | some (x, rest1) =>
        match parseT pa n rest1 with
        | some (y, ")" :: rest2) =>
            if op = "and" then some (.and x y, rest2)
            else if op = "or" then some (.or x y, rest2)
            else none
        | _ => none
      | none => none
  | _, ")" :: _ => none
  | _, tok :: rest => (pa tok).map (fun a => (.atom a, rest))

def parseWhole {α} (pa : String → Option α) (ws : List String) : Option (T α) :=
  let toks := tokenize ws
  match parseT pa (toks.length + 1) toks with
  | some (t, []) => some t
  | _ => none

def renderT {α} (ra : α → String) : T α → String
  | .atom a => ra a
  | .and x y => s!"(and {renderT ra x} {renderT ra y})"
  | .or x y => s!"(or {renderT ra x} {renderT ra y})"
  | .not x => s!"(not {renderT ra x})"

/-! abstract atoms -/
def parseAbs (tok : String) : Option Nat :=
  if tok.startsWith "a" then (tok.drop 1).toString.toNat? else none
def renderAbs (i : Nat) : String := s!"a{i}"

/-! concrete atoms -/
def parseOp : String → Option Op
  | "lt" => some .lt | "le" => some .le | "eq" => some .eq
  | "ne" => some .ne | "gt" => some .gt | "ge" => some .ge
  | _ => none
def renderOp : Op → String
  | .lt => "lt" | .le => "le" | .eq => "eq" | .ne => "ne" | .gt => "gt" | .ge => "ge"

def parseAtom (tok : String) : Option Atom :=
  let head := (tok.take 1).toString
  let body := (tok.drop 1).toString.splitOn ":"
  match head, body with
  | "c", [col, op, c] => match col.toNat?, parseOp op, c.toInt? with
      | some col, some op, some c => some (.cmp col op c)
      | _, _, _ => none
  | "k", [col, op, c2] => match col.toNat?, parseOp op, c2.toNat? with
      | some col, some op, some c2 => some (.colcmp col op c2)
      | _, _, _ => none
  | "i", [col, cs] => match col.toNat?, parseInts cs with
      | some col, some cs => some (.isin col false cs)
      | _, _ => none
  | "I", [col, cs] => match col.toNat?, parseInts cs with
      | some col, some cs => some (.isin col true cs)
      | _, _ => none
  | "n", [col] => col.toNat?.map (fun c => .isna c false)
  | "N", [col] => col.toNat?.map (fun c => .isna c true)
  | _, _ => none

def renderAtom : Atom → String
  | .cmp col op c => s!"c{col}:{renderOp op}:{c}"
  | .colcmp col op c2 => s!"k{col}:{renderOp op}:{c2}"
  | .isin col neg cs => (if neg then "I" else "i") ++ s!"{col}:" ++ joinWith "," (cs.map toString)
  | .isna col neg => (if neg then "N" else "n") ++ s!"{col}"

def renderDNF (d : DNF Atom) : String :=
  joinWith "|" (sortDedupS (d.map (fun c => joinWith "&" (sortDedupS (c.map renderAtom)))))

def renderODNF : Option (DNF Atom) → String
  | none => "None"
  | some d => renderDNF d

def parseDNF (s : String) : Option (DNF Atom) :=
  (s.splitOn "|").mapM (fun c => (c.splitOn "&").mapM parseAtom)

def parseODNF (s : String) : Option (Option (DNF Atom)) :=
  if s = "None" then some none else (parseDNF s).map some

/-- n-ary filter values -/
def parseFilt : Nat → List String → Option (Filt Atom × List String)
  | 0, _ => none
  | _, [] => none
  | n+1, "(" :: op :: rest =>
      let rec items : Nat → List String → Option (List (Filt Atom) × List String)
        | 0, _ => none
        | _, [] => none
        | _, ")" :: rest' => some ([], rest')
        | k+1, toks => match parseFilt n toks with
            | some (f, rest') => match items k rest' with
                | some (fs, rest'') => some (f :: fs, rest'')
                | none => none
            | none => none
      match items (rest.length + 1) rest with
      | some (fs, rest') =>
          if op = "and" then some (.andS fs, rest')
          else if op = "or" then some (.orS fs, rest')
          else none
      | none => none
  | _, ")" :: _ => none
  | _, tok :: rest =>
      if tok.startsWith "L:" then (parseDNF (tok.drop 2).toString).map (fun d => (.lst d, rest))
      else (parseAtom tok).map (fun a => (.tup a, rest))

def parseCells (s : String) : Option Cells :=
  let cells := (s.splitOn ",").mapM (fun w => if w = "N" then some none else w.toInt?.map some)
  cells.map (fun l => fun i => (l[i]?).join)

def parseHow : String → Option How
  | "inner" => some .inner | "left" => some .left | "right" => some .right
  | "outer" => some .outer | "leftsemi" => some .leftsemi
  | _ => none

def parseSide : String → Option PredCols
  | "unknown" => some .unknown | "empty" => some .empty | "left" => some .left
  | "right" => some .right | "both" => some .both | "neither" => some .neither
  | _ => none

def parseND : String → Option NDType
  | "bool" => some .bool | "int8" => some .i8 | "int16" => some .i16 | "int32" => some .i32 | "int64" => some .i64
  | "uint8" => some .u8 | "uint16" => some .u16 | "uint32" => some .u32 | "uint64" => some .u64
  | "float16" => some .f16 | "float32" => some .f32 | "float64" => some .f64
  | _ => none

def isKV (w : String) : Bool := (w.splitOn "=").length == 2 && !w.startsWith "("

def handle : List String → Option String
  | "pred" :: "rewrite" :: rest => some (match parseWhole parseAbs rest with
      | some p => renderT renderAbs (rewriteFilters p)
      | none => "BAD sexpr")
  | "pred" :: "components" :: kind :: rest => some (match parseWhole parseAbs rest with
      | some p =>
          let k := if kind = "and" then Kind.and else Kind.or
          joinWith " ; " ((getComponents k p).map (renderT renderAbs))
      | none => "BAD sexpr")
  | "pred" :: "mapping" :: rest => some (match parseWhole parseAbs rest with
      | some p => joinWith " ; " ((convertMapping (getComponents .and p)).map (renderT renderAbs))
      | none => "BAD sexpr")
  | "pred" :: "dnf" :: rest => some (match parseWhole parseAtom rest with
      | some p => renderODNF (extractPq p)
      | none => "BAD sexpr")
  | "pred" :: "accepts" :: rest => some (match parseWhole parseAtom rest with
      | some p => bool01 (readerAccepts p)
      | none => "BAD sexpr")
  | "pred" :: "normalize" :: rest =>
      let toks := tokenize rest
      some (match parseFilt (toks.length + 1) toks with
      | some (f, []) => renderODNF (dnfNormalizeTop (some f))
      | _ => "BAD filt")
  | "pred" :: "combine" :: rest =>
      let kv := kvs rest
      some (match (get kv "a").bind parseODNF, (get kv "b").bind parseODNF with
      | some a, some b => renderODNF (dnfCombine a b)
      | _, _ => "BAD params")
  | "pred" :: "evalrow" :: rest =>
      let kv := kvs (rest.filter isKV)
      let body := rest.filter (fun w => !isKV w)
      some (match get kv "mode", (get kv "row").bind parseCells with
      | some "2", some v => (match parseWhole parseAtom body with
          | some p => bool01 (eval2c v p)
          | none => "BAD sexpr")
      | some "3", some v => (match parseWhole parseAtom body with
          | some p => bool01 (keep3 v p)
          | none => "BAD sexpr")
      | some "dnf3", some v => (match body with
          | [d] => (match parseDNF d with
              | some d => bool01 (keepDNF3 v d)
              | none => "BAD dnf")
          | _ => "BAD dnf")
      | _, _ => "BAD params")
  | "pred" :: "mergeside" :: rest =>
      let kv := kvs rest
      some (match (get kv "how").bind parseHow, (get kv "side").bind parseSide, getBool kv "avail",
                  getBool kv "and", getBool kv "dep", getBool kv "lcoll", getBool kv "rcoll" with
      | some how, some pc, some avail, some isAnd, some dep, some l, some r =>
          bool01 (mergeFilterAvail avail how pc l r isAnd dep)
      | _, _, _, _, _, _, _ => "BAD params")
  | "pred" :: "mergepush" :: rest =>
      let kv := kvs rest
      some (match (get kv "side").bind parseSide, getBool kv "lcoll", getBool kv "rcoll" with
      | some pc, some l, some r =>
          let s := mergePushSides pc l r
          bool01 s.1 ++ bool01 s.2
      | _, _, _ => "BAD params")
  | "pred" :: "rebuild" :: rest =>
      some (match get (kvs rest) "ops" with
      | some ops => joinWith "," (substituteOperand (parseStrs ops) "self" "new")
      | none => "BAD params")
  | "pred" :: "castguard" :: rest =>
      let kv := kvs rest
      some (match (get kv "from").bind parseND, (get kv "to").bind parseND with
      | some o, some n => s!"guard={bool01 (castGuard o n)} safe={bool01 (numpySafe o n)}"
      | _, _ => "guard=0 safe=?")     -- not a numpy numeric dtype: never value preserving unless equal (harness sends only unequal)
  | "pred" :: "pushavail" :: rest =>
      let kv := kvs rest
      some (match getNat kv "nfilters", getNat kv "nparents", getBool kv "inpred" with
      | some nf, some np, some ip => bool01 (filterPushdownAvail nf np ip)
      | _, _, _ => "BAD params")
  | "pred" :: _ => some "BAD pred verb"
  | _ => none

end Dx.Drv.Pred
