/-
  Driver/Main.lean — line protocol between the Python harness and the executable model.
  One request per line, one canonical answer per line.
-/
import DxModel.Graph
import DxModel.GraphCheck
import DxModel.Layers.Shuffle
import Driver.Proto
import Driver.Render
open Dx Dx.Proto

namespace Dx.Drv

/-! #### shuffle layers -/
def rSName : Shuffle.SName → String
  | .self => ""
  | .stage s => s!"stage-{s}-"

def rTuple (l : List Nat) : String := "(" ++ natList l ++ ")"

def rShuffleKey : Shuffle.Key → String
  | .dep i => s!"@d0:{i}"
  | .out n j => s!"{rSName n}@self:{j}"
  | .ssplit o i => s!"split-@self:{o}.{i}"
  | .sgroup i => s!"group-@self:{i}"
  | .split n idx inp => s!"split-{rSName n}@self:{idx}.{rTuple inp}"
  | .group n inp => s!"group-{rSName n}@self:{rTuple inp}"
  | .empty n inp => s!"group-{rSName n}@self:{rTuple inp}.'empty'"
  | .rgroup n i => s!"repartition-group-{rSName n}@self:{i}"
  | .partd => "zpartd-U@-:"
  | .dwrite i => s!"shuffle-partition-U@-:{i}"
  | .barrier => "barrier-U@-:"

def shuffleParams (kv : List (String × String)) : Option Shuffle.Params :=
  match getNat kv "nin", getNat kv "nout", getNats kv "parts", getBool kv "filtered",
        getBool kv "ii", getNat kv "maxbranch", getNat kv "stages", getNat kv "nsplits" with
  | some nin, some nout, some parts, some filtered, some ii, some mb, some st, some ns =>
      some { nin := nin, nout := nout, parts := parts, filtered := filtered, ignoreIndex := ii,
             maxBranch := mb, stages := st, nsplits := ns }
  | _, _, _, _, _, _, _, _ => none

def handleLayer (kind : String) (kv : List (String × String)) : String :=
  match kind with
  | "simpleshuffle" => match shuffleParams kv with
      | some p => "G " ++ Render.graph rShuffleKey (Shuffle.simpleKeys p) (Shuffle.simpleTask p)
      | none => "BAD params"
  | "taskshuffle" => match shuffleParams kv with
      | some p => "G " ++ Render.graph rShuffleKey (Shuffle.taskKeys p) (Shuffle.taskTask p)
      | none => "BAD params"
  | "diskshuffle" => match shuffleParams kv with
      | some p => "G " ++ Render.graph rShuffleKey (Shuffle.diskKeys p) (Shuffle.diskTask p)
      | none => "BAD params"
  | _ => "BAD layer"

/-! #### proven graph checker on real graphs: `check order g=0:;1:0;2:0,1` -/
def parseListing (s : String) : Option (List (Nat × List Nat)) :=
  (s.splitOn ";").mapM (fun ent => match ent.splitOn ":" with
    | [k, rs] => match k.toNat?, parseNats rs with
        | some k, some rs => some (k, rs)
        | _, _ => none
    | _ => none)

def mkRows (tgts : List Nat) : List Row :=
  (List.range tgts.length).zip tgts |>.map (fun (i, t) => { idx := i, tgt := t, pay := i })

def rPays (rows : List Row) : String := "[" ++ joinWith "," (rows.map (fun r => toString r.pay)) ++ "]"

def handleSpec (kind : String) (kv : List (String × String)) : String :=
  match kind with
  | "shufflegroup" =>
    match getNats kv "tgts", getNat kv "stage", getNat kv "k", getNat kv "nin" with
    | some tg, some stage, some k, some nin =>
        joinWith ";" ((shuffleGroupSpec (mkRows tg) none stage k nin).map (fun (c, rows) => s!"{c}:{rPays rows}"))
    | _, _, _, _ => "BAD params"
  | "group2get" =>
    match getNats kv "tgts", getNat kv "i" with
    | some tg, some i => rPays (group2Get (mkRows tg) i)
    | _, _ => "BAD params"
  | _ => "BAD spec"

def handleCheck (kind : String) (kv : List (String × String)) : String :=
  match kind with
  | "stagearith" => match getNat kv "nin", getNat kv "stages", getNat kv "nsplits" with
      | some n, some st, some ns => if Shuffle.stageArithOK n st ns then "OK" else "FAIL"
      | _, _, _ => "BAD params"
  | "order" => match (get kv "g").bind parseListing with
      | some l => if checkOrder l [] then "OK" else "FAIL"
      | none => "BAD listing"
  | _ => "BAD check"

def handle (line : String) : String :=
  match splitWords line with
  | "layer" :: kind :: rest => handleLayer kind (kvs rest)
  | "check" :: kind :: rest => handleCheck kind (kvs rest)
  | "spec" :: kind :: rest => handleSpec kind (kvs rest)
  | ["ping"] => "pong"
  | _ => "BAD request"

end Dx.Drv

partial def loop (h : IO.FS.Stream) (out : IO.FS.Stream) : IO Unit := do
  let line ← h.getLine
  if line.isEmpty then return ()
  out.putStrLn (Dx.Drv.handle line.trimAscii.toString)
  loop h out

def main : IO Unit := do
  let stdin ← IO.getStdin
  let stdout ← IO.getStdout
  loop stdin stdout
