/-
  Driver/Main.lean — line protocol between the Python harness and the executable model.
  One request per line, one canonical answer per line.  Each domain has its own file
  Driver/<Domain>.lean exporting `handle : List String → Option String` (none = not mine);
  register it in `handlers` below.
-/
import DxModel.GraphCheck
import Driver.Proto
import Driver.Shuffle
import Driver.Cut
import Driver.Parquet
import Driver.Schema
import Driver.Repartition
import Driver.Pred
import Driver.Cache
import Driver.Names
import Driver.Fusion
import Driver.Term
import Driver.Cols
import Driver.Partitions
import Driver.Layers
import Driver.Drivers
import Driver.Boundary
import Driver.Knobs
import Driver.LayerOK
open Dx Dx.Proto

namespace Dx.Drv

/-! #### proven graph checker on real graphs: `check order g=0:;1:0;2:0,1` -/
def parseListing (s : String) : Option (List (Nat × List Nat)) :=
  (s.splitOn ";").mapM (fun ent => match ent.splitOn ":" with
    | [k, rs] => match k.toNat?, parseNats rs with
        | some k, some rs => some (k, rs)
        | _, _ => none
    | _ => none)

def handleCore : List String → Option String
  | "check" :: "order" :: rest => match (get (kvs rest) "g").bind parseListing with
      | some l => some (if checkOrder l [] then "OK" else "FAIL")
      | none => some "BAD listing"
  | ["ping"] => some "pong"
  | _ => none

def handlers : List (List String → Option String) :=
  [ handleCore
  , Dx.Drv.Shuffle.handle
  , Dx.Drv.Cut.handle
  , Dx.Drv.Parquet.handle
  , Dx.Drv.Schema.handle
  , Dx.Drv.Repartition.handle
  , Dx.Drv.Pred.handle
  , Dx.Drv.Cache.handle
  , Dx.Drv.Names.handle
  , Dx.Drv.Fusion.handle
  , Dx.Drv.Term.handle
  , Dx.Drv.Cols.handle
  , Dx.Drv.Partitions.handle
  , Dx.Drv.Layers.handle
  , Dx.Drv.Drivers.handle
  , Dx.Drv.Boundary.handle
  , Dx.Drv.Knobs.handle
  , Dx.Drv.LayerOK.handle
  ]

def handle (line : String) : String :=
  let ws := splitWords line
  match handlers.findSome? (fun h => h ws) with
  | some r => r
  | none => "BAD request"

end Dx.Drv

partial def loop (h : IO.FS.Stream) (out : IO.FS.Stream) : IO Unit := do
  let line ← h.getLine
  if line.isEmpty then return ()
  out.putStrLn (Dx.Drv.handle line.trimAscii.toString)
  loop h out

def main : IO Unit := do
  let stdin ← IO.getStdin
  let stdout ← IO.getStdout
  loop stdin stdout
