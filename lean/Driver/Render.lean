/-
  Driver/Render.lean — canonical text for keys and tasks (mirrored by harness/render.py)
-/
import DxModel.Graph
import Driver.Proto
namespace Dx.Render
open Dx Dx.Proto

def optFilter : Option (List Nat) → String
  | none => "None"
  | some l => "{" ++ joinWith "," ((sortDedup l).map toString) ++ "}"

def tsk {κ} (rk : κ → String) : Tsk κ → String
  | .alias k => s!"alias({rk k})"
  | .const _ => "meta"
  | .concat ks ii => s!"concat([{joinWith "," (ks.map rk)}],ii={bool01 ii})"
  | .getitem k i => s!"getitem({rk k},{i})"
  | .shuffleGroup k f stage k' n nfinal =>
      s!"shuffle_group({rk k},f={optFilter f},stage={stage},k={k'},n={n},nfinal={nfinal})"
  | .shuffleGroup2 k nfinal => s!"shuffle_group_2({rk k},nfinal={nfinal})"
  | .shuffleGroupGet k i => s!"shuffle_group_get({rk k},{i})"
  | .boundarySlice k lo hi incl => s!"boundary_slice({rk k},{lo},{hi},{bool01 incl})"
  | .splitEvenly k n => s!"split_evenly({rk k},{n})"
  | .pieceOf k i => s!"getitem({rk k},{i})"
  | .diskWrite k f => s!"disk_write({rk k},f={optFilter (some f)})"
  | .barrier ks => s!"barrier([{joinWith "," (ks.map rk)}])"
  | .collect _ part b => s!"collect(part={part},{rk b})"
  | .apply f args => s!"apply{f}({joinWith "," (args.map rk)})"

/-- one line per key `key=task`, sorted, joined by `|`; a listed key without task renders `!undefined` -/
def graph {κ} (rk : κ → String) (keys : List κ) (g : Graph κ) : String :=
  let lines := keys.map (fun k => match g k with
    | some t => rk k ++ "=" ++ tsk rk t
    | none => rk k ++ "=!undefined")
  joinWith "|" (sortDedupS lines)

end Dx.Render
