/-
  Driver/Cut.lean — `layer fromgraph n=<#keys of the imported layer> keys=<indices>`:
  the imported layer has keys x:0..n-1 (opaque data), the new collection aliases keys[i].
-/
import DxModel.Cut
import Driver.Proto
import Driver.Render
open Dx Dx.Proto
namespace Dx.Drv.Cut

def rKey : Nat ⊕ Nat → String
  | .inl k => s!"x@-:{k}"
  | .inr i => s!"@self:{i}"

def handle : List String → Option String
  | "layer" :: "fromgraph" :: rest =>
    let kv := kvs rest
    match getNat kv "n", getNats kv "keys" with
    | some n, some keys =>
      let L : Graph Nat := fun k => if k < n then some (.const []) else none
      let g := fromGraphLayer L keys
      let ks : List (Nat ⊕ Nat) := (List.range n).map Sum.inl ++ (List.range keys.length).map Sum.inr
      some ("G " ++ Render.graph rKey ks g)
    | _, _ => some "BAD params"
  | _ => none

end Dx.Drv.Cut
