/-
  Driver/Drivers.lean — protocol verbs for the rewrite drivers (C01)

    driver rewrite|simplify_once|simplify|lower_once|lower_completely rules=<table> tree=<t> fuel=<n>
    driver optimize rules=<table> tree=<t> fuel=<n> stage=<0..5>
        → OK <t> [T=<trace>] | ERR nonconverge | ERR fuel
    driver collect_dependents tree=<t>            → child<parent;child<parent;… | -

  <t>      = c.l | c.l(<t>,…)                 class id, literal, expression operands
  pattern  = $i | c.l(<p>,…) | c.*(<p>,…)     variable / node / node with any literal
  <table>  = entry;entry;… | -
     d:<p>><tmpl>                              _simplify_down
     u:<child p>^<parent p>?<cond>><tmpl>      _simplify_up     cond = any | ndle<k> | nreq<k> | all<c>
     td:<p>><tmpl>                             _tune_down
     tu:<child p>^<parent p>><tmpl>            _tune_up
     l:<p>><tmpl>                              _lower
  <trace>  = child^parent#<entries of dependents[child]>><out>|…   (the `_simplify_up` firings, in order)
  The same table text drives real stub `Expr` subclasses in harness/props/c01.py.

  Fragment of real classes (DxModel/Fragment.lean; the literal of a node is the sentence code `encS`):
    driver frag_simplify tree=<t> fuel=<n>        → OK <t> | ERR nonconverge | ERR fuel      (`simplify` with `fragRules`)
    driver frag_once tree=<t> fuel=<n>            → OK <t> #<firings>                         (one `simplify_once`)
    driver frag_schema tree=<t>                   → cols=<a,b|-> ser=<0|1> | NONE             (`columns`, `ndim == 1`)
-/
import DxModel.Drivers
import DxModel.Fragment
import Driver.Proto
open Dx Dx.Proto
namespace Dx.Drv.Drivers

/-! parsing -/

def parseNatChars : List Char → Nat → Option (Nat × List Char)
  | c :: t, acc => if c.isDigit then
      match parseNatChars t (acc * 10 + (c.toNat - '0'.toNat)) with
      | some r => some r
      | none => some (acc * 10 + (c.toNat - '0'.toNat), t)
    else none
  | [], _ => none

def parseNatPrefix (cs : List Char) : Option (Nat × List Char) :=
  match cs with
  | c :: _ => if c.isDigit then parseNatChars cs 0 else none
  | [] => none

mutual
def parsePat : Nat → List Char → Option (Pat × List Char)
  | 0, _ => none
  | n + 1, cs =>
    match cs with
    | '$' :: r => match parseNatPrefix r with
      | some (i, r') => some (.var i, r')
      | none => none
    | _ => match parseNatPrefix cs with
      | some (c, '.' :: r) =>
        let litr : Option (Option Nat × List Char) := match r with
          | '*' :: r' => some (none, r')
          | _ => match parseNatPrefix r with
            | some (l, r') => some (some l, r')
            | none => none
        match litr with
        | some (l, '(' :: r') => match parsePats n r' with
          | some (ps, r'') => some (.node c l ps, r'')
          | none => none
        | some (l, r') => some (.node c l [], r')
        | none => none
      | _ => none
/-- after `(`: patterns separated by `,` up to `)` -/
def parsePats : Nat → List Char → Option (List Pat × List Char)
  | 0, _ => none
  | n + 1, cs => match parsePat n cs with
    | some (p, ',' :: r) => match parsePats n r with
      | some (ps, r') => some (p :: ps, r')
      | none => none
    | some (p, ')' :: r) => some ([p], r)
    | _ => none
end

def pPat (s : String) : Option Pat :=
  match parsePat (s.length + 1) s.toList with
  | some (p, []) => some p
  | _ => none

def pTree (s : String) : Option Expr := (pPat s).bind (fun p => p.inst [])

def pCond (s : String) : Option Cond :=
  if s = "any" then some .any
  else if s.startsWith "ndle" then ((s.drop 4).toString.toNat?).map .ndLe
  else if s.startsWith "nreq" then ((s.drop 4).toString.toNat?).map .nrEq
  else if s.startsWith "all" then ((s.drop 3).toString.toNat?).map .allCls
  else none

def pDown (body : String) : Option DownRule :=
  match body.splitOn ">" with
  | [p, t] => match pPat p, pPat t with
    | some p, some t => some ⟨p, t⟩
    | _, _ => none
  | _ => none

def pUp (body : String) : Option UpRule :=
  match body.splitOn ">" with
  | [lhs, t] =>
    let (pats, cond) := match lhs.splitOn "?" with
      | [a, c] => (a, pCond c)
      | _ => (lhs, some Cond.any)
    match pats.splitOn "^", cond, pPat t with
    | [c, p], some cd, some t => match pPat c, pPat p with
      | some c, some p => some ⟨c, p, cd, t⟩
      | _, _ => none
    | _, _, _ => none
  | _ => none

def addEntry (t : Table) (ent : String) : Option Table :=
  match ent.splitOn ":" with
  | ["d", b] => (pDown b).map (fun r => { t with down := t.down ++ [r] })
  | ["u", b] => (pUp b).map (fun r => { t with up := t.up ++ [r] })
  | ["td", b] => (pDown b).map (fun r => { t with tuneDown := t.tuneDown ++ [r] })
  | ["tu", b] => (pUp b).map (fun r => { t with tuneUp := t.tuneUp ++ [r] })
  | ["l", b] => (pDown b).map (fun r => { t with lower := t.lower ++ [r] })
  | _ => none

def pTable (s : String) : Option Table :=
  if s = "-" ∨ s = "" then some {} else
  (s.splitOn ";").foldl (fun acc ent => acc.bind (fun t => addEntry t ent)) (some {})

/-! rendering -/

mutual
def rExpr : Expr → String
  | .node c l [] => s!"{c}.{l}"
  | .node c l (a :: as) => s!"{c}.{l}(" ++ rExprs (a :: as) ++ ")"
def rExprs : List Expr → String
  | [] => ""
  | [a] => rExpr a
  | a :: b :: t => rExpr a ++ "," ++ rExprs (b :: t)
end

def rFiring (f : Firing) : String :=
  s!"{rExpr f.child}^{rExpr f.parent}#{(f.deps.of f.child).length}>{rExpr f.out}"

def rTrace (tr : List Firing) : String :=
  if tr.isEmpty then "-" else joinWith "|" (tr.map rFiring)

def rRes (r : Res) (tr : Option (List Firing)) : String :=
  match r.st with
  | .ok => "OK " ++ rExpr r.expr ++ (match tr with | some t => " T=" ++ rTrace t | none => "")
  | .fuel => "ERR fuel"
  | .nonconverge => "ERR nonconverge"

def pStage : Nat → Option Stage
  | 0 => some .logical
  | 1 => some .simplifiedLogical
  | 2 => some .tunedLogical
  | 3 => some .physical
  | 4 => some .simplifiedPhysical
  | 5 => some .fused
  | _ => none

/-! the fragment of real classes -/

def handleFrag (verb : String) (rest : List String) : Option String :=
  let kv := kvs rest
  match (get kv "tree").bind pTree with
  | none => some "BAD tree"
  | some e =>
    match verb with
    | "frag_schema" => match Dx.Frag.schemaOf e with
      | some s => some s!"cols={if s.cols.isEmpty then "-" else joinWith "," s.cols} ser={bool01 s.ser}"
      | none => some "NONE"
    | "frag_simplify" => match getNat kv "fuel" with
      | some fuel => some (rRes (simplify Dx.Frag.fragRules fuel e) none)
      | none => some "BAD fuel"
    | "frag_once" => match getNat kv "fuel" with
      | some fuel =>
        let r := simplifyOnce Dx.Frag.fragRules fuel e ⟨collectDependents e, [], [], false⟩
        some (if r.2.exhausted then "ERR fuel" else s!"OK {rExpr r.1} #{r.2.trace.length}")
      | none => some "BAD fuel"
    | _ => some "BAD verb"

def handle : List String → Option String
  | "driver" :: "frag_schema" :: rest => handleFrag "frag_schema" rest
  | "driver" :: "frag_simplify" :: rest => handleFrag "frag_simplify" rest
  | "driver" :: "frag_once" :: rest => handleFrag "frag_once" rest
  | "driver" :: "collect_dependents" :: rest =>
    match (get (kvs rest) "tree").bind pTree with
    | some e =>
      let d := collectDependents e
      some (if d.isEmpty then "-" else joinWith ";" (d.map (fun p => rExpr p.1 ++ "<" ++ rExpr p.2)))
    | none => some "BAD tree"
  | "driver" :: verb :: rest =>
    let kv := kvs rest
    match (get kv "rules").bind pTable, (get kv "tree").bind pTree, getNat kv "fuel" with
    | some t, some e, some fuel =>
      let R := t.toRules
      match verb with
      | "rewrite" => some (rRes (rewrite R fuel e) none)
      | "simplify_once" =>
        let r := simplifyOnce R fuel e ⟨collectDependents e, [], [], false⟩
        some (rRes ⟨r.1, if r.2.exhausted then .fuel else .ok⟩ (some r.2.trace))
      | "simplify" => let r := simplifyT R fuel e []; some (rRes r.1 (some r.2))
      | "lower_once" => some (rRes (lowerOnce R fuel e) none)
      | "lower_completely" => some (rRes (lowerCompletely R fuel e) none)
      | "optimize" => match (getNat kv "stage").bind pStage with
        | some st => let r := optimizeUntilT R fuel st e; some (rRes r.1 (some r.2))
        | none => some "BAD stage"
      | _ => some "BAD verb"
    | none, _, _ => some "BAD rules"
    | _, none, _ => some "BAD tree"
    | _, _, none => some "BAD fuel"
  | _ => none

end Dx.Drv.Drivers
