/-
  Driver/Proto.lean — helpers for the line protocol: `verb key=value key=value …`
-/
namespace Dx.Proto

def splitWords (s : String) : List String :=
  (s.splitOn " ").filter (fun w => w ≠ "")

/-- `k=v` pairs of a request line (after the verb words) -/
def kvs (ws : List String) : List (String × String) :=
  ws.filterMap (fun w => match w.splitOn "=" with
    | [k, v] => some (k, v)
    | _ => none)

def get (kv : List (String × String)) (k : String) : Option String := kv.lookup k

def getNat (kv : List (String × String)) (k : String) : Option Nat := (get kv k).bind String.toNat?

def getInt (kv : List (String × String)) (k : String) : Option Int := (get kv k).bind String.toInt?

def getBool (kv : List (String × String)) (k : String) : Option Bool :=
  match get kv k with
  | some "1" => some true
  | some "0" => some false
  | _ => none

/-- `1,2,3` → [1,2,3]; `-` → [] -/
def parseNats (s : String) : Option (List Nat) :=
  if s = "-" ∨ s = "" then some [] else (s.splitOn ",").mapM String.toNat?

def parseInts (s : String) : Option (List Int) :=
  if s = "-" ∨ s = "" then some [] else (s.splitOn ",").mapM String.toInt?

def parseStrs (s : String) : List String :=
  if s = "-" ∨ s = "" then [] else s.splitOn ","

def getNats (kv : List (String × String)) (k : String) : Option (List Nat) := (get kv k).bind parseNats
def getInts (kv : List (String × String)) (k : String) : Option (List Int) := (get kv k).bind parseInts

def joinWith (sep : String) (l : List String) : String := sep.intercalate l

def insertSorted (x : Nat) : List Nat → List Nat
  | [] => [x]
  | y :: ys => if x < y then x :: y :: ys else if x = y then y :: ys else y :: insertSorted x ys

/-- sort + dedup -/
def sortDedup (l : List Nat) : List Nat := l.foldr insertSorted []

def insertSortedS (x : String) : List String → List String
  | [] => [x]
  | y :: ys => if x < y then x :: y :: ys else if x = y then y :: ys else y :: insertSortedS x ys

def sortDedupS (l : List String) : List String := l.foldr insertSortedS []

def natList (l : List Nat) : String := joinWith "." (l.map toString)
def bool01 (b : Bool) : String := if b then "1" else "0"

end Dx.Proto
