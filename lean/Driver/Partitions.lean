/-
  Driver/Partitions.lean — protocol verbs for C11 / C06: partition selection, filtered sources,
  head / tail lowering and push-down rules, divisions of the modelled operators, length rules.
  Verbs start with `pt`, `hd`, `tl`, `dv`, `ln`.
-/
import DxModel.Graph
import DxModel.Layers.Partitions
import DxModel.Layers.Head
import DxModel.Layers.Divisions
import Driver.Proto
import Driver.Render
open Dx Dx.Proto
namespace Dx.Drv.Partitions
open Dx.Parts Dx.Head

def rNats (l : List Nat) : String := if l.isEmpty then "-" else joinWith "," (l.map toString)
def rInts (l : List Int) : String := if l.isEmpty then "-" else joinWith "," (l.map toString)

def rOptDivs : Option (List Int) → String
  | some d => "known:" ++ rInts d
  | none => "unknown"

def rSelErr : SelErr → String
  | .unbound => "ERR UnboundLocalError"
  | .index => "ERR IndexError"

/-- `e:4:2;e:1:0;l` → operands -/
def parseOps (s : String) : Option (List Operand) :=
  if s = "-" ∨ s = "" then some [] else
  (s.splitOn ";").mapM (fun o => match o.splitOn ":" with
    | ["l"] => some ⟨false, 0, 0⟩
    | ["e", np, nd] => match np.toNat?, nd.toNat? with
        | some np, some nd => some ⟨true, np, nd⟩
        | _, _ => none
    | _ => none)

def optNats (s : String) : Option (Option (List Nat)) :=
  if s = "None" then some none else (parseNats s).map some

def rKey : Parts.Key → String
  | .dep i => s!"@d0:{i}"
  | .src t i => s!"src{t}:{i}"
  | .out j => s!"@self:{j}"

def rHKey : Head.Key → String
  | .dep i => s!"F:{i}"
  | .sel j => s!"sel:{j}"
  | .bh j => s!"bh:{j}"
  | .rep => "rep:0"
  | .out => "out:0"

/-- decode `headFn` / `tailFn` codes -/
def rHTsk : Tsk Head.Key → String
  | .alias k => s!"alias({rHKey k})"
  | .concat ks _ => s!"concat([{joinWith "," (ks.map rHKey)}])"
  | .apply f args =>
      let a := joinWith "," (args.map rHKey)
      if f % 4 == 1 then s!"tail({a},{f / 4})"
      else if f % 4 == 2 then s!"safe_head({a},{f / 4})"
      else s!"head({a},{f / 4})"
  | _ => "?"

def rHGraph (keys : List Head.Key) (g : Graph Head.Key) : String :=
  joinWith "|" (sortDedupS (keys.map (fun k => match g k with
    | some t => rHKey k ++ "=" ++ rHTsk t
    | none => rHKey k ++ "=!undefined")))

def rPlan (pl : HeadPlan) : String :=
  s!"parts={rNats pl.parts};k={pl.k};safe1={bool01 pl.safe1};second=" ++
    (match pl.second with | none => "none" | some b => bool01 b)

def rRange (l : List Int) : String :=
  match l.head?, l.getLast? with
  | some a, some b => s!"{a}..{b + 1}"
  | _, _ => "empty"

def rNatRange (l : List Nat) : String :=
  match l.head?, l.getLast? with
  | some a, some b => s!"{a}..{b + 1}"
  | _, _ => "empty"

def handlePt (verb : String) (kv : List (String × String)) : String :=
  match verb with
  | "seldiv" => match getInts kv "full", getNats kv "P" with
      | some full, some P => match selDivisions full P with
          | .ok d => rOptDivs d
          | .error e => rSelErr e
      | _, _ => "BAD params"
  | "layer-partitions" => match getNats kv "P" with
      | some P => "G " ++ Render.graph rKey (outKeys P) (partitionsTask P)
      | none => "BAD params"
  | "layer-filtered" => match getNats kv "P" with
      | some P => "G " ++ Render.graph rKey (outKeys P) (filteredTask (fun i => Tsk.alias (.src 0 i)) P)
      | none => "BAD params"
  | "compose" => match (get kv "inner").bind optNats, getNats kv "P" with
      | some inner, some P => match composeSel inner P with
          | some R => rNats R
          | none => "ERR IndexError"
      | _, _ => "BAD params"
  | "push" => match getNat kv "ndim", getBool kv "any", (get kv "ops").bind parseOps with
      | some nd, some any, some ops => joinWith "," ((partitionsPush nd any ops).map bool01)
      | _, _, _ => "BAD params"
  | "selargs" => match getNats kv "args", getNats kv "P" with
      | some args, some P => (match selectArgs args P with
          | some r => rNats r
          | none => "ERR IndexError")
      | _, _ => "BAD params"
  | "guard" => match getBool kv "structural", getBool kv "numdep", getBool kv "filtered" with
      | some st, some nd, some fl => (match partitionsRule st nd fl with
          | .wrap => "wrap" | .absorb => "absorb" | .none => "none")
      | _, _, _ => "BAD params"
  | "fromarray" => match getNat kv "len", getNat kv "cs", getNats kv "P" with
      | some len, some cs, some P =>
          "div=" ++ rInts (faDivisions len cs) ++ ";" ++
          joinWith ";" (P.map (fun p => match faIdx len cs p with
            | some ix => s!"idx={rRange ix},data={rNatRange (faData len cs p)}," ++
                (match faRows len cs p with | some _ => "ok" | none => "ERR ValueError")
            | none => "ERR IndexError"))
      | _, _, _ => "BAD params"
  | "frompandas" => match getNats kv "locs", (get kv "P").bind optNats with
      | some locs, some P =>
          let ps := match P with | none => List.range (locs.length - 1) | some p => p
          "slices=" ++ joinWith ";" (ps.map (fun i => s!"{locs.getD i 0}:{locs.getD (i+1) 0}")) ++
          " lengths=" ++ (match fpLengths locs P with | some l => rNats l | none => "ERR IndexError")
      | _, _ => "BAD params"
  | "fused" => match getInts kv "full", getNats kv "P", getNat kv "step" with
      | some full, some P, some step =>
          "buckets=" ++ joinWith "|" ((buckets P step).map rNats) ++ ";div=" ++
            (if full.isEmpty then "unknown" else match fusedDivisionsGuarded full P step with
              | some (some d) => rInts d
              | some none => "unknown"
              | none => "ERR IndexError")
      | _, _, _ => "BAD params"
  | "bjoinkeys" => match getNats kv "P" with
      | some P => rNats (bjoinOutKeys P)
      | none => "BAD params"
  | _ => "BAD verb"

def getK (kv : List (String × String)) : Option Int := getInt kv "k"

def handleHd (verb : String) (kv : List (String × String)) : String :=
  match verb with
  | "lower" => match getNat kv "np", getK kv with
      | some np, some k => match lowerHead np k with
          | .ok pl => rPlan pl
          | .error _ => "ERR ValueError"
      | _, _ => "BAD params"
  | "graph" => match getNat kv "np", getNat kv "n", getK kv with
      | some np, some n, some k => match lowerHead np k with
          | .ok pl => "G " ++ rHGraph (headKeys pl) (headTask pl n)
          | .error _ => "ERR ValueError"
      | _, _, _ => "BAD params"
  | "divisions" => match getInts kv "d", getK kv with
      | some d, some k => match headDivisions d k with
          | some r => rInts r
          | none => "ERR IndexError"
      | _, _ => "BAD params"
  | "push" => match getNat kv "ndim", getNat kv "np", (get kv "ops").bind parseOps, getNat kv "n", getK kv with
      | some nd, some np, some ops, some n, some k => (match headPush nd np ops n k with
          | some r => joinWith "," (r.map (fun o => match o with
              | some (n', k') => s!"{n'}:{k'}"
              | none => "-"))
          | none => "none")
      | _, _, _, _, _ => "BAD params"
  | "nested" => match getNat kv "n1", getInt kv "k1", getNat kv "n2", getInt kv "k2" with
      -- (n1, k1) = outer head, (n2, k2) = inner head
      | some n1, some k1, some n2, some k2 => let r := headNested n1 k1 n2 k2; s!"{r.1}:{r.2}"
      | _, _, _, _ => "BAD params"
  | _ => "BAD verb"

def handleTl (verb : String) (kv : List (String × String)) : String :=
  match verb with
  | "graph" => match getNat kv "np", getNat kv "n" with
      | some np, some n => "G " ++ rHGraph tailKeys (tailTask np n)
      | _, _ => "BAD params"
  | "divisions" => match getInts kv "d" with
      | some d => rInts (tailDivisions d)
      | none => "BAD params"
  | "push" => match getNat kv "ndim", getNat kv "np", (get kv "ops").bind parseOps, getNat kv "n" with
      | some nd, some np, some ops, some n => (match tailPush nd np ops n with
          | some r => joinWith "," (r.map (fun o => match o with
              | some n' => toString n'
              | none => "-"))
          | none => "none")
      | _, _, _, _ => "BAD params"
  | "nested" => match getNat kv "n1", getNat kv "n2" with
      | some n1, some n2 => toString (tailNested n1 n2)
      | _, _ => "BAD params"
  | _ => "BAD verb"

/-- `0,5,9|9,12` → list of division vectors -/
def parseDivList (s : String) : Option (List (List Int)) :=
  (s.splitOn "|").mapM parseInts

def handleDv (verb : String) (kv : List (String × String)) : String :=
  match verb with
  | "concat" => match (get kv "ds").bind parseDivList, getBool kv "interleave" with
      | some ds, some il => match Divs.concatDivisions ds il with
          | some d => "known:" ++ rInts d
          | none => "unknown"
      | _, _ => "BAD params"
  | "mergeunique" => match (get kv "ds").bind parseDivList with
      | some ds => rInts (Divs.mergeUniqueAll ds)
      | none => "BAD params"
  | "locsok" => match getInts kv "idx", getInts kv "divs", getNats kv "locs" with
      | some idx, some divs, some locs => if locsOK idx divs locs then "OK" else "FAIL"
      | _, _, _ => "BAD params"
  | _ => "BAD verb"

def handleLn (verb : String) (kv : List (String × String)) : String :=
  match verb with
  | "lenrule" => match get kv "frame", getBool kv "lp", getBool kv "childlp", (get kv "deps").bind parseNats,
                       getBool kv "concat0", getNat kv "ndim", getNat kv "ncols" with
      | some cls, some lp, some clp, some deps, some c0, some ndim, some ncols =>
          Divs.rLenAction (Divs.lenRule cls lp clp deps c0 ndim ncols
            ((getBool kv "sel").getD false) ((getBool kv "childsel").getD false))
      | _, _, _, _, _, _, _ => "BAD params"
  | "sizerule" => match getBool kv "frame", getNat kv "ncols" with
      | some isFrame, some ncols => let (m, _) := Divs.sizeRule isFrame ncols; toString m
      | _, _ => "BAD params"
  | "lengthsrule" => match getBool kv "elemwise", (get kv "deps").bind parseNats with
      | some ew, some deps => (match Divs.lengthsRule ew deps with | some i => s!"child:{i}" | none => "none")
      | _, _ => "BAD params"
  | "pqlengths" => match getNats kv "stats", (get kv "P").bind optNats with
      | some stats, some P => (match Divs.pqLengths stats P with | some l => rNats l | none => "ERR KeyError")
      | _, _ => "BAD params"
  | "pqlengthsarrow" => match getNats kv "stats", (get kv "P").bind optNats with
      | some stats, some P => (match Divs.pqLengthsArrow stats P with | some l => rNats l | none => "ERR IndexError")
      | _, _ => "BAD params"
  | _ => "BAD verb"

def handle : List String → Option String
  | "pt" :: verb :: rest => some (handlePt verb (kvs rest))
  | "hd" :: verb :: rest => some (handleHd verb (kvs rest))
  | "tl" :: verb :: rest => some (handleTl verb (kvs rest))
  | "dv" :: verb :: rest => some (handleDv verb (kvs rest))
  | "ln" :: verb :: rest => some (handleLn verb (kvs rest))
  | _ => none

end Dx.Drv.Partitions
