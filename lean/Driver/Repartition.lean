/-
  Driver/Repartition.lean — protocol verbs for the repartition layers (C13)
-/
import DxModel.Graph
import DxModel.Layers.Repartition
import Driver.Proto
import Driver.Render
open Dx Dx.Proto
namespace Dx.Drv.Repartition
open Dx.Repartition

inductive Kind where
  | fewer | more | div | size (sz : String)

def rKey (kd : Kind) : Key → String
  | .dep i => s!"@d0:{i}"
  | .out j => s!"@self:{j}"
  | .split i => match kd with
      | .size _ => s!"split-U@-:{i}"
      | _ => s!"split-@self:{i}"
  | .piece k => match kd with
      | .size sz => s!"repartition-split-{sz}-U@-:{k}"
      | _ => s!"repartition-split-U@-:{k}"

def rErr : PErr → String
  | .value => "ERR ValueError"
  | .index => "ERR IndexError"
  | .key => "ERR KeyError"
  | .notImpl => "ERR NotImplementedError"
  | .fuel => "ERR Fuel"
  | .badInput => "ERR BadInput"

def rNats (l : List Nat) : String := if l.isEmpty then "-" else joinWith "," (l.map toString)
def rInts (l : List Int) : String := if l.isEmpty then "-" else joinWith "," (l.map toString)

def parseSlice (s : String) : Option Slice :=
  match s.splitOn ":" with
  | [i, lo, hi, incl] => match i.toNat?, lo.toInt?, hi.toInt?, incl with
      | some i, some lo, some hi, "1" => some ⟨i, lo, hi, true⟩
      | some i, some lo, some hi, "0" => some ⟨i, lo, hi, false⟩
      | _, _, _, _ => none
  | _ => none

/-- `0:0:1:0+0:1:2:0;2:4:4:1` — outputs separated by `;`, slices by `+`, `-` = no slice -/
def parsePlan (s : String) : Option Plan :=
  (s.splitOn ";").mapM (fun o => if o = "-" ∨ o = "" then some [] else (o.splitOn "+").mapM parseSlice)

def rSlice (s : Slice) : String := s!"{s.i}:{s.lo}:{s.hi}:{bool01 s.incl}"
def rPlan (p : Plan) : String :=
  joinWith ";" (p.map (fun ss => if ss.isEmpty then "-" else joinWith "+" (ss.map rSlice)))

def optNat (s : String) : Option (Option Nat) :=
  if s = "None" then some none else s.toNat?.map some

def optInts (s : String) : Option (Option (List Int)) :=
  if s = "None" then some none else (parseInts s).map some

def handleLayer (kind : String) (kv : List (String × String)) : String :=
  match kind with
  | "repfewer" => match getNats kv "bs" with
      | some bs => "G " ++ Render.graph (rKey .fewer) (fewerKeys bs) (fewerTask bs)
      | none => "BAD params"
  | "repmore" => match getNats kv "ns" with
      | some ns => "G " ++ Render.graph (rKey .more) (moreKeys ns) (moreTask ns)
      | none => "BAD params"
  | "repsize" => match getNats kv "ns", getNats kv "bs", get kv "size" with
      | some ns, some bs, some sz => "G " ++ Render.graph (rKey (.size sz)) (sizeKeys ns bs) (sizeTask ns bs)
      | _, _, _ => "BAD params"
  | "repdiv" => match getInts kv "a", getInts kv "b", getBool kv "force" with
      | some a, some b, some force => match planner a b force with
          | .ok st => "G " ++ Render.graph (rKey .div) (divKeys st) (divTask st)
          | .error e => rErr e
      | _, _, _ => "BAD params"
  | _ => "BAD layer"

def mkRows (idx : List Int) : List Row :=
  (List.range idx.length).zip idx |>.map (fun (i, x) => { idx := x, tgt := 0, pay := i })

def rPays (rows : List Row) : String := "[" ++ joinWith "," (rows.map (fun r => toString r.pay)) ++ "]"

def okFail (b : Bool) : String := if b then "OK" else "FAIL"

def handle : List String → Option String
  | "layer" :: kind :: rest =>
      if kind = "repfewer" ∨ kind = "repmore" ∨ kind = "repsize" ∨ kind = "repdiv" then
        some (handleLayer kind (kvs rest)) else none
  | "fn" :: "clean" :: rest =>
      let kv := kvs rest
      match getNats kv "bs", getNat kv "n" with
      | some bs, some n => match cleanBoundaries bs n with
          | .ok l => some ("L " ++ rNats l)
          | .error e => some (rErr e)
      | _, _ => some "BAD params"
  | "fn" :: "fewerdiv" :: rest =>
      let kv := kvs rest
      match getInts kv "din", getNats kv "bs" with
      | some din, some bs => match fewerDivisions din bs with
          | some l => some ("L " ++ rInts l)
          | none => some "ERR IndexError"
      | _, _ => some "BAD params"
  | "fn" :: "nsplits" :: rest =>
      let kv := kvs rest
      match getNat kv "nout", getNat kv "nin" with
      | some nout, some nin => match nsplits nout nin with
          | .ok l => some ("L " ++ rNats l)
          | .error e => some (rErr e)
      | _, _ => some "BAD params"
  | "fn" :: "lower" :: rest =>
      let kv := kvs rest
      match (get kv "np").bind optNat, getNat kv "nin", (get kv "fdivs").bind optInts, getBool kv "numeric",
            (get kv "ndivs").bind optInts, getBool kv "size" with
      | some np, some nin, some fd, some num, some nd, some sz =>
          match lowerDecision np nin fd num nd sz with
          | .ok .toFewer => some "RepartitionToFewer"
          | .ok .identity => some "identity"
          | .ok .toMore => some "RepartitionToMore"
          | .ok .divisionsInterp => some "RepartitionDivisions(interpolated)"
          | .ok .divisions => some "RepartitionDivisions"
          | .ok .size => some "RepartitionSize"
          | .error e => some (rErr e)
      | _, _, _, _, _, _ => some "BAD params"
  | "check" :: "boundaries" :: rest =>
      let kv := kvs rest
      match getNats kv "bs", getNat kv "nin" with
      | some bs, some nin => some (okFail (boundariesOK bs nin))
      | _, _ => some "BAD params"
  | "check" :: "strictboundaries" :: rest =>
      let kv := kvs rest
      match getNats kv "bs", getNat kv "nin" with
      | some bs, some nin => some (okFail (boundariesOK bs nin && strictMono bs))
      | _, _ => some "BAD params"
  | "check" :: "nsplits" :: rest =>
      let kv := kvs rest
      match getNats kv "ns", getNat kv "nin", getNat kv "nout" with
      | some ns, some nin, some nout =>
          some (okFail (ns.all (fun k => decide (1 ≤ k)) && ns.length == nin && Repartition.sum ns == nout))
      | _, _, _ => some "BAD params"
  | "check" :: "planok" :: rest =>
      let kv := kvs rest
      match getInts kv "a", getInts kv "b", (get kv "plan").bind parsePlan with
      | some a, some b, some plan => some (okFail (planOK a b plan))
      | _, _, _ => some "BAD params"
  | "check" :: "covered" :: rest =>
      let kv := kvs rest
      match getInts kv "a", getInts kv "b", getBool kv "force" with
      | some a, some b, some force => some (okFail (isSorted b && covered a b force))
      | _, _, _ => some "BAD params"
  | "check" :: "modelplan" :: rest =>
      let kv := kvs rest
      match getInts kv "a", getInts kv "b", getBool kv "force" with
      | some a, some b, some force => match planner a b force with
          | .ok st => some (if !closedOK st then "OPEN" else okFail (planOK a b (planOf st)) ++ " " ++ rPlan (planOf st))
          | .error e => some (rErr e)
      | _, _, _ => some "BAD params"
  | "spec" :: "boundaryslice" :: rest =>
      let kv := kvs rest
      match getInts kv "idx", getInt kv "lo", getInt kv "hi", getBool kv "incl" with
      | some idx, some lo, some hi, some incl => some (rPays (boundarySliceSpec (mkRows idx) lo hi incl))
      | _, _, _, _ => some "BAD params"
  | "spec" :: "splitevenly" :: rest =>
      let kv := kvs rest
      match getNat kv "len", getNat kv "n" with
      | some len, some n =>
          let rows := mkRows ((List.range len).map (fun i => Int.ofNat i))
          some (joinWith ";" ((splitEvenlySpec rows n).map rPays))
      | _, _ => some "BAD params"
  | _ => none

end Dx.Drv.Repartition
