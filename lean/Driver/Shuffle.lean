/-
  Driver/Shuffle.lean — protocol verbs for the shuffle layers and their helper specs
-/
import DxModel.Graph
import DxModel.Layers.Shuffle
import Driver.Proto
import Driver.Render
open Dx Dx.Proto
namespace Dx.Drv.Shuffle

def rSName : Shuffle.SName → String
  | .self => ""
  | .stage s => s!"stage-{s}-"

def rTuple (l : List Nat) : String := "(" ++ natList l ++ ")"

def rShuffleKey : Shuffle.Key → String
  | .dep i => s!"@d0:{i}"
  | .out n j => s!"{rSName n}@self:{j}"
  | .ssplit o i => s!"split-@self:{o}.{i}"
  | .sgroup i => s!"group-@self:{i}"
  | .split n idx inp => s!"split-{rSName n}@self:{idx}.{rTuple inp}"
  | .group n inp => s!"group-{rSName n}@self:{rTuple inp}"
  | .empty n inp => s!"group-{rSName n}@self:{rTuple inp}.'empty'"
  | .rgroup n i => s!"repartition-group-{rSName n}@self:{i}"
  | .partd => "zpartd-U@-:"
  | .dwrite i => s!"shuffle-partition-U@-:{i}"
  | .barrier => "barrier-U@-:"

def shuffleParams (kv : List (String × String)) : Option Shuffle.Params :=
  match getNat kv "nin", getNat kv "nout", getNats kv "parts", getBool kv "filtered",
        getBool kv "ii", getNat kv "maxbranch", getNat kv "stages", getNat kv "nsplits" with
  | some nin, some nout, some parts, some filtered, some ii, some mb, some st, some ns =>
      some { nin := nin, nout := nout, parts := parts, filtered := filtered, ignoreIndex := ii,
             maxBranch := mb, stages := st, nsplits := ns }
  | _, _, _, _, _, _, _, _ => none

def handleLayer (kind : String) (kv : List (String × String)) : String :=
  match kind with
  | "simpleshuffle" => match shuffleParams kv with
      | some p => "G " ++ Render.graph rShuffleKey (Shuffle.simpleKeys p) (Shuffle.simpleTask p)
      | none => "BAD params"
  | "taskshuffle" => match shuffleParams kv with
      | some p => "G " ++ Render.graph rShuffleKey (Shuffle.taskKeys p) (Shuffle.taskTask p)
      | none => "BAD params"
  | "diskshuffle" => match shuffleParams kv with
      | some p => "G " ++ Render.graph rShuffleKey (Shuffle.diskKeys p) (Shuffle.diskTask p)
      | none => "BAD params"
  | _ => "BAD layer"


def mkRows (tgts : List Nat) : List Row :=
  (List.range tgts.length).zip tgts |>.map (fun (i, t) => { idx := i, tgt := t, pay := i })

def rPays (rows : List Row) : String := "[" ++ joinWith "," (rows.map (fun r => toString r.pay)) ++ "]"

def handleSpec (kind : String) (kv : List (String × String)) : Option String :=
  match kind with
  | "shufflegroup" =>
    match getNats kv "tgts", getNat kv "stage", getNat kv "k", getNat kv "nin" with
    | some tg, some stage, some k, some nin =>
        some (joinWith ";" ((shuffleGroupSpec (mkRows tg) none stage k nin).map (fun (c, rows) => s!"{c}:{rPays rows}")))
    | _, _, _, _ => some "BAD params"
  | "group2get" =>
    match getNats kv "tgts", getNat kv "i" with
    | some tg, some i => some (rPays (group2Get (mkRows tg) i))
    | _, _ => some "BAD params"
  | _ => none

def handle : List String → Option String
  | "layer" :: kind :: rest =>
      if kind = "simpleshuffle" ∨ kind = "taskshuffle" ∨ kind = "diskshuffle" then some (handleLayer kind (kvs rest)) else none
  | "spec" :: kind :: rest => handleSpec kind (kvs rest)
  | "check" :: "stagearith" :: rest =>
      let kv := kvs rest
      match getNat kv "nin", getNat kv "stages", getNat kv "nsplits" with
      | some n, some st, some ns => some (if Dx.Shuffle.stageArithOK n st ns then "OK" else "FAIL")
      | _, _, _ => some "BAD params"
  | _ => none

end Dx.Drv.Shuffle
