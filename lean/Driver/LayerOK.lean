/-
  Driver/LayerOK.lean — protocol verbs of WP-O (C09 coverage): the flat generators of Layers/Flat.lean, the gather /
  groupby-cumulative layers, the reference sets of Blockwise tasks, the hypothesis checkers of the repartition
  layers, and the committed source-hash table.

    lk flat gen=<generator> <params…>      → `G <graph> ; nout=<n> ; refsok=<0|1>`
    lk gather n=<n>                        → `G <graph>`
    lk cumg n= dF= dR= dL=                 → `G <graph>`
    lk bwrefs n= ndim= any= args=…         → per output partition the sorted set of referenced keys
    lk check fewer|size|div …              → OK | FAIL | ERR …
    lk hash cls=<class>                    → committed hash | NONE
-/
import DxModel.Layers.Flat
import DxModel.Layers.Gather
import DxModel.Layers.MergeTree
import DxModel.Layers.MergeAsof
import DxModel.Layers.LayerChecks
import DxModel.LayerHashes
import Driver.Proto
import Driver.Render
import Driver.Layers
open Dx Dx.Proto
namespace Dx.Drv.LayerOK

def rRef (r : Nat × Nat) : String := s!"@d{r.1}:{r.2}"

def rEnt : Flat.Ent → String
  | .alias d i => s!"alias({rRef (d, i)})"
  | .fn f refs => s!"f{f}({joinWith "," (refs.map rRef)})"
  | .lit src => s!"leaf({natList src})"

def rFlat (ents : List Flat.Ent) : String :=
  joinWith "|" (sortDedupS ((List.range ents.length).zip ents |>.map (fun (j, e) => s!"@self:{j}=" ++ rEnt e)))

def answer (ents : List Flat.Ent) (depN : List Nat) : String :=
  s!"G {rFlat ents} ; nout={ents.length} ; refsok={bool01 (Flat.refsOKb ents depN)}"

def parseBools (s : String) : Option (List Bool) :=
  if s = "-" ∨ s = "" then some [] else (s.splitOn ",").mapM (fun w => if w = "1" then some true else if w = "0" then some false else none)

def handleFlat (kv : List (String × String)) : String :=
  match get kv "gen" with
  | some "stack" => match getNats kv "nps", (get kv "mat").bind parseBools with
      | some nps, some mat => answer (Flat.stackEnts nps mat) nps
      | _, _ => "BAD params"
  | some "interleaved" => match getNats kv "nps" with
      | some nps => answer (Flat.interleavedEnts nps) nps
      | none => "BAD params"
  | some "partitions" => match getNats kv "P", getNat kv "n" with
      | some P, some n => answer (Flat.partitionsEnts P) [n]
      | _, _ => "BAD params"
  | some "filtered" => match getNats kv "P" with
      | some P => answer (Flat.filteredEnts P) []
      | none => "BAD params"
  | some "fused" => match getNats kv "P", getNat kv "step" with
      | some P, some step => answer (Flat.fusedEnts P step) []
      | _, _ => "BAD params"
  | some "fromdelayed" => match getNats kv "P", getNat kv "ndfs" with
      | some P, some nd => answer (Flat.fromDelayedEnts P) (List.replicate nd 1)
      | _, _ => "BAD params"
  | some "barrier" => match getNat kv "n" with
      | some n => answer (Flat.barrierEnts n) [n]
      | none => "BAD params"
  | some "scalars" => match getNat kv "m" with
      | some m => answer (Flat.scalarsEnts m) (List.replicate m 1)
      | none => "BAD params"
  | some "locelement" => match getNat kv "part", getNat kv "n" with
      | some part, some n => answer (Flat.locElementEnts part) [n]
      | _, _ => "BAD params"
  | some "loclist" => match getNats kv "parts", getNat kv "n" with
      | some parts, some n => answer (Flat.locListEnts parts) [n]
      | _, _ => "BAD params"
  | some "locslice" => match getNat kv "start", getNat kv "stop", getBool kv "cnone", getNat kv "n" with
      | some a, some b, some c, some n => answer (Flat.locSliceEnts a b c) [n]
      | _, _, _, _ => "BAD params"
  | some "resolve" => match getNats kv "ne", getNats kv "ov", getNats kv "eq", getNat kv "n" with
      | some ne, some ov, some eq, some n => answer (Flat.resolveEnts ne ov (fun i => eq.contains i)) [n]
      | _, _, _, _ => "BAD params"
  | _ => "BAD generator"

/-! ### Gather / CumG -/

def rGatherKey : Gather.Key → String
  | .dep i => s!"@d0:{i}"
  | .aux i => s!"aux-@self:{i}"
  | .out => "@self:0"

def rGatherTask : Tsk Gather.Key → String
  | .apply 0 ks => s!"chunk({joinWith "," (ks.map rGatherKey)})"
  | .apply 1 ks => s!"agg({joinWith "," (ks.map rGatherKey)})"
  | t => Render.tsk rGatherKey t

def rCumGKey : CumG.Key → String
  | .dep d i => s!"@d{d}:{i}"
  | .inter i => s!"cum-last@self:{i}"
  | .out i => s!"@self:{i}"

def rCumGTask : Tsk CumG.Key → String
  | .apply 0 ks => s!"filled({joinWith "," (ks.map rCumGKey)})"
  | .apply 1 ks => s!"aligned({joinWith "," (ks.map rCumGKey)})"
  | t => Render.tsk rCumGKey t

/-! ### RepartitionQuantiles -/

def rRQKey : RQ.Key → String
  | .dep i => s!"@d0:{i}"
  | .dtype => "@self:0.0"
  | .summ i => s!"@self:1.{i}"
  | .node l i => s!"@self:{l + 2}.{i}"
  | .out => "@self:0"

def rRQTask : Tsk RQ.Key → String
  | .apply 0 ks => s!"dtype_info({joinWith "," (ks.map rRQKey)})"
  | .apply 1 ks => s!"percentiles_summary({joinWith "," (ks.map rRQKey)})"
  | .apply 2 ks => s!"merge([{joinWith "," (ks.map rRQKey)}])"
  | .apply 3 ks => s!"final({joinWith "," (ks.map rRQKey)})"
  | t => Render.tsk rRQKey t

/-- `2,2;1` → [[2,2],[1]]; `-` → [] -/
def parseLevels (s : String) : Option (List (List Nat)) :=
  if s = "-" ∨ s = "" then some [] else (s.splitOn ";").mapM parseNats

/-! ### MergeAsofIndexed: the structured scan keys are rendered back to the real `(name, pos, d, phase)` -/

def rScanKey (pfx : String) : Scan.Key → String
  | .src j => s!"@d1:{j}"
  | .up e k => s!"{pfx}@self:{(k + 1) * 2 ^ e - 1}.{2 ^ e}.0"
  | .down e k => s!"{pfx}@self:{(k + 1) * 2 ^ e - 1}.{2 ^ e}.1"
  | .res i => s!"{pfx}@self:{i}"

def rAsofKey : Asof.Key → String
  | .l i => s!"@d0:{i}"
  | .r j => s!"@d1:{j}"
  | .t k => rScanKey "prefix-reduction-" k
  | .h k => rScanKey "suffix_reduction-" k
  | .out i => s!"@self:{i}"

def rAsofTask : Tsk Asof.Key → String
  | .apply 0 [a] => s!"f({rAsofKey a},id)"
  | .apply 1 [a, b] => s!"f({rAsofKey a},{rAsofKey b})"
  | .apply 2 [a] => s!"f({rAsofKey a},id)"
  | .apply 3 ks => s!"merge({joinWith "," (ks.map rAsofKey)})"
  | .const _ => "id"
  | t => Render.tsk rAsofKey t

/-! ### Blockwise reference sets -/

def rBwRefs (p : Blockwise.Params) : String :=
  joinWith "|" ((List.range p.n).map (fun i =>
    s!"{i}=" ++ joinWith "," (sortDedupS ((p.args.filterMap (Blockwise.argKey p i)).map Layers.rBwKey))))

def handleCheck (kind : String) (kv : List (String × String)) : String :=
  match kind with
  | "fewer" => match getNats kv "bs", getNat kv "nin" with
      | some bs, some nin => if Repartition.fewerBoundsOK bs nin then "OK" else "FAIL"
      | _, _ => "BAD params"
  | "size" => match getNats kv "ns", getNats kv "bs" with
      | some ns, some bs => if Repartition.sizeBoundsOK ns bs then "OK" else "FAIL"
      | _, _ => "BAD params"
  | "div" => match getInts kv "a", getInts kv "b", getBool kv "force" with
      | some a, some b, some force => match Repartition.planner a b force with
          | .ok st => if Repartition.divStateOK st (a.length - 1) then "OK" else "FAIL"
          | .error _ => "ERR"
      | _, _, _ => "BAD params"
  | _ => "BAD check"

def handle : List String → Option String
  | "lk" :: "flat" :: rest => some (handleFlat (kvs rest))
  | "lk" :: "gather" :: rest => match getNat (kvs rest) "n" with
      | some n => some ("G " ++ Layers.rGraphWith rGatherKey rGatherTask (Gather.keys n) (Gather.layer n))
      | none => some "BAD params"
  | "lk" :: "cumg" :: rest =>
      let kv := kvs rest
      match getNat kv "n", getNat kv "dF", getNat kv "dR", getNat kv "dL" with
      | some n, some dF, some dR, some dL =>
          let p : CumG.Params := { n := n, dF := dF, dR := dR, dL := dL }
          some ("G " ++ Layers.rGraphWith rCumGKey rCumGTask (CumG.keys p) (CumG.layer p))
      | _, _, _, _ => some "BAD params"
  | "lk" :: "rq" :: rest =>
      let kv := kvs rest
      match getNat kv "n", (get kv "levels").bind parseLevels with
      | some n, some levels =>
          let p : RQ.Params := { n := n, levels := levels }
          some ("G " ++ Layers.rGraphWith rRQKey rRQTask (RQ.keys p) (RQ.layer p) ++ s!" ; levelsok={bool01 (RQ.levelsOK p)}")
      | _, _ => some "BAD params"
  | "lk" :: "asof" :: rest =>
      let kv := kvs rest
      match getNat kv "nl", getNat kv "m", getBool kv "tails", getBool kv "heads", (get kv "pairs").bind parseLevels with
      | some nl, some m, some tl, some hd, some pairs =>
          let p : Asof.Params := { nl := nl, m := m, L := Scan.log2ceil m, tails := tl, heads := hd, pairs := pairs }
          some ("G " ++ Layers.rGraphWith rAsofKey rAsofTask (Asof.keys p) (Asof.layer p) ++ s!" ; paramsok={bool01 (Asof.paramsOK p)}")
      | _, _, _, _, _ => some "BAD params"
  | "lk" :: "bwrefs" :: rest =>
      let kv := kvs rest
      match getNat kv "n", getNat kv "ndim", getBool kv "any", (get kv "args").bind Layers.parseArgs with
      | some n, some nd, some any, some args =>
          some (rBwRefs { n := n, ndim := nd, anyNdim := any, args := args })
      | _, _, _, _ => some "BAD params"
  | "lk" :: "check" :: kind :: rest => some (handleCheck kind (kvs rest))
  | "lk" :: "hash" :: rest => match get (kvs rest) "cls" with
      | some c => some ((committedLayerHashes.lookup c).getD "NONE")
      | none => some "BAD params"
  | _ => none

end Dx.Drv.LayerOK
