/-
  Driver/Schema.lean — schema verbs (C07)

  `schema chain labels=a,b,c ops=rename:a>A;prefix:p_;proj:p_b,p_A;assign:z;drop:a;suffix:_s`
      labels of a chain of label-level operators (DxModel/Schema.lean)

  `schema decl  t=<tree>`           declared schema (`_meta`) of an expression tree (DxModel/Meta.lean)
  `schema comp  t=<tree>`           schema of a computed partition
  `schema guard t=<tree>`           1 / 0
  `schema push  t=<tree> deps=a,b;c`   declared schema of the tree after the projection push-down of its root
                                    (NONE when the rule does not fire), `deps`: columns of further dependents
  `schema kinds f=sum ks=i,f,b`     kind of `df.f()` over columns of these kinds

  A tree is a postfix program, tokens separated by `/`, fields by `|`:
      src|F(a:i,b:f;~:i)   getcols|a,b   getcol|a   rename|a>A,b>B   renames|n   prefix|p_   suffix|_s   drop|a
      keep   reset|0   setindex|c|1   index   idx2s   idx2f|~   toframe|~   vc|0   reduce|sum   len
      gb|k1,k2|*|sum   gb|k|1:c|sum   gb|k|m:a,b|sum   assign|c   merge|inner|k|k|_x|_y   concat|0|0|3
  a token may end in `@path.batch.depth.nagg.which.emptyLhs` (run-time shape, default all 0).
  Schemas: `F(cols;levels)`, `S(name:kind;levels)`, `I(levels)`, `C(kind)`, `ERR`; `~` is None / the empty string.
-/
import DxModel.Schema
import DxModel.Meta
import DxModel.MetaPush
import Driver.Proto
open Dx Dx.Proto
namespace Dx.Drv.Schema

def parseOp (s : String) : Option Dx.Schema.Op :=
  match s.splitOn ":" with
  | ["rename", m] => some (.rename ((m.splitOn ",").filterMap (fun e => match e.splitOn ">" with
      | [a, b] => some (a, b) | _ => none)))
  | ["prefix", p] => some (.addPrefix p)
  | ["suffix", p] => some (.addSuffix p)
  | ["proj", cs] => some (.proj (parseStrs cs))
  | ["assign", c] => some (.assign c (fun _ => 0))
  | ["drop", cs] => some (.dropCols (parseStrs cs))
  | ["filter"] => some (.filterRows (fun _ => true))
  | _ => none

open Dx.Meta

/-! ### schemas -/

def kindStr : Kind → String
  | .int => "i" | .float => "f" | .bool => "b" | .obj => "o" | .dt => "d"

def parseKind : String → Option Kind
  | "i" => some .int | "f" => some .float | "b" => some .bool | "o" => some .obj | "d" => some .dt
  | _ => none

def optName (n : Option Name) : String := match n with | some n => n | none => "~"
def parseOptName (s : String) : Option Name := if s = "~" then none else some s

def colStr (c : Col) : String := c.1 ++ ":" ++ kindStr c.2
def lvlStr (l : Lvl) : String := optName l.1 ++ ":" ++ kindStr l.2

def renderSch : Sch → String
  | .frame cols idx => "F(" ++ joinWith "," (cols.map colStr) ++ ";" ++ joinWith "," (idx.map lvlStr) ++ ")"
  | .series n k idx => "S(" ++ optName n ++ ":" ++ kindStr k ++ ";" ++ joinWith "," (idx.map lvlStr) ++ ")"
  | .index l => "I(" ++ joinWith "," (l.map lvlStr) ++ ")"
  | .scalar k => "C(" ++ kindStr k ++ ")"
  | .bad => "ERR"

def parseCol (s : String) : Option Col :=
  match s.splitOn ":" with
  | [n, k] => (parseKind k).map (fun k => (n, k))
  | _ => none

def parseLvl (s : String) : Option Lvl :=
  match s.splitOn ":" with
  | [n, k] => (parseKind k).map (fun k => (parseOptName n, k))
  | _ => none

def parseList {α : Type} (f : String → Option α) (s : String) : Option (List α) :=
  if s = "" then some [] else (s.splitOn ",").mapM f

/-- text between the leading `X(` and the trailing `)` -/
def inner (s : String) : String := String.ofList ((s.toList.drop 2).dropLast)

def parseSch (s : String) : Option Sch :=
  if s = "ERR" then some .bad
  else match s.toList.take 2 with
  | ['F', '('] =>
    (match (inner s).splitOn ";" with
     | [cs, ls] => match parseList parseCol cs, parseList parseLvl ls with
        | some c, some l => some (.frame c l)
        | _, _ => none
     | _ => none)
  | ['S', '('] =>
    (match (inner s).splitOn ";" with
     | [nk, ls] => match parseLvl nk, parseList parseLvl ls with
        | some (n, k), some l => some (.series n k l)
        | _, _ => none
     | _ => none)
  | ['I', '('] => (parseList parseLvl (inner s)).map .index
  | ['C', '('] => (parseKind (inner s)).map .scalar
  | _ => none

/-! ### trees -/

def parseAgg : String → Option Agg
  | "sum" => some .sum | "min" => some .min | "max" => some .max | "count" => some .count | "mean" => some .mean
  | "any" => some .any | "all" => some .all | "first" => some .first | "last" => some .last | "size" => some .size
  | _ => none

def parseHow : String → Option How
  | "inner" => some .inner | "left" => some .left | "right" => some .right | "outer" => some .outer
  | "leftsemi" => some .leftsemi
  | _ => none

def parseSlice (s : String) : Option Slice :=
  if s = "*" then some .all
  else match s.splitOn ":" with
  | ["1", c] => some (.one c)
  | ["m", cs] => some (.many (parseStrs cs))
  | _ => none

def parseRt (s : String) : Option Rt :=
  match (s.splitOn ".").mapM String.toNat? with
  | some [p, b, d, n, w, e] => some { path := p, batch := b, depth := d, nagg := n, which := w, emptyLhs := e != 0 }
  | _ => none

def parseB (s : String) : Option Bool := match s with | "1" => some true | "0" => some false | _ => none

def tilde (s : String) : String := if s = "~" then "" else s

def parseMap (s : String) : List (Name × Name) :=
  (parseStrs s).filterMap (fun e => match e.splitOn ">" with | [a, b] => some (a, b) | _ => none)

def parseUOp (fields : List String) : Option UOp :=
  match fields with
  | ["getcols", cs] => some (.getCols (parseStrs cs))
  | ["getcol", c] => some (.getCol c)
  | ["rename", m] => some (.rename (parseMap m))
  | ["renames", n] => some (.renameSeries n)
  | ["prefix", p] => some (.addPrefix p)
  | ["suffix", p] => some (.addSuffix p)
  | ["drop", cs] => some (.dropCols (parseStrs cs))
  | ["keep"] => some .keep
  | ["reset", d] => (parseB d).map .resetIndex
  | ["setindex", c, d] => (parseB d).map (.setIndex c)
  | ["index"] => some .index
  | ["idx2s"] => some .indexToSeries
  | ["idx2f", n] => some (.indexToFrame (parseOptName n))
  | ["toframe", n] => some (.toFrame (parseOptName n))
  | ["vc", nz] => (parseB nz).map .valueCounts
  | ["reduce", f] => (parseAgg f).map .reduce
  | ["len"] => some .len
  | ["gb", ks, sl, f] =>
    (match parseSlice sl, parseAgg f with
     | some sl, some f => some (.gbAgg (parseStrs ks) sl f)
     | _, _ => none)
  | _ => none

/-- one step of the stack machine -/
def step (stack : List Tree) (tok : String) : Option (List Tree) :=
  let (body, rt) := match tok.splitOn "@" with
    | [b, r] => (b, parseRt r)
    | _ => (tok, some {})
  match rt with
  | none => none
  | some rt =>
    let fields := body.splitOn "|"
    match fields with
    | ["src", s] => (parseSch s).map (fun s => .src s :: stack)
    | ["assign", c] =>
      (match stack with
       | v :: t :: rest => some (.assign c t v :: rest)
       | _ => none)
    | ["merge", how, lo, ro, ls, rs] =>
      (match parseHow how, stack with
       | some h, r :: l :: rest =>
         some (.merge { how := h, leftOn := parseStrs lo, rightOn := parseStrs ro, ls := tilde ls, rs := tilde rs } rt l r :: rest)
       | _, _ => none)
    | ["concat", a, i, n] =>
      (match parseB a, parseB i, n.toNat? with
       | some a, some i, some n =>
         if stack.length < n then none
         else some (.concat a i rt (stack.take n).reverse :: stack.drop n)
       | _, _, _ => none)
    | _ =>
      (match parseUOp fields, stack with
       | some op, t :: rest => some (.un op rt t :: rest)
       | _, _ => none)

def parseTree (s : String) : Option Tree :=
  match (s.splitOn "/").foldl (fun st tok => st.bind (fun st => step st tok)) (some []) with
  | some [t] => some t
  | _ => none

def parseDeps (s : String) : List Dx.Cols.Dep :=
  if s = "" || s = "-" then [] else (s.splitOn ";").map (fun d => { cols := parseStrs d, ndim1 := false })

def handle : List String → Option String
  | "schema" :: "chain" :: rest =>
    let kv := kvs rest
    match get kv "labels", get kv "ops" with
    | some ls, some ops =>
      match (ops.splitOn ";").mapM parseOp with
      | some os => some (joinWith "," (Dx.Schema.schemaChain os (parseStrs ls)))
      | none => some "BAD ops"
    | _, _ => some "BAD params"
  | "schema" :: "decl" :: rest =>
    (match (get (kvs rest) "t").bind parseTree with
     | some t => some (renderSch (declT t))
     | none => some "BAD tree")
  | "schema" :: "comp" :: rest =>
    (match (get (kvs rest) "t").bind parseTree with
     | some t => some (renderSch (compT t))
     | none => some "BAD tree")
  | "schema" :: "guard" :: rest =>
    (match (get (kvs rest) "t").bind parseTree with
     | some t => some (bool01 (guardT t))
     | none => some "BAD tree")
  | "schema" :: "push" :: rest =>
    let kv := kvs rest
    (match (get kv "t").bind parseTree with
     | some t =>
       (match pushdown (parseDeps ((get kv "deps").getD "")) t with
        | some t' => some (renderSch (declT t') ++ " " ++ renderSch (declT t))
        | none => some "NONE")
     | none => some "BAD tree")
  | "schema" :: "kinds" :: rest =>
    let kv := kvs rest
    (match (get kv "f").bind parseAgg, (get kv "ks").bind (parseList parseKind) with
     | some f, some ks => some (match redKind f ks with | some k => kindStr k | none => "ERR")
     | _, _ => some "BAD params")
  | _ => none

end Dx.Drv.Schema
