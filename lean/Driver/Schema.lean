/-
  Driver/Schema.lean — `schema chain labels=a,b,c ops=rename:a>A;prefix:p_;proj:p_b,p_A;assign:z;drop:a;suffix:_s`
-/
import DxModel.Schema
import Driver.Proto
open Dx Dx.Proto
namespace Dx.Drv.Schema

def parseOp (s : String) : Option Dx.Schema.Op :=
  match s.splitOn ":" with
  | ["rename", m] => some (.rename ((m.splitOn ",").filterMap (fun e => match e.splitOn ">" with
      | [a, b] => some (a, b) | _ => none)))
  | ["prefix", p] => some (.addPrefix p)
  | ["suffix", p] => some (.addSuffix p)
  | ["proj", cs] => some (.proj (parseStrs cs))
  | ["assign", c] => some (.assign c (fun _ => 0))
  | ["drop", cs] => some (.dropCols (parseStrs cs))
  | ["filter"] => some (.filterRows (fun _ => true))
  | _ => none

def handle : List String → Option String
  | "schema" :: "chain" :: rest =>
    let kv := kvs rest
    match get kv "labels", get kv "ops" with
    | some ls, some ops =>
      match (ops.splitOn ";").mapM parseOp with
      | some os => some (joinWith "," (Dx.Schema.schemaChain os (parseStrs ls)))
      | none => some "BAD ops"
    | _, _ => some "BAD params"
  | _ => none

end Dx.Drv.Schema
