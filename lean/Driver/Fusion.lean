/-
  Driver/Fusion.lean — protocol verbs for blockwise fusion (C14) and the optimizer loops (C19).

    fusion fuse   dag=<nodes> root=<n> pol=<p> rev=<0|1>     -> "P passes=<k> <plan>"
    fusion passes dag=<nodes> root=<n> pol=<p> rev=<0|1>     -> "N <k>"
    fusion pass   dag=<nodes> root=<n> keys=<k0,k1,…>          -> "G group=.. deps=.. np=.. nd=.. done=.." | "G none"
        (keys[n] = rank of node n's name in string order: the pass iterates `sorted(dependencies[...])`;
         `pol=<p> rev=<0|1>` instead of keys selects the p-th permutation)
    fusion task   dag=<nodes> node=<n> index=<i>            -> "T <graph>#<args>"
    fusion check  dag=<nodes> node=<n>                       -> OK | FAIL         (fusedOK)
    fusion group  dag=<nodes> root=<n> group=a,b,c           -> OK | FAIL         (groupOKb)
    fusion planok dag=<nodes> root=<n>                       -> OK | FAIL         (planOKb)
    fusion measure dag=<nodes> root=<n>                      -> number of reachable blockwise nodes

  <nodes> = `name:bw:kall:npart:ndim:deps:members` joined by `;` (lists `a,b` or `-`).
-/
import DxModel.Fusion
import DxModel.FusionCheck
import Driver.Proto
import Driver.Render
open Dx Dx.Proto
namespace Dx.Drv.Fusion
open Dx.Fusion

def parseNode (s : String) : Option Node :=
  match s.splitOn ":" with
  | [n, bw, ka, np, nd, ds, ms] =>
    match n.toNat?, np.toNat?, nd.toNat?, parseNats ds, parseNats ms with
    | some n, some np, some nd, some ds, some ms =>
      some { name := n, blockwise := bw == "1", npart := np, ndim := nd, deps := ds, kall := ka == "1", members := ms }
    | _, _, _, _, _ => none
  | _ => none

def parseDag (s : String) : Option Dag := (s.splitOn ";").mapM parseNode

/-- structural text of the plan below `x`: ordinary nodes by name, fused nodes by their groups -/
def rMember (dag : Dag) : Nat → Nat → String
  | 0, x => toString x
  | fuel+1, x =>
    match getNode dag x with
    | some nd => if nd.members ≠ [] then "F[" ++ joinWith "," (nd.members.map (rMember dag fuel)) ++ "]" else toString x
    | none => toString x

def rPlan (dag : Dag) : Nat → Nat → String
  | 0, x => toString x
  | fuel+1, x =>
    match getNode dag x with
    | some nd =>
      if nd.members ≠ [] then
        "F[" ++ joinWith "," (nd.members.map (rMember dag (dag.length + 1))) ++ "|" ++
          joinWith "," (nd.deps.map (rPlan dag fuel)) ++ "]"
      else if nd.deps ≠ [] then toString x ++ "(" ++ joinWith "," (nd.deps.map (rPlan dag fuel)) ++ ")"
      else toString x
    | none => toString x

def rFKey : FKey → String
  | .part n i => s!"{n}.{i}"
  | .top n => s!"T{n}"
  | .ph j => s!"_{j}"

/-- insertion sort of `l` by the sort keys `keys[n]` (the rank of the node's name in string order):
    `sorted(dependencies[next._name])` -/
def insertByKey (keys : List Nat) (x : Nat) : List Nat → List Nat
  | [] => [x]
  | y :: ys => if keys.getD x 0 ≤ keys.getD y 0 then x :: y :: ys else y :: insertByKey keys x ys

def ordByKeys (keys : List Nat) : Nat → List Nat → List Nat := fun _ l => l.foldr (insertByKey keys) []

def ordOf (kv : List (String × String)) : Option (Nat → List Nat → List Nat) :=
  match getNats kv "keys" with
  | some keys => some (ordByKeys keys)
  | none =>
    match getNat kv "pol", getBool kv "rev" with
    | some p, some rev => some (fun _ l => permute p rev l)
    | _, _ => none

def dedupKeys : List FKey → List FKey → List FKey
  | [], acc => acc.reverse
  | k :: ks, acc => if k ∈ acc then dedupKeys ks acc else dedupKeys ks (k :: acc)

def handle : List String → Option String
  | "fusion" :: verb :: rest =>
    let kv := kvs rest
    match (get kv "dag").bind parseDag with
    | none => some "BAD dag"
    | some dag =>
      match verb with
      | "fuse" =>
        match getNat kv "root", getNat kv "pol", getBool kv "rev" with
        | some root, some p, some rev =>
          match fuseLoop (fun _ l => permute p rev l) (dag.length + 2) dag root 0 with
          | some (dag', root', n) => some s!"P passes={n} {rPlan dag' (dag'.length + 1) root'}"
          | none => some "FUEL"
        | _, _, _ => some "BAD params"
      | "passes" =>
        match getNat kv "root", getNat kv "pol", getBool kv "rev" with
        | some root, some p, some rev =>
          match fuseLoop (fun _ l => permute p rev l) (dag.length + 2) dag root 0 with
          | some (_, _, n) => some s!"N {n}"
          | none => some "FUEL"
        | _, _, _ => some "BAD params"
      | "pass" =>
        match getNat kv "root", ordOf kv with
        | some root, some ord =>
          match fusionPass ord dag root with
          | some r =>
            match r.group with
            | some g =>
              let f := fusedNode dag g
              some s!"G group={joinWith "," (g.map toString)} deps={if f.deps.isEmpty then "-" else joinWith "," (f.deps.map toString)} np={f.npart} nd={f.ndim} done={bool01 r.done}"
            | none => some "G none"
          | none => some "FUEL"
        | _, _ => some "BAD params"
      | "task" =>
        match (getNat kv "node").bind (getNode dag), getNat kv "index" with
        | some f, some index =>
          let ws := fusedWrites dag index (f.name + 1) f
          let keys := dedupKeys (ws.map (·.1)) []
          some ("T " ++ Render.graph rFKey keys (fusedGraph dag f index) ++ "#" ++
                joinWith "," ((fusedArgs dag f index).map rFKey))
        | _, _ => some "BAD params"
      | "check" =>
        match (getNat kv "node").bind (getNode dag) with
        | some f => some (if fusedOK dag f then "OK" else "FAIL")
        | none => some "BAD params"
      | "group" =>
        match getNat kv "root", getNats kv "group" with
        | some root, some g => some (if groupOKb dag root g then "OK" else "FAIL")
        | _, _ => some "BAD params"
      | "planok" =>
        match getNat kv "root" with
        | some root => some (if planOKb dag root then "OK" else "FAIL")
        | none => some "BAD params"
      | "substok" =>
        match getNat kv "root" with
        | some root => some (if substOKb dag root then "OK" else "FAIL")
        | none => some "BAD params"
      | "measure" =>
        match getNat kv "root" with
        | some root => match globalMaps dag root with
          | some m => some (toString m.dependents.keys.length)
          | none => some "FUEL"
        | none => some "BAD params"
      | _ => none
  | _ => none

end Dx.Drv.Fusion
