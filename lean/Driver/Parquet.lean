/-
  Driver/Parquet.lean — verbs: `parquet buckets step=2 parts=0,1,2`, `parquet fuseddiv divs=… step=… parts=…`,
  `parquet guard r=a/b/c w=a/b`
-/
import DxModel.Parquet
import Driver.Proto
open Dx Dx.Proto
namespace Dx.Drv.Parquet

def rBuckets (bs : List (List Nat)) : String :=
  joinWith "|" (bs.map (fun b => joinWith "," (b.map toString)))

def comps (s : String) : List String := (s.splitOn "/").filter (fun c => c ≠ "")

def handle : List String → Option String
  | "parquet" :: "buckets" :: rest =>
    let kv := kvs rest
    match getNat kv "step", getNats kv "parts" with
    | some st, some ps => some (rBuckets (Dx.Parquet.fusionBuckets st ps))
    | _, _ => some "BAD params"
  | "parquet" :: "fuseddiv" :: rest =>
    let kv := kvs rest
    match getNat kv "step", getNats kv "parts", getInts kv "divs" with
    | some st, some ps, some ds =>
      some (joinWith "," ((Dx.Parquet.fusedDivisions ds (Dx.Parquet.fusionBuckets st ps)).map toString))
    | _, _, _ => some "BAD params"
  | "parquet" :: "guard" :: rest =>
    let kv := kvs rest
    match get kv "r", get kv "w" with
    | some r, some w => some (bool01 (Dx.Parquet.guardRefuses (comps r) (comps w)))
    | _, _ => some "BAD params"
  | _ => none

end Dx.Drv.Parquet
