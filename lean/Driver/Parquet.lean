/-
  Driver/Parquet.lean — verbs: `parquet buckets step=2 parts=0,1,2`, `parquet fuseddiv divs=… step=… parts=…`,
  `parquet guard r=a/b/c w=a/b`,
  `parquet arrowstats calc=1 filters=0 sel=N files=7:0_4.3/5_9.4;2:N.2`  (statistics → divisions, sort index, lengths),
  `parquet fsspecplan gather=1 calc=1 single=1 filters=0 sel=0,2 nparts=3 stats=3:0_4;0:N;2:5_9`
-/
import DxModel.Parquet
import DxModel.ParquetStats
import Driver.Proto
open Dx Dx.Proto
namespace Dx.Drv.Parquet

def rBuckets (bs : List (List Nat)) : String :=
  joinWith "|" (bs.map (fun b => joinWith "," (b.map toString)))

def comps (s : String) : List String := (s.splitOn "/").filter (fun c => c ≠ "")

/-! #### statistics verbs -/
open Dx.PqStats in
def parseMM (s : String) : Option (Int × Int) :=
  match s.splitOn "_" with
  | [a, b] => match a.toInt?, b.toInt? with
    | some a, some b => some (a, b)
    | _, _ => none
  | _ => none

open Dx.PqStats in
/-- row group `X.3` (no statistics object) | `N.3` (no min/max) | `0_4.3` -/
def parseRG (s : String) : Option RawRG :=
  match s.splitOn "." with
  | [st, r] => match r.toNat? with
    | none => none
    | some r =>
      if st = "X" then some ⟨none, r⟩
      else if st = "N" then some ⟨some none, r⟩
      else (parseMM st).map (fun mm => ⟨some (some mm), r⟩)
  | _ => none

open Dx.PqStats in
/-- file `7:0_4.3/5_9.4` (file-level num_rows : row groups) -/
def parseFile (s : String) : Option RawFile :=
  match s.splitOn ":" with
  | [n, rgs] => match n.toNat? with
    | none => none
    | some n =>
      if rgs = "" then some ⟨n, []⟩
      else ((rgs.splitOn "/").mapM parseRG).map (fun r => ⟨n, r⟩)
  | _ => none

def parseList {α} (f : String → Option α) (s : String) : Option (List α) :=
  if s = "-" ∨ s = "" then some [] else (s.splitOn ";").mapM f

/-- `N` = not filtered, `-` = empty selection, `0,2` -/
def parseSel (s : String) : Option (Option (List Nat)) :=
  if s = "N" then some none else (parseNats s).map some

def rNats (l : List Nat) : String := if l.isEmpty then "-" else joinWith "," (l.map toString)
def rInts (l : List Int) : String := if l.isEmpty then "-" else joinWith "," (l.map toString)

open Dx.PqStats in
def rAgg : Res (List AggFile) → String
  | .raised => "RAISED"
  | .ok l => if l.isEmpty then "-" else joinWith ";" (l.map (fun f =>
      toString f.numRows ++ ":" ++ (match f.col with
        | none => "-"
        | some none => "N"
        | some (some (a, b)) => toString a ++ "_" ++ toString b)))

open Dx.PqStats in
def rDiv : DivOut → String
  | .raised => "RAISED"
  | .known d o => "K " ++ rInts d ++ "|" ++ rNats o
  | .unknown n o => "U " ++ toString n ++ "|" ++ (match o with
      | none => "N"
      | some o => rNats o)

open Dx.PqStats in
def rLens : Res (Option (List Nat)) → String
  | .raised => "RAISED"
  | .ok none => "NONE"
  | .ok (some l) => "L " ++ rNats l

open Dx.PqStats in
def rLen : Res (Option Nat) → String
  | .raised => "RAISED"
  | .ok none => "NONE"
  | .ok (some n) => toString n

open Dx.PqStats in
def parseFStat (s : String) : Option FStat :=
  match s.splitOn ":" with
  | [n, c] => match n.toNat? with
    | none => none
    | some n =>
      if c = "X" then some ⟨n, .noName⟩
      else if c = "O" then some ⟨n, .nameOnly⟩
      else if c = "N" then some ⟨n, .mm none⟩
      else (parseMM c).map (fun mm => ⟨n, .mm (some mm)⟩)
  | _ => none

open Dx.PqStats in
def rFStats (l : List FStat) : String :=
  if l.isEmpty then "-" else joinWith ";" (l.map (fun s => toString s.numRows ++ ":" ++ (match s.col with
    | .noName => "X"
    | .nameOnly => "O"
    | .mm none => "N"
    | .mm (some (a, b)) => toString a ++ "_" ++ toString b)))

open Dx.PqStats in
def arrowStats (calcDiv filters : Bool) (sel : Option (List Nat)) (files : List RawFile) : String :=
  let agg := aggregatedStatistics files
  let out := divisionFromStats calcDiv files.length agg
  let frs := (match out with
    | .raised => "RAISED"
    | o => match fragments o (List.range files.length) with
      | some l => rNats l
      | none => "IDXERR")
  let lens : Res (Option (List Nat)) :=
    if filters then .ok none else
    (match agg, out with
     | .ok a, .raised => if calcDiv then .raised else arrowGetLengths filters a none sel
     | .ok a, o => arrowGetLengths filters a (sortIndex o) sel
     | .raised, _ => .raised)
  rAgg agg ++ " => " ++ rDiv out ++ " => frags=" ++ frs ++ " => lengths=" ++ rLens (lengthsPushdown lens)
    ++ " len=" ++ rLen (lenPushdown lens)

open Dx.PqStats in
def fsspecPlan (gather calcDiv single filters : Bool) (sel : Option (List Nat)) (nparts : Nat) (stats : List FStat) : String :=
  let p := plan (List.range nparts) stats gather calcDiv single
  let lens : Res (Option (List Nat)) := fsspecGetLengths filters (p.stats.map (·.numRows)) sel
  if p.divisions == .raised then "RAISED" else
  "empty=" ++ bool01 p.empty ++ " parts=" ++ rNats p.parts ++ " stats=" ++ rFStats p.stats ++ " div=" ++ rDiv p.divisions
    ++ " lengths=" ++ (if p.stats.isEmpty && !filters then "SKIP" else rLens (lengthsPushdown lens))
    ++ " len=" ++ (if p.stats.isEmpty && !filters then "SKIP" else rLen (lenPushdown lens))

def handle : List String → Option String
  | "parquet" :: "arrowstats" :: rest =>
    let kv := kvs rest
    match getBool kv "calc", getBool kv "filters", (get kv "sel").bind parseSel, (get kv "files").bind (parseList parseFile) with
    | some c, some f, some sel, some files => some (arrowStats c f sel files)
    | _, _, _, _ => some "BAD params"
  | "parquet" :: "fsspecplan" :: rest =>
    let kv := kvs rest
    match getBool kv "gather", getBool kv "calc", getBool kv "single", getBool kv "filters",
          (get kv "sel").bind parseSel, getNat kv "nparts", (get kv "stats").bind (parseList parseFStat) with
    | some g, some c, some s, some f, some sel, some n, some stats => some (fsspecPlan g c s f sel n stats)
    | _, _, _, _, _, _, _ => some "BAD params"
  | "parquet" :: "buckets" :: rest =>
    let kv := kvs rest
    match getNat kv "step", getNats kv "parts" with
    | some st, some ps => some (rBuckets (Dx.Parquet.fusionBuckets st ps))
    | _, _ => some "BAD params"
  | "parquet" :: "fuseddiv" :: rest =>
    let kv := kvs rest
    match getNat kv "step", getNats kv "parts", getInts kv "divs" with
    | some st, some ps, some ds =>
      some (joinWith "," ((Dx.Parquet.fusedDivisions ds (Dx.Parquet.fusionBuckets st ps)).map toString))
    | _, _, _ => some "BAD params"
  | "parquet" :: "guard" :: rest =>
    let kv := kvs rest
    match get kv "r", get kv "w" with
    | some r, some w => some (bool01 (Dx.Parquet.guardRefuses (comps r) (comps w)))
    | _, _ => some "BAD params"
  | _ => none

end Dx.Drv.Parquet
