/-
  Driver/Names.lean — protocol verbs for the naming model (free scheme, rules from Generated/NameRules.lean)
  and for the pickle model.

  Tree syntax (prefix, `.`-separated):  n.<class id>.<k>.<operand>*k | l.<literal id> | s.<k>.<operand>*k | b.<data id>.<cache size>
    names trees=<t>;<t>;…
      -> for every tree  <constant prefix string or ?>/<index of the first tree with the same name>/<arity ok 0|1>
    pickle tree=<t>
      -> R <rendered reduce stream>|<OK if reconstruct(reduce t) = cold t and same name else FAIL>
-/
import DxModel.Names
import DxModel.Pickle
import DxModel.Generated.NameRules
import Driver.Proto
open Dx Dx.Proto
namespace Dx.Drv.Names
open Dx.Names Dx.Pickle

/-! parsing into the richer pickle trees; names see them through `toE`-like forgetting -/

mutual
partial def parseOp : List String → Option (POp × List String)
  | "l" :: t :: rest => t.toNat?.map (fun t => (.lit t, rest))
  | "b" :: d :: n :: rest => match d.toNat?, n.toNat? with
      | some d, some n => some (.backend d ((List.range n).map (fun i => (i, i))), rest)
      | _, _ => none
  | "s" :: k :: rest => match k.toNat? with
      | some k => (parseOps k rest).map (fun (l, rest) => (.seq l, rest))
      | none => none
  | "n" :: c :: k :: rest => match c.toNat?, k.toNat? with
      | some c, some k => (parseOps k rest).map (fun (l, rest) => (.sub (.node c l), rest))
      | _, _ => none
  | _ => none
partial def parseOps : Nat → List String → Option (List POp × List String)
  | 0, rest => some ([], rest)
  | k + 1, rest => match parseOp rest with
      | some (o, rest) => (parseOps k rest).map (fun (l, rest) => (o :: l, rest))
      | none => none
end

def parseTree (s : String) : Option PE :=
  match parseOp (s.splitOn ".") with
  | some (.sub e, []) => some e
  | _ => none

mutual
def toFreeE : PE → E FreeLit
  | .node c ops => .node c (toFreeOps ops)
def toFreeO : POp → Operand FreeLit
  | .lit t => .lit (.base t)
  | .sub e => .sub (toFreeE e)
  | .seq l => .seq (toFreeOps l)
  | .backend d _ => .lit (.base d)
def toFreeOps : List POp → List (Operand FreeLit)
  | [] => []
  | o :: os => toFreeO o :: toFreeOps os
end

mutual
partial def rCanon : Canon FreeLit → String
  | .lit t => rLit t
  | .seq l => "[" ++ joinWith "," (l.map rCanon) ++ "]"
partial def rLit : FreeLit → String
  | .base n => s!"{n}"
  | .cls c => s!"C{c}"
  | .name p tok => s!"<{p}:" ++ joinWith "," (tok.map rCanon) ++ ">"
end

def rName (n : Name FreeTok) : String := s!"{n.pfx}#" ++ joinWith "," (n.tok.map rCanon)

/-- the live scheme: rules of the generated table, dynamic prefixes class-specific -/
def liveScheme : Scheme FreeLit FreeTok :=
  { freeScheme (ruleOf Generated.nameRows) with dynPfx := fun c _ => 1000000 + c }

def firstIndex (l : List String) (x : String) : Nat := (l.findIdx? (· == x)).getD 0

def handleNames (kv : List (String × String)) : String :=
  match get kv "trees" with
  | none => "BAD params"
  | some s =>
    match (s.splitOn ";").mapM parseTree with
    | none => "BAD tree"
    | some ts =>
      let es := ts.map toFreeE
      let names := es.map (fun e => rName (nameOf liveScheme e))
      let out := (es.zip names).map (fun (e, n) =>
        match e with
        | .node c ops =>
          let pfx := match findRow Generated.nameRows c with
            | some r => if r.rule.pfxConst.isSome then r.pfx else "?"
            | none => "!"
          s!"{pfx}/{firstIndex names n}/{bool01 (arityOK (liveScheme.rules c) ops.length)}")
      joinWith ";" out

mutual
partial def rPk : Pk → String
  | .lit t => s!"L{t}"
  | .seq l => "S[" ++ joinWith "," (l.map rPk) ++ "]"
  | .call c args => s!"C{c}(" ++ joinWith "," (args.map rPk) ++ ")"
  | .backendCall d => s!"B{d}"
  | .coll e => "coll(" ++ rPk e ++ ")"
end

mutual
partial def eqPE : PE → PE → Bool
  | .node c a, .node d b => c == d && eqOps a b
partial def eqPO : POp → POp → Bool
  | .lit a, .lit b => a == b
  | .sub a, .sub b => eqPE a b
  | .seq a, .seq b => eqOps a b
  | .backend d c, .backend d' c' => d == d' && c == c'
  | _, _ => false
partial def eqOps : List POp → List POp → Bool
  | [], [] => true
  | a :: as, b :: bs => eqPO a b && eqOps as bs
  | _, _ => false
end

def handlePickle (kv : List (String × String)) : String :=
  match (get kv "tree").bind parseTree with
  | none => "BAD tree"
  | some e =>
    let pk := reduceColl e
    let back := reconstruct pk
    let ok := match back with
      | .sub e' => eqPE e' (cold e) &&
          rName (nameOf liveScheme (toFreeE e')) == rName (nameOf liveScheme (toFreeE e))
      | _ => false
    "R " ++ rPk pk ++ "|" ++ (if ok then "OK" else "FAIL")

def handle : List String → Option String
  | "names" :: rest => some (handleNames (kvs rest))
  | "pickle" :: rest => some (handlePickle (kvs rest))
  | _ => none

end Dx.Drv.Names
