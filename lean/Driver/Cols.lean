/-
  Driver/Cols.lean — protocol verbs for the column-projection rules (C04)

    cols detproj parent=<P> deps=<D> extra=<cols>          → one:c | many:a,b
    cols plain   frame=<cols> parent=<P> deps=<D> extra=…  → NONE | child=…;child2=…;keep=…;collapse=…
    cols rule <rule> …                                      → same
    cols projdown / drop / gbdown / mergelabels / concatcols / concatlabels (Concat.columns) / assignlabels (Assign.columns)

  <cols> = a,b,c | -           <P> = L:a,b | S:a | I          <D> = a,b:0/c:1 | -   (cols:ndim1 per dependent)
  an optional list is `*` when absent.
-/
import DxModel.Cols
import Driver.Proto
open Dx Dx.Proto Dx.Cols
namespace Dx.Drv.Cols

def pCols (s : String) : List Name := parseStrs s

def pOptCols (s : String) : Option (List Name) := if s = "*" then none else some (pCols s)

def pSel (s : String) : Option Sel :=
  match s.splitOn ":" with
  | ["L", cs] => some (.many (pCols cs))
  | ["S", c] => some (.one c)
  | _ => none

def pParent (s : String) : Option Parent :=
  if s = "I" then some .index else
  match s.splitOn ":" with
  | ["L", cs] => some (.list (pCols cs))
  | ["T", cs] => some (.listS (pCols cs))
  | ["S", c] => some (.scalar c)
  | ["U", c] => some (.scalarS c)
  | _ => none

def pDep (s : String) : Option Dep :=
  match s.splitOn ":" with
  | [cs, "0"] => some ⟨pCols cs, false⟩
  | [cs, "1"] => some ⟨pCols cs, true⟩
  | _ => none

def pDeps (s : String) : Option (List Dep) :=
  if s = "-" ∨ s = "" then some [] else (s.splitOn "/").mapM pDep

def pStr (s : String) : String := if s = "-" then "" else s

def pMapping (s : String) : Option (List (Name × Name)) :=
  if s = "-" ∨ s = "" then some [] else
  (s.splitOn ",").mapM (fun e => match e.splitOn ">" with
    | [k, v] => some (k, v)
    | _ => none)

def rCols (l : List Name) : String := if l.isEmpty then "-" else joinWith "," l

def rSel : Sel → String
  | .one c => "$" ++ c
  | .many cs => rCols cs

def rOSel : Option Sel → String
  | none => "*"
  | some s => rSel s

def rRw (showDrop : Bool) : Option Rw → String
  | none => "NONE"
  | some rw =>
    let rChild : Nat → Option Sel → String := fun i c => if rw.dropped.getD i false then "!" else rOSel c
    let c0 := rChild 0 (rw.childs.getD 0 none)
    let c1 := match rw.childs with
      | _ :: c :: _ => rChild 1 c
      | _ => "-"
    let collapse := match rw.childs with
      | some (.one _) :: _ => true
      | _ => false
    let more := (rw.childs.drop 2).zipIdx.map (fun ci => s!";child{ci.2 + 3}={rChild (ci.2 + 2) ci.1}")
    s!"child={c0};child2={c1};keep={bool01 rw.keep};collapse={bool01 collapse}" ++ String.join more
      ++ (match rw.keys with | some k => s!";keys={rCols k}" | none => "")
      ++ (if rw.gone then ";gone=1" else "")
      ++ (if showDrop then s!";drop={bool01 rw.drop}" else "")

def rDown : Down → String
  | .none => "NONE"
  | .ident => "IDENT"
  | .squash b => "SQUASH " ++ rSel b
  | .assertErr => "ERR Assertion"

structure Common where
  p : Parent
  deps : List Dep

def common (kv : List (String × String)) : Option Common :=
  match (get kv "parent").bind pParent, (get kv "deps").bind pDeps with
  | some p, some d => some ⟨p, d⟩
  | _, _ => none

def gc (kv : List (String × String)) (k : String) : Option (List Name) := (get kv k).map pCols
def goc (kv : List (String × String)) (k : String) : Option (Option (List Name)) := (get kv k).map pOptCols

def handleRule (rule : String) (kv : List (String × String)) : String :=
  -- a parent that is neither a Projection nor an Index: no rule fires
  if get kv "parent" = some "O" then rRw false (onProjection (fun _ => none) ParentClass.other) else
  match common kv with
  | none => "BAD parent/deps"
  | some ⟨p, deps⟩ =>
    match rule with
    | "plain" => match gc kv "frame", gc kv "extra" with
        | some f, some e => rRw false (plain f p deps e)
        | _, _ => "BAD params"
    | "plaindict" => match gc kv "frame" with
        | some f => rRw false (plainDict f p deps)
        | none => "BAD params"
    | "keyed" => match gc kv "frame", gc kv "keys" with
        | some f, some k => rRw false (keyed f k p deps)
        | _, _ => "BAD params"
    | "filter" => match getBool kv "blocked", gc kv "frame" with
        | some b, some f => rRw false (filterRule b f p deps)
        | _, _ => "BAD params"
    | "assign" => match gc kv "frame", gc kv "keys" with
        | some f, some k => rRw false (assign f k p deps)
        | _, _ => "BAD params"
    | "rename" => match gc kv "frame", (get kv "map").bind pMapping with
        | some f, some m => rRw false (rename f m p deps)
        | _, _ => "BAD params"
    | "affix" => match getBool kv "suffix", getNat kv "n", gc kv "frame" with
        | some s, some n, some f => rRw false (affix s n f p deps)
        | _, _, _ => "BAD params"
    | "binop" => match gc kv "self", goc kv "left", goc kv "right" with
        | some s, some l, some r => rRw false (binop s l r p deps)
        | _, _, _ => "BAD params"
    | "astype" => match gc kv "frame", goc kv "dkeys" with
        | some f, some d => rRw false (astype f d p deps)
        | _, _ => "BAD params"
    | "dropna" => match gc kv "frame", goc kv "subset" with
        | some f, some s => rRw false (dropna f s p deps)
        | _, _ => "BAD params"
    | "combinefirst" => match gc kv "frame", gc kv "other" with
        | some f, some o => rRw false (combineFirst f o p deps)
        | _, _ => "BAD params"
    | "opalign" => match gc kv "frame", goc kv "other" with
        | some f, some o => rRw false (opAlign f o p deps)
        | _, _ => "BAD params"
    | "resetindex" => match gc kv "frame", getBool kv "drop", getBool kv "named" with
        | some f, some d, some n => rRw true (resetIndex f d n p deps)
        | _, _, _ => "BAD params"
    | "io" => match gc kv "self" with
        | some s => rRw false (ioAbsorb s p deps)
        | _ => "BAD params"
    | "shuffle" => match gc kv "frame", gc kv "pidx" with
        | some f, some k => rRw false (shuffle f k p deps)
        | _, _ => "BAD params"
    | "sib" => match gc kv "frame", gc kv "other" with
        | some f, some k => rRw false (setIndexBlockwise f k p deps)
        | _, _ => "BAD params"
    | "dropdup" => match gc kv "frame", goc kv "subset" with
        | some f, some s => rRw false (dropDup f s p deps)
        | _, _ => "BAD params"
    | "nlargest" => match gc kv "frame", goc kv "columns" with
        | some f, some s => rRw false (nlargest f s p deps)
        | _, _ => "BAD params"
    | "rolling" => match gc kv "frame", goc kv "gb" with
        | some f, some g => rRw false (rolling f g p deps)
        | _, _ => "BAD params"
    | "merge" => match gc kv "L", gc kv "R", gc kv "lon", gc kv "ron", get kv "ls", get kv "rs" with
        | some l, some r, some lo, some ro, some ls, some rs =>
            rRw false (merge ⟨lo, ro, pStr ls, pStr rs⟩ l r p deps)
        | _, _, _, _, _, _ => "BAD params"
    | "concat" => match getBool kv "axis1", getBool kv "inner", get kv "frames" with
        | some a, some i, some fs => rRw false (concat a i ((fs.splitOn "/").map pCols) p deps)
        | _, _, _ => "BAD params"
    | _ => "BAD rule"

def handle : List String → Option String
  | "cols" :: "detproj" :: rest =>
      let kv := kvs rest
      match common kv, gc kv "extra" with
      | some ⟨p, deps⟩, some e => some (match detProj p deps e with
          | .one c => "one:" ++ c
          | .many cs => "many:" ++ rCols cs)
      | _, _ => some "BAD params"
  | "cols" :: "plain" :: rest => some (handleRule "plain" (kvs rest))
  | "cols" :: "rule" :: rule :: rest => some (handleRule rule (kvs rest))
  | "cols" :: "projdown" :: rest =>
      let kv := kvs rest
      match gc kv "frame", getBool kv "same", (get kv "self").bind pSel, get kv "inner" with
      | some f, some s, some self, some inner =>
          (if inner = "*" then some (rDown (projDown f s self none))
           else match pSel inner with
             | some i => some (rDown (projDown f s self (some i)))
             | none => some "BAD inner")
      | _, _, _, _ => some "BAD params"
  | "cols" :: "drop" :: rest =>
      let kv := kvs rest
      match gc kv "frame", gc kv "colop" with
      | some f, some c => some (rCols (dropDown f c))
      | _, _ => some "BAD params"
  | "cols" :: "gbdown" :: rest =>
      let kv := kvs rest
      match gc kv "frame", gc kv "by", gc kv "arg" with
      | some f, some b, some a => some (match gbDown f b a with
          | none => "NONE"
          | some l => rCols l)
      | _, _, _ => some "BAD params"
  | "cols" :: "mergelabels" :: rest =>
      let kv := kvs rest
      match gc kv "L", gc kv "R", gc kv "lon", gc kv "ron", get kv "ls", get kv "rs" with
      | some l, some r, some lo, some ro, some ls, some rs =>
          some (rCols (mergeLabels ⟨lo, ro, pStr ls, pStr rs⟩ l r))
      | _, _, _, _, _, _ => some "BAD params"
  | "cols" :: "assignlabels" :: rest =>
      let kv := kvs rest
      match gc kv "frame", gc kv "keys" with
      | some f, some k => some (rCols (assignLabels f k))
      | _, _ => some "BAD params"
  | "cols" :: "concatlabels" :: rest =>
      let kv := kvs rest
      match getBool kv "axis1", getBool kv "inner", get kv "frames" with
      | some a, some i, some fs => some (rCols (concatLabels a i ((fs.splitOn "/").map pCols)))
      | _, _, _ => some "BAD params"
  | "cols" :: "concatcols" :: rest =>
      let kv := kvs rest
      match getBool kv "axis1", getBool kv "inner", get kv "frames" with
      | some a, some i, some fs => some (rCols (concatCols a i ((fs.splitOn "/").map pCols)))
      | _, _, _ => some "BAD params"
  | _ => none

end Dx.Drv.Cols
