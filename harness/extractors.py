"""Generators of DxModel/Generated/*.lean (T1).  Each returns (lean_source, number_of_entries)."""
from harness.extract import generator
