"""The vetted program space (DESIGN.md Appendix C): a finite, grammar-bounded enumeration of queries.

A program is a function of a table environment that works unchanged on pandas objects and on
dask-expr collections (dask-expr mirrors the pandas API), so pandas is directly the oracle.
Programs are enumerated in a fixed order; VERIF_SEED only selects slices.
"""
from __future__ import annotations

import itertools
from dataclasses import dataclass, field

import numpy as np
import pandas as pd

from harness import e2e


@dataclass
class Op:
    name: str
    fn: object  # frame -> frame/series/scalar (same code for pandas and dask-expr)
    unordered: bool = False  # result row order unspecified by dask-expr
    noindex: bool = False  # index labels of the result unspecified (reset_index restarts per partition; merges)
    kind: str = "frame"  # what it returns: frame | series | scalar
    family: str = ""  # operator family for distributions
    dask_only_kwargs: dict = field(default_factory=dict)


def _dd(x):
    """is this a dask-expr object?"""
    return hasattr(x, "expr")


# ---- frame -> frame operators over columns a (int), b (int, duplicate keys), c (float with nulls)
UNARY = [
    Op("proj_ab", lambda d: d[["a", "b"]], family="projection"),
    Op("proj_ba", lambda d: d[["b", "a"]], family="projection"),
    Op("proj_c", lambda d: d[["c"]], family="projection"),
    Op("filt_a", lambda d: d[d.a > 2], family="filter"),
    Op("filt_or", lambda d: d[(d.a > 5) | (d.b == 1)], family="filter"),
    Op("filt_and_or", lambda d: d[((d.a > 1) & (d.b == 1)) | ((d.a > 1) & (d.b == 3))], family="filter"),
    Op("filt_cnull", lambda d: d[d.c.isna()], family="filter"),
    Op("filt_cne", lambda d: d[d.c != 1.0], family="filter"),
    Op("filt_isin", lambda d: d[d.b.isin([0, 3])], family="filter"),
    # a predicate that is NOT row-local (cumulative): order sensitive
    Op("filt_cum", lambda d: d[d.b.cumsum() > 5], family="cumfilter"),
    Op("assign_z", lambda d: d.assign(z=d.a + d.b), family="assign"),
    Op("assign_a", lambda d: d.assign(a=d.a * 2), family="assign"),
    Op("add1", lambda d: d + 1, family="elemwise"),
    Op("rename_aA", lambda d: d.rename(columns={"a": "A"}), family="rename"),
    Op("prefix", lambda d: d.add_prefix("p_"), family="rename"),
    Op("suffix", lambda d: d.add_suffix("_s"), family="rename"),
    Op("astype_f", lambda d: d.astype({"a": "float64"}), family="astype"),
    Op("fillna0", lambda d: d.fillna(0), family="elemwise"),
    Op("dropna", lambda d: d.dropna(), family="rowselect"),
    Op("dropna_c", lambda d: d.dropna(subset=["c"]), family="rowselect"),
    Op("reset_index", lambda d: d.reset_index(drop=True), family="index", noindex=True),
    Op("reset_index_keep", lambda d: d.reset_index(), family="index", noindex=True),
    # dask's set_index sorts by the new index (documented difference from pandas): order unspecified vs pandas
    Op("set_index_a", lambda d: d.set_index("a"), family="sort", unordered=True),
    Op("sort_b", lambda d: d.sort_values(["b", "a"]), family="sort"),
    Op("sort_a_desc", lambda d: d.sort_values("a", ascending=False), family="sort"),
    Op("cumsum", lambda d: d[["a", "b"]].cumsum(), family="cumulative"),
    Op("shift1", lambda d: d[["a", "b"]].shift(1), family="overlap"),
    Op("diff1", lambda d: d[["a", "b"]].diff(1), family="overlap"),
    Op("repart2", lambda d: d.repartition(npartitions=2) if _dd(d) else d, family="repartition"),
    Op("repart5", lambda d: d.repartition(npartitions=5) if _dd(d) else d, family="repartition"),
    Op("shuffle_b", lambda d: d.shuffle("b", shuffle_method="tasks") if _dd(d) else d, family="shuffle", unordered=True),
    Op("shuffle_b_disk", lambda d: d.shuffle("b", shuffle_method="disk") if _dd(d) else d, family="shuffle", unordered=True),
    Op("dropdup_b", lambda d: d.drop_duplicates(subset=["b"]), family="dropdup", unordered=True),
    Op("mappart", lambda d: d.map_partitions(lambda x: x.assign(m=x.a * 3)) if _dd(d) else d.assign(m=d.a * 3), family="map_partitions"),
    Op("clip", lambda d: d.clip(lower=1, upper=5), family="elemwise"),
    Op("abs", lambda d: d.abs(), family="elemwise"),
    # npartitions=-1: dask's head(n) looks at the first partition only (documented); with all
    # partitions it is pandas' head
    Op("head3", lambda d: d.head(3, npartitions=-1, compute=False) if _dd(d) else d.head(3), family="head"),
    Op("tail2", lambda d: d.tail(2, compute=False) if _dd(d) else d.tail(2), family="head"),
]

# ---- frame -> final result
TERMINAL = [
    Op("id", lambda d: d, family="identity"),
    Op("sum", lambda d: d.sum(numeric_only=True), kind="series", family="reduction"),
    Op("count", lambda d: d.count(), kind="series", family="reduction"),
    Op("max", lambda d: d.max(numeric_only=True), kind="series", family="reduction"),
    Op("len", lambda d: len(d), kind="scalar", family="len"),
    Op("col0_sum", lambda d: d[d.columns[0]].sum(), kind="scalar", family="reduction"),
    Op("col0", lambda d: d[d.columns[0]], kind="series", family="projection"),
    Op("nunique0", lambda d: d[d.columns[0]].nunique(), kind="scalar", family="reduction"),
    Op("vc_last", lambda d: d[d.columns[-1]].value_counts(), kind="series", family="value_counts", unordered=True),
    Op("gb_sum", lambda d: d.groupby(d.columns[-1] if "b" not in list(d.columns) else "b").sum(), family="groupby", unordered=True),
    # a list-sliced aggregation under a column selection (D96)
    Op("gb_slice_sel", lambda d: d.groupby("b")[["a", "c"]].sum()[["a"]] if {"a", "b", "c"} <= set(getattr(d, "columns", [])) else d.sum(),
       family="groupby", unordered=True),
    Op("gb_count", lambda d: d.groupby("b").count() if "b" in list(d.columns) else d.count(), family="groupby", unordered=True),
    Op("gb_agg", lambda d: d.groupby("b").agg({"a": "max"}) if {"a", "b"} <= set(d.columns) else d.max(numeric_only=True), family="groupby", unordered=True),
    Op("index", lambda d: d.index, kind="series", family="index"),
    Op("self_add", lambda d: d + d, family="binop_shared"),
    Op("shared_sum", lambda d: d[d.columns[0]] + d[d.columns[0]].sum(), kind="series", family="binop_broadcast"),
]


def _merge(how, left_shape="plain"):
    def fn(t):
        l, r = t["L"], t["R"]
        return l.merge(r, on="b", how=how)

    return fn


def _binary_programs():
    out = []
    for how in ("inner", "left", "right", "outer"):
        out.append((f"merge_{how}", _merge(how), True, "merge"))
        out.append((f"merge_{how}_proj", lambda t, how=how: t["L"].merge(t["R"], on="b", how=how)[["a", "d"]], True, "merge"))
        out.append((f"merge_{how}_sfx", lambda t, how=how: t["L"].merge(t["R"], on="b", how=how)[["c_x", "c_y"]], True, "merge"))
        out.append((f"merge_{how}_filt", lambda t, how=how: (lambda m: m[m.a > 2])(t["L"].merge(t["R"], on="b", how=how)), True, "merge"))
        out.append((f"merge_{how}_filt_r", lambda t, how=how: (lambda m: m[m.d > 20])(t["L"].merge(t["R"], on="b", how=how)), True, "merge"))
    out.append(("merge_index", lambda t: t["L"].merge(t["R"], left_index=True, right_index=True, how="inner"), True, "merge"))
    out.append(("concat", lambda t: _concat([t["L"], t["R"]]), False, "concat"))
    out.append(("concat_proj", lambda t: _concat([t["L"], t["R"]])[["b", "c"]], False, "concat"))
    out.append(("concat_axis1", lambda t: _concat([t["L"][["a"]], t["L"][["b"]]], axis=1), False, "concat"))
    out.append(("binop_LL", lambda t: t["L"].a + t["L"].b, False, "binop"))
    out.append(("binop_filter_other", lambda t: t["L"][t["L"].a > t["L"].b.mean()], False, "binop"))
    out.append(("where", lambda t: t["L"].a.where(t["L"].b > 1, -1), False, "binop"))
    # nested fused groups: a collection built on an already optimised one
    out.append(("nested_fused", lambda t: t["L"].b + _opt((t["L"].a - t["L"].b) + 1), False, "fusion"))
    # … whose external dependencies are non-blockwise nodes appearing at different positions of the outer
    # and the nested group
    out.append(("nested_fused_deps", lambda t: (lambda x, y: y + _opt((x - y) + 1))(t["L"].a.cumsum(), t["L"].b.cumsum()), False, "fusion"))
    out.append(("nested_fused_deps3", lambda t: (lambda x, y, z: (z * y) + _opt((x - z) + _opt(y - x)))(t["L"].a.cumsum(), t["L"].b.cumsum(), t["L"].a.cummax()), False, "fusion"))
    # a non-partitionwise stage between two partitionwise chains, the stage having a second consumer that is the
    # LATER operand of a common ancestor (the upper group is fused in an earlier pass than the lower one)
    out.append(("upper_first_shared_stage", lambda t: (lambda st: ((st + 1) * 2).sum() + st.sum())((t["L"][["a", "b"]] + 0).cumsum()), False, "fusion"))
    out.append(("upper_first_shared_stage_rep", lambda t: (lambda st: ((st + 1) * 2).sum() + st.sum())(_rep(t["L"][["a", "b"]] * 1, 2)), False, "fusion"))
    out.append(("stage_first_shared_stage", lambda t: (lambda st: st.sum() + ((st + 1) * 2).sum())((t["L"][["a", "b"]] + 0).cumsum()), False, "fusion"))
    out.append(("nested_fused3", lambda t: _opt(_opt(t["L"].a + 1) * t["L"].b) - t["L"].a, False, "fusion"))
    # two repartitions of one frame in one graph (upwards: split keys; downwards)
    out.append(("two_reparts_up", lambda t: _concat([_rep(t["L"], 5), _rep(t["L"], 7)]), False, "repartition"))
    out.append(("two_reparts_size", lambda t: _concat([_repsize(t["L"], "100B"), _repsize(t["L"], "60B")]), False, "repartition"))
    out.append(("two_reparts_mixed", lambda t: _concat([_rep(t["L"], 2), _rep(t["L"], 6)])[["a"]], False, "repartition"))
    # different partition selections of ONE source combined again (no pandas meaning: family "partitions")
    out.append(("concat_parts_axis1", lambda t: _concat([_parts(t["L"], [0, 1])[["a"]], _parts(t["L"], [1]).b], axis=1), False, "partitions"))
    out.append(("concat_parts_axis0", lambda t: _concat([_parts(t["L"], [0, 1])[["a", "b"]], _parts(t["L"], [2, 0])[["b", "a"]]]), False, "partitions"))
    out.append(("add_parts_broadcast", lambda t: _parts(t["L"], [0, 1]).a + _parts(t["L"], [1]).a.sum(), False, "partitions"))
    out.append(("parts_of_elemwise", lambda t: _parts(t["L"].assign(z=t["L"].a + 1) + 1, [2, 0]), False, "partitions"))
    out.append(("parts_of_shuffle", lambda t: _parts(_shuf(t["L"]), [1]) , True, "partitions"))
    # a selection above an operation that reads neighbouring partitions / all earlier partitions (defect D82)
    out.append(("parts_of_shift", lambda t: _parts(t["L"].shift(1), [1, 2]), False, "partitions"))
    out.append(("parts_of_diff_rev", lambda t: _parts(t["L"][["a", "b"]].diff(1), [2, 1]), False, "partitions"))
    out.append(("parts_of_cumsum", lambda t: _parts(t["L"][["a", "b"]].cumsum(), [1]), False, "partitions"))
    out.append(("two_shifts", lambda t: t["L"].a.shift(1) + t["L"].a.shift(2), False, "overlap"))
    out.append(("two_diffs_frame", lambda t: t["L"][["a", "b"]].diff(1) + t["L"][["a", "b"]].shift(1), False, "overlap"))
    # an in-place style update whose input partition has a second consumer in the same graph
    out.append(("assign_overwrite_shared", lambda t: t["L"].assign(a=t["L"].a * 10).sum() - t["L"].sum(), False, "shared"))
    out.append(("assign_overwrite_concat", lambda t: _concat([t["L"], t["L"].assign(b=t["L"].b + 1)]), False, "shared"))
    out.append(("fillna_shared", lambda t: t["L"].fillna(0).sum() + t["L"].count(), False, "shared"))
    out.append(("shared_filter_sum", lambda t: (lambda x: x.a.sum() + x.b.sum())(t["L"][t["L"].a > 2]), False, "shared"))
    out.append(("shared_two_consumers", lambda t: (lambda x: x[["a"]].sum() + x[["a"]].count())(t["L"].assign(z=t["L"].a * 2)), False, "shared"))
    return out


def _opt(x):
    return x.optimize() if _dd(x) else x


def _parts(x, P):
    if not _dd(x):
        return x
    P = [p for p in P if p < x.npartitions] or [0]
    return x.partitions[P]


def _shuf(x):
    return x.shuffle("b", shuffle_method="tasks") if _dd(x) else x


def _repsize(x, size):
    return x.repartition(partition_size=size) if _dd(x) else x


def _rep(x, n):
    return x.repartition(npartitions=n) if _dd(x) else x


def _concat(xs, **kw):
    if _dd(xs[0]):
        import dask_expr as dx

        return dx.concat(xs, **kw)
    return pd.concat(xs, **kw)


@dataclass
class Program:
    name: str
    fn: object  # env(dict of frames) -> result
    unordered: bool
    families: tuple
    depth: int
    noindex: bool = False
    pandas_ok: bool = True  # pandas on the concatenated input is a valid oracle (see _tail_ok/_order_ok)
    order_ok: bool = True  # no order-/label-sensitive operator after one whose row order / labels are unspecified


_ROWCOUNT_PRESERVING = {"projection", "assign", "elemwise", "rename", "astype", "cumulative", "map_partitions", "overlap"}


def _tail_ok(chain):
    """dask's tail(n) takes the last n rows of the *last partition* (documented); it coincides with
    pandas' tail only while every partition still has its original rows."""
    for i, op in enumerate(chain):
        if op.name == "tail2" and any(o.family not in _ROWCOUNT_PRESERVING for o in chain[:i]):
            return False
    return True


_ORDER_SENSITIVE = {"cumulative", "overlap", "head", "dropdup", "cumfilter"}  # drop_duplicates(subset) keeps the FIRST row per key
_TIE_MAKERS = {"clip", "diff1", "shift1", "fillna0", "abs", "assign_a", "astype_f", "cumsum", "add1", "mappart", "assign_z"}


def _order_ok(chain, term):
    """Exclude programs whose pandas meaning depends on something dask-expr leaves unspecified:
    an order-sensitive operator after an operator with unspecified row order, or an operator that
    turns index labels into data after an operator with unspecified index labels."""
    unordered = noindex = ties = False
    for op in list(chain) + [term]:
        if ties and op.family == "sort":
            unordered = True  # order among equal sort keys is unspecified
        if op.name in _TIE_MAKERS:
            ties = True
        if unordered and (op.family in _ORDER_SENSITIVE or op.name in ("reset_index_keep",)):
            return False
        if noindex and (op.family in ("index", "sort") and op.name not in ("reset_index", "sort_b", "sort_a_desc")):
            return False
        if noindex and op.family == "overlap":
            return False  # shift/diff align on index labels
        unordered = unordered or op.unordered
        noindex = noindex or op.noindex
    return True


def _excluded(chain, term):
    """Programs kept out of the vetted space, each with its reason."""
    names = [o.name for o in chain]
    # known finding D26 (open, nondeterministic): projection push-down duplicates a shared disk shuffle;
    # the two copies may order rows differently inside a partition and `Index[mask]` is positional.
    if term.name == "index" and "shuffle_b_disk" in names and any(o.family == "filter" for o in chain):
        return True
    return False


def _has_tie_sort(chain):
    ties = False
    for op in chain:
        if ties and op.family == "sort":
            return True
        if op.name in _TIE_MAKERS:
            ties = True
    return False


def enumerate_programs(max_depth=2):
    """Fixed-order enumeration of the vetted program space."""
    progs = []
    chains = [()]
    for d in range(1, max_depth + 1):
        chains += list(itertools.product(UNARY, repeat=d))
    for chain in chains:
        for term in TERMINAL:
            def fn(t, chain=chain, term=term):
                x = t["L"]
                for op in chain:
                    x = op.fn(x)
                return term.fn(x)

            order_ok = _order_ok(chain, term)
            pandas_ok = _tail_ok(chain) and order_ok
            if _excluded(chain, term):
                continue
            name = "/".join([o.name for o in chain] + [term.name])
            unordered = any(o.unordered for o in chain) or term.unordered or _has_tie_sort(chain)
            noindex = any(o.noindex for o in chain) or term.noindex
            if noindex and term.name == "index":
                continue  # asking for index labels that dask-expr leaves unspecified
            progs.append(Program(name, fn, unordered, tuple(o.family for o in chain) + (term.family,), len(chain) + 1, noindex, pandas_ok, order_ok))
    for name, fn, unordered, fam in _binary_programs():
        progs.append(Program(name, fn, unordered, (fam,), 2, fam == "merge", pandas_ok=(fam != "partitions")))
    return progs


_VALID_CACHE = {}


def pandas_env():
    return {"L": e2e.T_int(), "R": e2e.T_right()}


def valid_programs(max_depth=2, oracle="pandas"):
    """Programs on which pandas itself succeeds; cached per depth.
    oracle="pandas": only those whose pandas result is a valid oracle for dask-expr's documented semantics;
    oracle="any": all of them (for oracles such as the unoptimised plan or structural checks)."""
    if oracle == "pandas":
        return [p for p in valid_programs(max_depth, "any") if p.pandas_ok]
    if max_depth in _VALID_CACHE:
        return _VALID_CACHE[max_depth]
    env = pandas_env()
    out = []
    for p in enumerate_programs(max_depth):
        try:
            r = p.fn(env)
            if isinstance(r, (pd.DataFrame, pd.Series)) and isinstance(r.index, pd.MultiIndex):
                continue
            out.append(p)
        except Exception:  # noqa: BLE001
            continue
    _VALID_CACHE[max_depth] = out
    return out


def dask_env(cutsL=None, cutsR=None, known=True):
    L, R = e2e.T_int(), e2e.T_right()
    cutsL = cutsL or [0, 3, 6, 8]
    cutsR = cutsR or [0, 2, 6]
    return {"L": e2e.frame_from_cuts(L, cutsL, known), "R": e2e.frame_from_cuts(R, cutsR, known)}
