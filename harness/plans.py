"""Plans (expression trees at every optimizer stage) of the vetted programs, and their execution."""
from __future__ import annotations

import dask

from harness import e2e, programs

STAGES = ["simplified-logical", "tuned-logical", "physical", "simplified-physical", "fused"]
LAYOUTS = [
    ([0, 3, 6, 8], [0, 2, 6], True),
    ([0, 0, 3, 8], [0, 6], True),
    ([0, 8], [0, 3, 3, 6], True),
    ([0, 1, 2, 4, 8], [0, 1, 6], False),
    ([0, 2, 5, 5, 8], [0, 4, 6], False),
]


def build(p: programs.Program, layout=0):
    """-> dask-expr collection or python scalar for program p under LAYOUTS[layout]"""
    cl, cr, known = LAYOUTS[layout]
    return p.fn(programs.dask_env(cl, cr, known))


def stage_exprs(expr, stages=STAGES):
    """[(stage, lowered expression ready for graph generation)]; logical stages are lowered afterwards
    (a logical plan has no graph)."""
    from dask_expr._expr import optimize_until

    out = [("unoptimized", expr.lower_completely())]
    for st in stages:
        e = optimize_until(expr, st)
        if st in ("simplified-logical", "tuned-logical"):
            e = e.lower_completely()
        out.append((st, e))
    return out


def execute(expr):
    """Materialise the graph of an already lowered expression and run it synchronously."""
    g = dict(expr.__dask_graph__())
    keys = expr.__dask_keys__()
    return g, keys, list(dask.get(g, keys))


def finalize(expr, parts):
    """Combine computed partitions the way compute() does."""
    from dask_expr._collection import new_collection

    coll = new_collection(expr)
    post, extra = coll.__dask_postcompute__()
    return post(parts, *extra)


def seeded_slice(ctx, progs, n):
    idx = list(range(len(progs)))
    ctx.rng.shuffle(idx)
    return [progs[i] for i in sorted(idx[:n])]
