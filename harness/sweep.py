"""Development sweep over the vetted program space (not a registered check).

  python -m harness.sweep --depth 2 --oracle pandas|unopt [--filter substr] [--procs 16]

Prints failures grouped by a coarse signature so that each can be triaged
(genuine defect -> fix / known finding; oracle problem -> repair the oracle or exclude the program
with a recorded reason in programs_exclusions.py).
"""
from __future__ import annotations

import argparse
import collections
import multiprocessing as mp
import sys
import time
import traceback

import pandas as pd


def compute_dask(p, env, optimize=True):
    import dask

    from harness import e2e

    r = p.fn(env)
    if not hasattr(r, "expr"):
        return r  # python scalar (len)
    if optimize:
        return r.compute()
    expr = r.expr.lower_completely()
    g = dict(expr.__dask_graph__())
    from dask_expr._collection import new_collection

    out = dask.get(g, expr.__dask_keys__())
    post, extra = new_collection(expr).__dask_postcompute__()[0] if hasattr(new_collection(expr), "__dask_postcompute__") else (None, None)
    return post(out, *extra)


def check_one(args):
    idx, depth, oracle, cutsL, cutsR, known = args
    from harness import e2e, programs

    p = programs.valid_programs(depth)[idx]
    try:
        want = p.fn(programs.pandas_env())
    except Exception as ex:  # noqa: BLE001
        return (idx, p.name, "oracle-error", repr(ex)[:200])
    try:
        env = programs.dask_env(cutsL, cutsR, known)
        built = p.fn(env)
    except Exception as ex:  # noqa: BLE001
        return (idx, p.name, "unsupported", f"{type(ex).__name__}: {str(ex)[:100]}")
    try:
        got = compute_dask(p, env, optimize=True)
    except Exception as ex:  # noqa: BLE001
        if isinstance(ex, NotImplementedError) and "Partition size is less than overlapping" in str(ex):
            return (idx, p.name, "ok", "documented refusal")
        tb = traceback.format_exc().splitlines()
        site = next((l.strip() for l in reversed(tb) if "dask_expr/" in l), "")
        try:
            compute_dask(p, programs.dask_env(cutsL, cutsR, known), optimize=False)
        except Exception:  # noqa: BLE001
            return (idx, p.name, "both-raise", type(ex).__name__)
        return (idx, p.name, "raises", f"{type(ex).__name__}: {str(ex)[:120]} @ {site[-90:]}")
    if oracle == "unopt":
        try:
            want = compute_dask(p, programs.dask_env(cutsL, cutsR, known), optimize=False)
        except Exception as ex:  # noqa: BLE001
            return (idx, p.name, "unopt-raises", type(ex).__name__)
    ok = e2e.same(got, want, sort_rows=p.unordered, drop_index=p.noindex)
    if not ok:
        return (idx, p.name, "differs", f"got={e2e.describe(got, 6)!r:.300} want={e2e.describe(want, 6)!r:.300}")
    return (idx, p.name, "ok", "")


def main():
    ap = argparse.ArgumentParser()
    ap.add_argument("--depth", type=int, default=2)
    ap.add_argument("--oracle", default="pandas")
    ap.add_argument("--filter", default="")
    ap.add_argument("--procs", type=int, default=16)
    ap.add_argument("--cutsL", default="0,3,6,8")
    ap.add_argument("--cutsR", default="0,2,6")
    ap.add_argument("--unknown", action="store_true")
    ap.add_argument("--limit", type=int, default=0)
    a = ap.parse_args()
    from harness import programs

    progs = programs.valid_programs(a.depth)
    idxs = [i for i, p in enumerate(progs) if a.filter in p.name]
    if a.limit:
        idxs = idxs[:: max(1, len(idxs) // a.limit)]
    cutsL = [int(x) for x in a.cutsL.split(",")]
    cutsR = [int(x) for x in a.cutsR.split(",")]
    t0 = time.time()
    with mp.Pool(a.procs) as pool:
        res = pool.map(check_one, [(i, a.depth, a.oracle, cutsL, cutsR, not a.unknown) for i in idxs], chunksize=20)
    by = collections.Counter(r[2] for r in res)
    print(f"{len(res)} programs in {time.time()-t0:.0f}s: {dict(by)}")
    groups = collections.defaultdict(list)
    for r in res:
        if r[2] not in ("ok", "both-raise"):
            key = r[2] + " | " + (r[3].split(" @ ")[-1] if r[2] == "raises" else r[1].split("/")[-1])
            groups[key].append(r)
    for k, v in sorted(groups.items(), key=lambda kv: -len(kv[1])):
        print(f"--- {len(v)} x {k}")
        for r in v[:4]:
            print("    ", r[1], "::", r[3][:400])


if __name__ == "__main__":
    main()
