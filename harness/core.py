"""Core of the verification harness: build, audit, driver, evidence, violation protocol.

Every check has the same run structure (DESIGN.md section 2):
  1. regenerate Generated/*.lean from the live /repo classes (T1)
  2. lake build of the property's Lean modules (proof obligations re-checked by the kernel)
  3. audit (#print axioms of every Cxx_* theorem, forbidden-token grep)
  4. correspondence families (T2/T3/T4): real code vs executable model through the driver
  5. vetted end-to-end support corpus
  6. on a break: failing-input search, then the VIOLATION line
"""
from __future__ import annotations

import fcntl
import hashlib
import importlib
import json
import os
import random
import re
import subprocess
import sys
import time
import traceback
from dataclasses import dataclass, field
from pathlib import Path

ROOT = Path(__file__).resolve().parent.parent
LEAN = ROOT / "lean"
DRIVER = LEAN / ".lake" / "build" / "bin" / "dxdriver"
EVIDENCE = ROOT / "evidence"
REPLAYS = ROOT / "replays"
REPO = Path(os.environ.get("DX_REPO", "/repo"))

STD_AXIOMS = {"propext", "Classical.choice", "Quot.sound"}
FORBIDDEN = re.compile(
    r"\bsorry\b|\badmit\b|^\s*axiom\s|native_decide|bv_decide|implemented_by|\bunsafe\s|maxHeartbeats\s+0\b",
    re.M,
)


def sh(cmd, cwd=None, timeout=3600, env=None, input=None):
    e = dict(os.environ)
    if env:
        e.update(env)
    try:
        p = subprocess.run(
            cmd, cwd=cwd, timeout=timeout, env=e, input=input, capture_output=True, text=True
        )
        return p.returncode, p.stdout + p.stderr
    except subprocess.TimeoutExpired as ex:
        return 124, f"timeout after {timeout}s: {cmd}\n{ex.stdout or ''}"


class flock:
    def __init__(self, path):
        self.path = path

    def __enter__(self):
        self.f = open(self.path, "w")
        fcntl.flock(self.f, fcntl.LOCK_EX)

    def __exit__(self, *a):
        fcntl.flock(self.f, fcntl.LOCK_UN)
        self.f.close()


# --------------------------------------------------------------------------- build / audit


@dataclass
class BuildResult:
    ok: bool
    broken: list  # [{"module":…, "decl":…, "msg":…}]
    log: str
    wall_s: float


def _strip_comments(src: str) -> str:
    src = re.sub(r"/-.*?-/", "", src, flags=re.S)
    src = re.sub(r"--.*", "", src)
    return src


def _decl_at(path: Path, line: int) -> str:
    try:
        lines = path.read_text().splitlines()
    except OSError:
        return "?"
    for i in range(min(line, len(lines)) - 1, -1, -1):
        m = re.match(r"\s*(?:@\[[^\]]*\]\s*)?(?:private\s+|protected\s+)?(theorem|lemma|def|example|instance|abbrev)\s+([^\s:(\[{]+)?", lines[i])
        if m:
            return m.group(2) or "example"
    return "?"


def lake_build(targets: list[str], before=None) -> BuildResult:
    """Build the driver and the given Lean modules; map errors to declarations.
    `before` (the T1 regeneration of Generated/*.lean) runs under the same lock as the build, so that
    concurrent checks — possibly against different checkouts of dask-expr — never build each other's tables."""
    t0 = time.time()
    with flock(LEAN / ".build.lock"):
        if before is not None:
            before()
        rc0, out0 = sh(["lake", "build", "dxdriver"], cwd=LEAN, timeout=3000)
        rc, out = sh(["lake", "build"] + targets, cwd=LEAN, timeout=3000)
        _snapshot_driver()
    broken = []
    for m in re.finditer(r"error: ([\w/\.]+\.lean):(\d+):(\d+): (.*)", out0 + out):
        f, ln, _, msg = m.groups()
        decl = _decl_at(LEAN / f, int(ln))
        mod = f[:-5].replace("/", ".")
        ent = {"module": mod, "decl": decl, "line": int(ln), "msg": msg[:300]}
        if not any(b["module"] == mod and b["decl"] == decl for b in broken):
            broken.append(ent)
    ok = rc == 0 and rc0 == 0
    if not ok and not broken:
        broken.append({"module": "?", "decl": "?", "msg": (out0 + out)[-600:]})
    return BuildResult(ok, broken, out0 + out, time.time() - t0)


_DRIVER_RUN = None


def _snapshot_driver():
    """Private copy of the driver binary for this run (taken under the build lock): a concurrent check —
    e.g. a mutation run that regenerates tables — may relink lean/.lake/build/bin/dxdriver at any time."""
    global _DRIVER_RUN
    import atexit
    import shutil

    if DRIVER.exists():
        dst = DRIVER.with_name(f"dxdriver.run{os.getpid()}")
        shutil.copy2(DRIVER, dst)
        if _DRIVER_RUN is None:
            atexit.register(lambda: dst.unlink(missing_ok=True))
        _DRIVER_RUN = dst


def list_theorems(module: str, prefix: str) -> list[str]:
    path = LEAN / (module.replace(".", "/") + ".lean")
    src = _strip_comments(path.read_text())
    return re.findall(r"^\s*theorem\s+(" + re.escape(prefix) + r"\w*)", src, flags=re.M)


def audit(modules: list[str], prefix: str):
    """Return ({theorem: [axioms]}, problems)."""
    thms = []
    for m in modules:
        thms += list_theorems(m, prefix)
    problems = []
    if not thms:
        return {}, [f"no theorem with prefix {prefix} in {modules}"]
    src = "".join(f"import {m}\n" for m in modules) + "open Dx\n" + "".join(
        f"#print axioms {t}\n" for t in thms
    )
    tmp = LEAN / ".lake" / f"audit_{prefix}_{os.getpid()}.lean"
    tmp.write_text(src)
    try:
        # under the build lock: a concurrent check of another property may be rebuilding shared modules right now
        with flock(LEAN / ".build.lock"):
            rc, out = sh(["lake", "env", "lean", str(tmp)], cwd=LEAN, timeout=1200)
    finally:
        tmp.unlink(missing_ok=True)
    axioms = {}
    for m in re.finditer(r"'([\w\.]+)' depends on axioms: \[([^\]]*)\]", out):
        axioms[m.group(1).split(".")[-1]] = [a.strip() for a in m.group(2).replace("\n", " ").split(",")]
    for m in re.finditer(r"'([\w\.]+)' does not depend on any axioms", out):
        axioms[m.group(1).split(".")[-1]] = []
    for t in thms:
        if t not in axioms:
            problems.append(f"audit: no axiom report for {t}: {out[-300:]}")
        else:
            extra = set(axioms[t]) - STD_AXIOMS
            if extra:
                problems.append(f"audit: {t} depends on non-standard axioms {sorted(extra)}")
    return axioms, problems


def module_closure(modules: list[str]) -> list[Path]:
    """Source files of the given Lean modules and everything of this project they import."""
    seen, stack, files = set(), list(modules), []
    while stack:
        m = stack.pop()
        if m in seen:
            continue
        seen.add(m)
        path = LEAN / (m.replace(".", "/") + ".lean")
        if not path.exists():
            continue
        files.append(path)
        for imp in re.findall(r"^import\s+([\w\.]+)", path.read_text(), flags=re.M):
            if imp.startswith(("DxModel", "Driver")):
                stack.append(imp)
    return files


def forbidden_tokens(modules: list[str]) -> list[str]:
    """sorry/axiom/native_decide/... in the property's modules, their imports, and the driver."""
    hits = []
    for p in module_closure(list(modules) + ["Driver.Main"]):
        src = _strip_comments(p.read_text())
        for m in FORBIDDEN.finditer(src):
            hits.append(f"{p.relative_to(LEAN)}: {m.group(0).strip()}")
    return hits


# --------------------------------------------------------------------------- driver


def drive(lines: list[str]) -> list[str]:
    """Pipe request lines to the compiled model driver; one answer per line."""
    if not lines:
        return []
    for ln in lines:
        assert "\n" not in ln
    p = subprocess.run(
        [str(_DRIVER_RUN or DRIVER)], input="\n".join(lines) + "\n", capture_output=True, text=True, timeout=1800
    )
    out = p.stdout.split("\n")
    if out and out[-1] == "":
        out.pop()
    if len(out) != len(lines):
        raise RuntimeError(f"driver answered {len(out)} lines for {len(lines)} requests: {p.stderr[-300:]}")
    return out


# --------------------------------------------------------------------------- results


@dataclass
class Family:
    """Outcome of one correspondence family (model vs code on the same inputs)."""

    name: str
    evaluations: int = 0
    nontrivial: set = field(default_factory=set)
    disagreements: list = field(default_factory=list)  # [{"input":…, "code":…, "model":…}]
    samples: list = field(default_factory=list)
    exhaustive: bool = False
    note: str = ""

    def compare(self, inputs, code_out, model_out, nontrivial=None):
        """inputs/code_out/model_out: parallel lists."""
        for i, (inp, c, m) in enumerate(zip(inputs, code_out, model_out)):
            self.evaluations += 1
            if nontrivial is None or nontrivial[i]:
                self.nontrivial.add(hashlib.md5(repr(inp).encode()).hexdigest())
            if c != m:
                if len(self.disagreements) < 20:
                    self.disagreements.append({"input": inp, "code": _short(c), "model": _short(m)})
                else:
                    self.disagreements.append(None)
            elif len(self.samples) < 2:
                self.samples.append({"input": inp, "agreed_output": _short(c, 240)})


def _short(s, n=600):
    s = str(s)
    if len(s) <= n:
        return s
    # show the first differing region compactly
    return s[: n // 2] + " … " + s[-n // 2 :]


def first_diff(a: str, b: str, ctx=60) -> str:
    i = 0
    while i < min(len(a), len(b)) and a[i] == b[i]:
        i += 1
    return f"@{i}: code[{a[max(0,i-ctx):i+ctx]}] model[{b[max(0,i-ctx):i+ctx]}]"


@dataclass
class Failure:
    """A concrete input on which the implementation violates the property."""

    sig: dict  # decidable signature used for known-finding matching
    case: dict  # everything needed to replay
    detail: str


@dataclass
class Support:
    executed: int = 0
    failures: list = field(default_factory=list)
    distribution: dict = field(default_factory=dict)
    samples: list = field(default_factory=list)

    def count(self, key):
        self.distribution[key] = self.distribution.get(key, 0) + 1


class Ctx:
    def __init__(self, pid, tier, seed):
        self.pid = pid
        self.tier = tier
        self.seed = seed
        self.rng = random.Random(seed)
        self.t0 = time.time()
        self.quick = tier == "quick"

    def elapsed(self):
        return time.time() - self.t0


# --------------------------------------------------------------------------- known findings


def known_findings(pid):
    p = ROOT / "known_findings.json"
    if not p.exists():
        return []
    return [f for f in json.loads(p.read_text())["findings"] if pid in f["properties"]]


def match_finding(findings, failure: Failure):
    for f in findings:
        if f.get("status") != "open":
            continue
        if all(failure.sig.get(k) == v for k, v in f["signature"].items()):
            return f
    return None


# --------------------------------------------------------------------------- the protocol


def write_replay(pid, payload) -> str:
    REPLAYS.mkdir(exist_ok=True)
    h = hashlib.md5(json.dumps(payload, sort_keys=True, default=str).encode()).hexdigest()[:10]
    path = REPLAYS / f"{pid}-{h}.json"
    path.write_text(json.dumps(payload, indent=1, sort_keys=True, default=str))
    return str(path.relative_to(ROOT))


def run_property(pid: str, tier: str, seed: int) -> int:
    t0 = time.time()
    mod = importlib.import_module(f"harness.props.{pid.lower()}")
    ctx = Ctx(pid, tier, seed)
    lines = []  # stdout lines
    broken = []  # obligations / correspondences that no longer check
    machinery_errors = []

    # 1. T1 regeneration + 2. build (one critical section)
    gen_info = {}

    def _regen():
        try:
            from harness import extract

            gen_info.update(extract.regenerate(getattr(mod, "GENERATED", [])))
        except Exception:
            machinery_errors.append("extract: " + traceback.format_exc()[-800:])

    b = lake_build(mod.LEAN_MODULES, before=_regen)
    if not DRIVER.exists():
        print(f"ERROR driver not built\n{b.log[-2000:]}")
        return 2
    for e in b.broken:
        broken.append({"kind": "proof", "module": e["module"], "theorem": e["decl"], "msg": e["msg"]})

    # 3. audit
    axioms = {}
    theorems = []
    if b.ok:
        axioms, problems = audit(mod.LEAN_MODULES, pid + "_")
        theorems = sorted(axioms)
        tok = forbidden_tokens(mod.LEAN_MODULES)
        if tok:
            problems.append("forbidden tokens: " + "; ".join(tok[:5]))
        if problems:
            print("ERROR audit failed:\n" + "\n".join(problems))
            return 2
        if tier == "thorough" and not os.environ.get("VERIF_SKIP_LEANCHECKER"):
            # independent re-check of the compiled .olean files of the property's modules
            with flock(LEAN / ".build.lock"):
                rc_lc, out_lc = sh(["lake", "env", "leanchecker"] + list(mod.LEAN_MODULES), cwd=LEAN, timeout=3000)
            if rc_lc != 0:
                print("ERROR leanchecker rejected the compiled modules:\n" + out_lc[-1500:])
                return 2
            gen_info["leanchecker"] = "ok"

    # 4. correspondence
    fams: list[Family] = []
    for fn in mod.families(ctx):
        try:
            f = fn(ctx)
        except Exception:
            f = Family(fn.__name__)
            f.disagreements.append({"input": "harness exception", "code": traceback.format_exc()[-1500:], "model": ""})
        fams.append(f)
        if f.disagreements:
            d0 = next(d for d in f.disagreements if d)
            broken.append({"kind": "correspondence", "family": f.name, "n": len(f.disagreements), "first": d0})

    # 5. vetted support corpus (also serves as the failing-input search space)
    findings = known_findings(pid)
    sup = Support()
    try:
        sup = mod.support(ctx, broken)
    except Exception:
        machinery_errors.append("support: " + traceback.format_exc()[-1500:])

    new_failures = []
    seen_known = {}
    for fl in sup.failures:
        kf = match_finding(findings, fl)
        if kf is not None:
            seen_known.setdefault(kf["id"], kf)
        else:
            new_failures.append(fl)
    # open findings are always replayed on the real code through their own witness
    for kf in findings:
        if kf.get("status") == "open":
            lines.append(f"KNOWN-FINDING: property={pid} {kf['id']}: {kf['what']}")

    rc = 0
    violations = 0
    if new_failures:
        fl = new_failures[0]
        path = write_replay(pid, {"property": pid, "kind": "failing-input", "sig": fl.sig, "case": fl.case,
                                  "detail": fl.detail, "broken_obligations": broken, "seed": seed, "tier": tier,
                                  "other_failures": len(new_failures) - 1})
        lines.append(f"VIOLATION property={pid} replay={path}")
        for other in new_failures[1:12]:  # further distinct failing inputs of this run (triage aid; the replay holds the first)
            lines.append(f"  also-failing: sig={json.dumps(other.sig, sort_keys=True, default=str)[:300]} :: {other.detail[:160]!r}")
        rc = 1
        violations = len(new_failures)
    elif broken:
        path = write_replay(pid, {"property": pid, "kind": "no-failing-input-found", "broken_obligations": broken,
                                  "searched": sup.executed, "seed": seed, "tier": tier})
        lines.append(f"VIOLATION property={pid} replay={path} no-failing-input-found")
        rc = 1
        violations = 1
    if machinery_errors and rc == 0:
        print("ERROR machinery:\n" + "\n".join(machinery_errors))
        return 2

    # 6. evidence
    table_obls = gen_info.get("obligations", 0)
    n_obl = len(theorems) + len(fams)
    n_dis = len(theorems) + sum(1 for f in fams if not f.disagreements) if b.ok else sum(1 for f in fams if not f.disagreements)
    if not b.ok:
        n_obl = max(n_obl, len(b.broken) + len(fams))
    ev = {
        "property_id": pid,
        "tier": tier,
        "seed": seed,
        "level": "proof",
        "wall_s": round(time.time() - t0, 2),
        "violations": violations,
        "coverage": {
            "obligations": max(n_obl, 1),
            "discharged": max(n_dis, 1) if rc == 0 else n_dis,
            "checker_cmd": "cd lean && lake build " + " ".join(mod.LEAN_MODULES)
            + " && lake env lean <audit: #print axioms of every " + pid + "_* theorem> ; correspondence via .lake/build/bin/dxdriver",
            "trusted_base": ["Lean 4.33.0 kernel", "axioms: " + ", ".join(sorted({a for v in axioms.values() for a in v}) or ["none"])]
            + list(getattr(mod, "TRUSTED", [])),
            "theorems": {t: axioms[t] for t in theorems},
            "table_obligations": table_obls,
            "leanchecker": gen_info.get("leanchecker", "not run (quick tier)"),
            "correspondence": [
                {"family": f.name, "evaluations": f.evaluations, "distinct_nontrivial": len(f.nontrivial),
                 "disagreements": len(f.disagreements), "exhaustive": f.exhaustive, "note": f.note}
                for f in fams
            ],
            "evaluations": sum(f.evaluations for f in fams) + sup.executed,
            "distinct_nontrivial": sum(len(f.nontrivial) for f in fams),
            "rule": getattr(mod, "RULE", "inputs enumerated/seeded per family; non-trivial = reaches a branch other than the identity/none branch"),
            "samples": [s for f in fams for s in f.samples][:6] + [{"theorem": t} for t in theorems[:4]],
            "support_programs": sup.executed,
            "support_distribution": sup.distribution,
            "support_samples": sup.samples[:4],
            "support_failures_known": sorted(seen_known),
            "partial": list(getattr(mod, "PARTIAL", [])),
            "explanation": getattr(mod, "EXPLANATION", ""),
            "build_s": round(b.wall_s, 2),
            "broken": broken,
        },
        "assumptions": list(getattr(mod, "ASSUMPTIONS", [])),
    }
    if not os.environ.get("VERIF_NO_EVIDENCE"):  # mutation runs on scratch copies must not overwrite evidence
        EVIDENCE.mkdir(exist_ok=True)
        (EVIDENCE / f"{pid}.json").write_text(json.dumps(ev, indent=1, default=str))
    for ln in lines:
        print(ln)
    print(f"{pid} {tier}: theorems={len(theorems)} families={len(fams)} corr_evals={sum(f.evaluations for f in fams)} "
          f"support={sup.executed} broken={len(broken)} new_failures={len(new_failures)} wall={time.time()-t0:.1f}s rc={rc}")
    return rc
