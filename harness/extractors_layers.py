"""T1 generator for C09: Generated/LayerClasses.lean — every live Expr subclass (plus the base `_core.Expr`) that
defines, in its OWN class body, a method that builds graph structure, with

  * the methods it overrides (`kind`), whether all of its task-building overrides merely raise NotImplementedError
    (`abstract`: the class must be lowered before a graph exists),
  * a short hash of the AST of those methods (docstrings stripped, so comments/formatting do not matter),
  * the Lean layer model and the `LayerOK` theorem of Props/C09.lean that covers it (hand-maintained map `MODELS`),
    or `unmodelled`.

`covered` is true only if the class is in `MODELS` AND the named theorem exists in lean/DxModel/Props/C09.lean,
or the class is abstract.  Props/C09.lean decides `C09_layer_classes_covered` (every class is covered or listed in the
committed `knownUnmodelled`) and `C09_layer_sources_unchanged` (the hash of every covered class is the committed one of
lean/DxModel/LayerHashes.lean) over this table: a NEW class with a hand-written layer, or a CHANGED `_layer` of a
modelled class, breaks a kernel-checked obligation.

`python -m harness.extractors_layers --hashes` prints the Lean source of the committed hash table for the current /repo
(to be pasted into LayerHashes.lean after the models / ties have been re-validated against a changed generator).
"""
from __future__ import annotations

import ast
import hashlib
import inspect
import re
import textwrap

from harness.core import LEAN
from harness.extract import generator

# methods whose override changes which keys / references a graph contains
GRAPH_METHODS = [
    "_layer",
    "_task",
    "_filtered_task",
    "_blockwise_arg",
    "_broadcast_dep",
    "dependencies",
    "_fusion_buckets",
    "__dask_graph__",
    "__dask_keys__",
]
TASK_BUILDERS = ("_layer", "_task", "_filtered_task")

# class -> (Lean model, theorem of Props/C09.lean, which family ties it to the code, note)
_BW = ("Dx.Blockwise.layer", "C09_layer_blockwise", "blockwise_task_shape", "")
_SRC = ("Dx.Flat.filteredEnts", "C09_layer_filtered_source", "flat_layers", "_filtered_task refers to no key")
MODELS = {
    # the default `_layer` ({(name, i): _task(i)}) and `__dask_graph__` (walk + toolz.merge)
    "Expr": ("Dx.merged (Plan.lean) over Dx.LSpec nodes", "C09_plan_of_models", "proven_checker_on_real_graphs", ""),
    # `__dask_keys__` = [(name, i) for i in range(npartitions)]: `LSpec.out` / `LSpec.nout`
    "_expr.Expr": ("Dx.LSpec.out / nout (LayerOK.lean)", "C09_plan_of_models", "proven_checker_on_real_graphs", ""),
    # flat generators (Layers/Flat.lean)
    "StackPartition": ("Dx.Flat.stackEnts", "C09_layer_stackpartition", "flat_layers", "match flags are inputs (fix 8dd1ee6)"),
    "StackPartitionInterleaved": ("Dx.Flat.interleavedEnts", "C09_layer_stackpartition_interleaved", "flat_layers", ""),
    "Partitions": ("Dx.Flat.partitionsEnts", "C09_layer_partitions", "flat_layers", ""),
    "PartitionsFiltered": ("Dx.Flat.filteredEnts", "C09_layer_filtered_source", "flat_layers", "_task = _filtered_task(_partitions[index])"),
    "FromPandas": _SRC,
    "FromArray": _SRC,
    "FromMap": _SRC,
    "FromMapProjectable": _SRC,
    "ReadCSV": _SRC,
    "ReadParquetFSSpec": _SRC,
    "ReadParquetPyarrowFS": _SRC,
    "Timeseries": _SRC,
    "Literal": ("Dx.Flat.filteredEnts", "C09_layer_filtered_source", "flat_layers", "single literal task"),
    "FusedIO": ("Dx.Flat.fusedEnts", "C09_layer_fusedio", "flat_layers", "step of _fusion_buckets is an input (float arithmetic)"),
    "FusedParquetIO": ("Dx.Flat.fusedEnts", "C09_layer_fusedio", "flat_layers", ""),
    "FromDelayed": ("Dx.Flat.fromDelayedEnts", "C09_layer_fromdelayed", "flat_layers", "dependencies() = dfs"),
    "ToParquetBarrier": ("Dx.Flat.barrierEnts", "C09_layer_toparquet_barrier", "flat_layers", ""),
    "FromScalars": ("Dx.Flat.scalarsEnts", "C09_layer_fromscalars", "flat_layers", ""),
    "LocBase": ("Dx.Flat.locSliceEnts", "C09_layer_locslice", "flat_layers", "_task reads the cached _layer of the subclass"),
    "LocElement": ("Dx.Flat.locElementEnts", "C09_layer_locelement", "flat_layers", "_get_partitions result is an input"),
    "LocList": ("Dx.Flat.locListEnts", "C09_layer_loclist", "flat_layers", "_get_partitions result is an input"),
    "LocSlice": ("Dx.Flat.locSliceEnts", "C09_layer_locslice", "flat_layers", "_get_partitions results are inputs"),
    "ResolveOverlappingDivisions": ("Dx.Flat.resolveEnts", "C09_layer_resolve_overlapping", "flat_layers", "keys and references; nesting inside one task not represented"),
    # map-then-gather, groupby cumulative chain (Layers/Gather.lean)
    "Lengths": ("Dx.Gather.layer", "C09_layer_gather", "gather_layers", ""),
    "SeriesQuantileDask": ("Dx.Gather.layer", "C09_layer_gather", "gather_layers", ""),
    "SeriesQuantileTdigest": ("Dx.Gather.layer", "C09_layer_gather", "gather_layers", "needs crick at run time; graph only"),
    "RepartitionQuantiles": ("Dx.RQ.layer", "C09_layer_repartition_quantiles", "gather_layers", "tree_width / tree_groups of dask's create_merge_tree are inputs (T3: levelsOK)"),
    "MergeAsofIndexed": ("Dx.Asof.layer (+ Dx.Scan.layer)", "C09_layer_merge_asof", "gather_layers", "pair_partitions result is an input (T3: paramsOK); scan keys in closed form, tied by exact equality"),
    "GroupByCumulativeFinalizer": ("Dx.CumG.layer", "C09_layer_groupby_cumulative", "gather_layers", ""),
    # Blockwise and the classes that only override how the arguments of the one task per partition are written
    "Blockwise": _BW,
    "Apply": _BW,
    "BlockwiseHead": _BW,
    "BlockwiseHeadIndex": _BW,
    "BlockwiseTail": _BW,
    "BlockwiseTailIndex": _BW,
    "EnforceRuntimeDivisions": _BW,
    "FillnaCheck": _BW,
    "Index": _BW,
    "MapPartitions": _BW,
    "Sample": _BW,
    "Split": _BW,
    "GroupByUDFBlockwise": _BW,
    "BlockwiseMerge": _BW,
    "DescribeNumericAggregate": _BW,
    "ResampleAggregation": ("Dx.Blockwise.layer", "C09_layer_blockwise", "blockwise_task_shape", "BlockwiseDep arguments are literals"),
    "ToParquetData": _BW,
    "Fused": ("Dx.Blockwise.layer (outer task) + Dx.Fusion.fusedTask (C14)", "C09_layer_blockwise", "blockwise_task_shape", "the sub-graph inside the task is C14_task"),
    # generators modelled for other properties (theorems restated in Props/C09.lean)
    "CumulativeFinalize": ("Dx.Cum.layer", "C09_layer_cumulative", "c02.graph_equality", ""),
    "CreateOverlappingPartitions": ("Dx.Overlap.layer", "C09_layer_overlap", "c02.graph_equality", "integer windows; timedelta windows only through the proven checker on real graphs"),
    "TreeReduce": ("Dx.Tree.layer", "C09_layer_treereduce", "c02.graph_equality", ""),
    "BroadcastJoin": ("Dx.KJ.layer", "C09_layer_broadcastjoin", "c10.graph_equality", "unfiltered; filtered: C09_layer_broadcastjoin_filtered_counterexample (D66)"),
    "SimpleShuffle": ("Dx.Shuffle.simpleTask", "C09_layer_simpleshuffle_wf", "c12.graph_equality", ""),
    "TaskShuffle": ("Dx.Shuffle.taskTask", "C09_layer_taskshuffle_wf", "c12.graph_equality", "stage arithmetic is an input (T3)"),
    "DiskShuffle": ("Dx.Shuffle.diskTask", "C09_layer_diskshuffle_wf", "c12.graph_equality", "uuid key names"),
    "RepartitionToFewer": ("Dx.Repartition.fewerTask", "C09_layer_repartition_fewer", "c13.graph_equality + repartition_hypotheses", ""),
    "RepartitionToMore": ("Dx.Repartition.moreTask", "C09_layer_repartition_more", "c13.graph_equality", ""),
    "RepartitionSize": ("Dx.Repartition.sizeTask", "C09_layer_repartition_size", "c13.graph_equality + repartition_hypotheses", "key names use tokenize(df), not self._name"),
    "RepartitionDivisions": ("Dx.Repartition.divTask", "C09_layer_repartition_divisions", "c13.graph_equality + repartition_hypotheses", "plan well-formedness is a checked hypothesis"),
    "FromGraph": ("Dx.fromGraphLayer", "C09_layer_fromgraph", "c17.graph_equality", "relative to the imported graph"),
    "_DelayedExpr": ("Dx.Boundary.delayedExprLayer", "C09_layer_delayedexpr", "c17.graph_equality", "relative to the Delayed's graph"),
}


def _fn_of(obj):
    if isinstance(obj, property):
        obj = obj.fget
    if hasattr(obj, "func") and not inspect.isfunction(obj):  # functools.cached_property
        obj = obj.func
    if isinstance(obj, (staticmethod, classmethod)):
        obj = obj.__func__
    return obj


def _fn_ast(obj):
    try:
        src = textwrap.dedent(inspect.getsource(_fn_of(obj)))
        tree = ast.parse(src)
    except Exception:  # noqa: BLE001
        return None
    fn = next((n for n in ast.walk(tree) if isinstance(n, (ast.FunctionDef, ast.AsyncFunctionDef))), None)
    if fn is None:
        return None
    body = list(fn.body)
    if body and isinstance(body[0], ast.Expr) and isinstance(getattr(body[0], "value", None), ast.Constant) and isinstance(body[0].value.value, str):
        body = body[1:]
    fn.body = body or [ast.Pass()]
    fn.decorator_list = []
    return fn


def _only_raises(fn) -> bool:
    if fn is None:
        return False
    body = [s for s in fn.body if not isinstance(s, ast.Pass)]
    if len(body) != 1 or not isinstance(body[0], ast.Raise):
        return False
    exc = body[0].exc
    name = exc.func if isinstance(exc, ast.Call) else exc
    return isinstance(name, ast.Name) and name.id == "NotImplementedError"


def layer_classes():
    """Classes in the table: `_core.Expr` and every live subclass overriding a graph method in its own body."""
    from dask_expr._core import Expr as CoreExpr

    from harness.extractors import live_expr_classes

    from dask_expr._expr import Expr as FrameExpr

    out = [CoreExpr, FrameExpr]
    for c in live_expr_classes():
        if c is CoreExpr or c is FrameExpr:
            continue
        if any(m in c.__dict__ for m in GRAPH_METHODS):
            out.append(c)
    return out


def class_row(c):
    own = [m for m in GRAPH_METHODS if m in c.__dict__]
    asts = {m: _fn_ast(c.__dict__[m]) for m in own}
    dump = "|".join(f"{m}:{ast.dump(asts[m]) if asts[m] is not None else '?'}" for m in own)
    h = hashlib.sha1(dump.encode()).hexdigest()[:10]
    builders = [m for m in own if m in TASK_BUILDERS]
    abstract = bool(builders) and all(_only_raises(asts[m]) for m in builders) and set(own) <= set(TASK_BUILDERS)
    name = c.__qualname__ if (c.__qualname__, c.__module__) != ("Expr", "dask_expr._expr") else "_expr.Expr"
    return {"name": name, "module": c.__module__, "kind": "+".join(own), "hash": h, "abstract": abstract}


def _c09_theorems():
    path = LEAN / "DxModel" / "Props" / "C09.lean"
    try:
        src = path.read_text()
    except OSError:
        return set()
    src = re.sub(r"/-.*?-/", "", src, flags=re.S)
    return set(re.findall(r"^\s*theorem\s+(C09_\w+)", src, flags=re.M))


def layer_rows():
    thms = _c09_theorems()
    rows = []
    for c in layer_classes():
        r = class_row(c)
        model, thm, tie, note = MODELS.get(r["name"], ("", "", "", ""))
        if r["abstract"]:
            r.update(model="abstract (raises NotImplementedError; must be lowered)", thm="", tie="", note=note, covered=True)
        else:
            r.update(model=model, thm=thm, tie=tie, note=note, covered=bool(model) and thm in thms)
        rows.append(r)
    rows.sort(key=lambda r: (r["module"], r["name"]))
    return rows


def _q(s):
    return '"' + s.replace("\\", "\\\\").replace('"', '\\"') + '"'


@generator("LayerClasses")
def gen_layer_classes():
    rows = layer_rows()
    lines = [
        "/- GENERATED by harness/extractors_layers.py (LayerClasses) from the live classes in /repo — do not edit.",
        "   One entry per class that overrides a graph-building method in its own body: overridden methods, short hash of",
        "   their AST, the Lean layer model + LayerOK theorem covering it (harness map MODELS) or \"\" = unmodelled. -/",
        "namespace Dx.Generated",
        "",
        "structure LayerClass where",
        "  name : String",
        "  module : String",
        "  kind : String",
        "  srcHash : String",
        "  model : String",
        "  thm : String",
        "  covered : Bool",
        "",
        "def layerClasses : List LayerClass := [",
        ",\n".join(
            f"  ⟨{_q(r['name'])}, {_q(r['module'])}, {_q(r['kind'])}, {_q(r['hash'])}, {_q(r['model'])}, {_q(r['thm'])}, {str(r['covered']).lower()}⟩"
            for r in rows
        ),
        "]",
        "",
        "end Dx.Generated",
        "",
    ]
    return "\n".join(lines), len(rows)


def committed_hashes():
    """{class name: hash} parsed from the committed lean/DxModel/LayerHashes.lean"""
    src = (LEAN / "DxModel" / "LayerHashes.lean").read_text()
    return dict(re.findall(r'\("([\w\.]+)",\s*"([0-9a-f]+)"\)', src))


def hashes_lean():
    rows = [r for r in layer_rows() if r["covered"]]
    body = ",\n".join(f'  ("{r["name"]}", "{r["hash"]}")' for r in rows)
    return (
        "/-\n  LayerHashes.lean — COMMITTED table: for every class of Generated/LayerClasses.lean that a Lean layer model covers, the\n"
        "  hash of the graph-building methods the model was written against (and validated against, by the exact\n"
        "  graph-equality families).  Regenerate with `python -m harness.extractors_layers --hashes` only after the model /\n"
        "  its ties have been re-validated for a changed generator.\n-/\n"
        "namespace Dx\n\ndef committedLayerHashes : List (String × String) := [\n" + body + "\n]\n\nend Dx\n"
    )


if __name__ == "__main__":
    import sys

    if "--hashes" in sys.argv:
        print(hashes_lean(), end="")
    else:
        for r in layer_rows():
            print(f"{r['name']:32s} {r['kind']:40s} {r['hash']} {'abstract' if r['abstract'] else ''} {r['model'] or 'UNMODELLED'} {r['thm']}")
