"""C11 — selecting partitions or leading/trailing rows commutes with the computation."""
from __future__ import annotations

import atexit
import itertools
import operator
import shutil
import tempfile

import numpy as np
import pandas as pd

from harness import e2e
from harness.core import Family, Failure, Support, drive, first_diff
from harness.render import Names, rgraph, rtask

LEAN_MODULES = ["DxModel.Props.C11"]
GENERATED = []
TRUSTED = [
    "Interp hypotheses of Layers/Head.lean: M.head / safe_head = List.take, M.tail = List.drop (len - n) (validated by family helper_specs)",
    "row-local operators are modelled by the category laws `Additive` / `TakeCommutes` (hypotheses of C11_head_push / C11_partitions_blockwise; instances for map / zipWith / filter proven)",
    "harness/render.py canonical text of tasks; expression trees rendered by c11._rexpr (class name + non-default scalar operands)",
    "csv / parquet file splitting is not modelled (shape only: task j of the filtered reader = task P[j] of the unfiltered reader)",
]
PARTIAL = [
    "C11_tail_push_partial: Tail._simplify_down wraps every Expr operand (also broadcast ones); proven for operand lists without broadcast operands, counterexample theorem for the rule as it is",
    "C11_filtered_contract for BroadcastJoin is stated for the layer as emitted (output keys are numbered by ORIGINAL partition number): theorem C11_bjoin_keys_partial + counterexample",
    "C11_sorted_head is proven for total antisymmetric orders (ties between different rows are not ordered by the real sort either)",
]
EXPLANATION = (
    "Theorems: partition-filter contract of every modelled source/shuffle (tasks of cls(_partitions=P) = P.map tasks, divisions via DivInv for "
    "strictly ascending P), Partitions push-down through row-local blockwise operators with broadcast operands, lowered head/tail graphs = "
    "take/drop of the concatenated leading partitions (error iff npartitions > frame.npartitions), head push-down through elementwise operators, "
    "nested heads, sorted head via per-partition n-firsts. Tie: exact graph / rule-output equality with the real code for all sources x index sets "
    "(sizes <= 6) and for Partitions/Head/Tail._simplify_down/_lower on constructed expressions. Support: real selections on every source x chain "
    "versus the corresponding partitions of the fully computed collection."
)

# =========================================================================== data sources

_TMP = None


def _tmpdir():
    global _TMP
    if _TMP is None:
        _TMP = tempfile.mkdtemp(prefix="verif-c11-")
        atexit.register(shutil.rmtree, _TMP, ignore_errors=True)
    return _TMP


def base(n=20):
    """a: unique (a permutation), b: join / shuffle key with duplicates, v: payload; sorted even int index."""
    return pd.DataFrame(
        {
            "a": np.array([(7 * i + 3) % n for i in range(n)], dtype="int64"),
            "b": np.array([i % 3 for i in range(n)], dtype="int64"),
            "v": np.arange(n, dtype="int64") * 10,
        },
        index=pd.Index(np.arange(n, dtype="int64") * 2),
    )


def small():
    return pd.DataFrame({"b": np.array([0, 1, 2, 1], dtype="int64"), "z": np.array([10, 20, 30, 40], dtype="int64")})


_SRC_CACHE = {}


def _written(kind):
    import dask_expr as dx

    key = ("written", kind)
    if key not in _SRC_CACHE:
        import os

        d = os.path.join(_tmpdir(), kind)
        os.makedirs(d, exist_ok=True)
        pdf = base()
        if kind == "csv":
            for i in range(4):
                pdf.iloc[5 * i : 5 * i + 5].to_csv(os.path.join(d, f"part-{i}.csv"), index=False)
        else:
            idx = pdf.copy()
            idx.index.name = "i"
            dx.from_pandas(idx, npartitions=6, sort=True).to_parquet(d)
        _SRC_CACHE[key] = d
    return _SRC_CACHE[key]


def _delayed_parts(cuts):
    from dask import delayed

    pdf = base()
    return [delayed(pdf.iloc[cuts[i] : cuts[i + 1]], name=f"verif-part-{cuts[i]}-{cuts[i+1]}") for i in range(len(cuts) - 1)]


def make_source(name):
    """Deterministic small collections, one per kind of data source (3..6 partitions)."""
    import dask_expr as dx

    pdf = base()
    if name == "from_pandas":
        return dx.from_pandas(pdf, npartitions=5)
    if name == "from_pandas_one":
        return dx.from_pandas(pdf, npartitions=1)
    if name == "from_pandas_dupidx":
        d = pdf.copy()
        d.index = pd.Index([i // 2 for i in range(len(d))], dtype="int64")
        return dx.from_pandas(d, npartitions=3)
    if name == "from_pandas_dupidx_one":
        d = pdf.copy()
        d.index = pd.Index([i // 2 for i in range(len(d))], dtype="int64")
        return dx.from_pandas(d, npartitions=1)
    if name == "from_pandas_nosort":
        return dx.from_pandas(pdf.iloc[::-1], npartitions=4, sort=False)
    if name == "from_array":
        return dx.from_array(pdf[["a", "b", "v"]].to_numpy(), chunksize=6, columns=["a", "b", "v"])
    if name == "from_map":
        return e2e.frame_from_cuts(pdf, [0, 4, 4, 9, 15, 20], known_divisions=False)
    if name == "from_map_div":
        return e2e.frame_from_cuts(pdf, [0, 4, 9, 15, 20], known_divisions=True)
    if name == "from_delayed":
        return dx.from_delayed(_delayed_parts([0, 5, 9, 16, 20]), meta=pdf.iloc[:0])
    if name == "from_delayed_div":
        return dx.from_delayed(_delayed_parts([0, 5, 9, 16, 20]), meta=pdf.iloc[:0], divisions=(0, 10, 18, 32, 38))
    if name == "from_graph":
        return (dx.from_pandas(pdf, npartitions=4) + 0).persist()
    if name == "timeseries":
        from dask_expr.datasets import timeseries

        return timeseries(start="2000-01-01", end="2000-01-06", freq="6h", partition_freq="1d",
                          dtypes={"a": int, "b": int, "v": int}, seed=7)
    if name == "read_csv":
        import os

        return dx.read_csv(os.path.join(_written("csv"), "part-*.csv"))
    if name == "read_parquet":
        return dx.read_parquet(_written("parquet"))
    if name == "read_parquet_div":
        return dx.read_parquet(_written("parquet"), calculate_divisions=True)
    if name == "read_parquet_arrow":
        return dx.read_parquet(_written("parquet"), filesystem="arrow")
    raise KeyError(name)


SOURCES = ["from_pandas", "from_pandas_one", "from_pandas_dupidx", "from_pandas_dupidx_one", "from_pandas_nosort", "from_array", "from_map", "from_map_div", "from_delayed",
           "from_delayed_div", "from_graph", "timeseries", "read_csv", "read_parquet", "read_parquet_div",
           "read_parquet_arrow"]
UNIQUE_A = {s for s in SOURCES if s != "timeseries"}  # sources whose column `a` has no ties


def _mp(p):
    return p.assign(m=p.a * 3)


def _mp2(p, s):
    return p.assign(m=p.a + s)


# chain name -> (function, unordered rows inside a partition, sorted-head semantics)
CHAINS = {
    "id": (lambda x: x, False, False),
    "add1": (lambda x: x + 1, False, False),
    "filter": (lambda x: x[x.a > 4], False, False),
    "col_a": (lambda x: x.a, False, False),
    "bcast_assign": (lambda x: x.assign(z=x.a + x.a.sum()), False, False),
    "bcast_series": (lambda x: x.a + x.a.max(), False, False),
    "bcast_where": (lambda x: x[x.a > x.b.max()], False, False),
    "assign_series": (lambda x: x.assign(z=x.a + 1), False, False),
    "mul_axis0": (lambda x: x[["a", "v"]].mul(x.b, axis=0), False, False),
    "where_series": (lambda x: x.a.where(x.b > 0, -1), False, False),
    "mappart": (lambda x: x.map_partitions(_mp), False, False),
    "mappart_bcast": (lambda x: x.map_partitions(_mp2, x.b.sum()), False, False),
    "add1_filter_proj": (lambda x: (x + 1)[(x + 1).a > 3][["a", "v"]], False, False),
    "repart3": (lambda x: x.repartition(npartitions=3), False, False),
    "repart7": (lambda x: x.repartition(npartitions=7), False, False),
    "shuffle_tasks": (lambda x: x.shuffle("b", shuffle_method="tasks"), True, False),
    "shuffle_tasks_mb2": (lambda x: x.shuffle("b", npartitions=5, shuffle_method="tasks", max_branch=2), True, False),
    "shuffle_disk": (lambda x: x.shuffle("b", shuffle_method="disk"), True, False),
    "shuffle_add1": (lambda x: x.shuffle("b", shuffle_method="tasks") + 1, True, False),
    "bjoin": (lambda x: x.merge(_small_coll(), on="b", broadcast=True, shuffle_method="tasks"), True, False),
    "bjoin_left": (lambda x: x.merge(_small_coll(), on="b", how="left", broadcast=True, shuffle_method="tasks"), True, False),
    "sort_a": (lambda x: x.sort_values("a"), False, True),
    "sort_a_desc": (lambda x: x.sort_values("a", ascending=False), False, True),
    "set_index_a": (lambda x: x.set_index("a"), False, True),
}


def _small_coll():
    import dask_expr as dx

    return dx.from_pandas(small(), npartitions=2)


def build(source, chain):
    return CHAINS[chain][0](make_source(source))


_REF_CACHE = {}


def reference(source, chain):
    """Partitions of the fully computed collection: the plan lowered WITHOUT optimisation (one partition per
    logical partition).  -> ("ok", [parts]) | ("err", type, msg)"""
    key = (source, chain)
    if key not in _REF_CACHE:
        def go():
            x = build(source, chain)
            parts = e2e.compute_partitions(x, optimize=False)
            if len(parts) != x.npartitions:
                raise RuntimeError(f"reference has {len(parts)} partitions, npartitions={x.npartitions}")
            return parts

        _REF_CACHE[key] = e2e.run_or_err(go)
    return _REF_CACHE[key]


def _cat(parts, like):
    parts = [p for p in parts]
    if not parts:
        return like.iloc[:0]
    return pd.concat(parts)


def _sel_shape(P):
    if len(P) == 0:
        return "empty"
    if any(b == a for a, b in itertools.combinations(P, 2)):
        return "repeated"
    if any(b <= a for a, b in zip(P, P[1:])):
        return "reordered"
    if len(P) == 1:
        return "single"
    return "contiguous" if all(b == a + 1 for a, b in zip(P, P[1:])) else "ascending"


def _same(a, b, unordered):
    return e2e.same(a, b, sort_rows=unordered, drop_index=False)


def _has_fused_io(coll):
    from dask_expr.io.io import FusedIO

    try:
        return bool(list(coll.optimize(fuse=False).expr.find_operations(FusedIO)))
    except Exception:  # noqa: BLE001
        return False


def run_case(case):
    """-> None (property holds) | (what, detail)"""
    source, chain, sel = case["source"], case["chain"], case["sel"]
    unordered, sorted_sem = CHAINS[chain][1], CHAINS[chain][2]
    ref = reference(source, chain)
    if ref[0] == "err":
        return None  # the query itself is not computable: nothing to commute with
    full = ref[1]
    like = full[0]
    kind = sel["kind"]
    x = build(source, chain)
    np_ = x.npartitions

    if kind in ("partitions", "get_partition", "to_delayed_sel"):
        P = sel["P"]
        want_parts = [full[p] for p in P]
        want = _cat(want_parts, like)
        if kind == "get_partition":
            mk = lambda: x.get_partition(P[0])  # noqa: E731
        else:
            mk = lambda: x.partitions[P]  # noqa: E731
        if kind == "to_delayed_sel":
            import dask

            r = e2e.run_or_err(lambda: list(dask.compute(*mk().to_delayed())))
        else:
            r = e2e.run_or_err(lambda: e2e.compute_partitions(mk()))
        if r[0] == "err":
            return (f"raised:{r[1]}", f"{kind}{P} raised {r[1]}: {r[2]}")
        got = r[1]
        if len(got) != len(P):
            if not _has_fused_io(mk()):
                return ("partition-count", f"{kind}{P}: {len(got)} partitions computed for {len(P)} selected")
        elif not unordered or True:
            for j, (g, w) in enumerate(zip(got, want_parts)):
                if not _same(g, w, unordered):
                    return ("rows", f"{kind}{P}: output {j} differs from partition {P[j]} of the full collection\n"
                                    f"got:\n{e2e.describe(g)}\nwant:\n{e2e.describe(w)}")
        if not _same(_cat(got, like), want, unordered):
            return ("rows", f"{kind}{P}: concatenation differs\ngot:\n{e2e.describe(_cat(got, like))}\nwant:\n{e2e.describe(want)}")
        if kind == "partitions":
            r2 = e2e.run_or_err(lambda: mk().compute())
            if r2[0] == "err":
                return (f"raised:{r2[1]}", f"partitions{P}.compute() raised {r2[1]}: {r2[2]}")
            if not _same(r2[1], want, unordered):
                return ("rows", f"partitions{P}.compute() differs from the selected partitions of the full collection")
        return None

    if kind == "to_delayed":
        import dask

        r = e2e.run_or_err(lambda: list(dask.compute(*x.to_delayed(optimize_graph=sel["optimize"]))))
        if r[0] == "err":
            return (f"raised:{r[1]}", f"to_delayed raised {r[1]}: {r[2]}")
        got = r[1]
        if len(got) == len(full):
            for j, (g, w) in enumerate(zip(got, full)):
                if not _same(g, w, unordered):
                    return ("rows", f"to_delayed()[{j}] differs from partition {j}")
        elif not _has_fused_io(x):
            return ("partition-count", f"to_delayed gave {len(got)} objects for {len(full)} partitions")
        if not _same(_cat(got, like), _cat(full, like), unordered):
            return ("rows", "to_delayed(): concatenation differs")
        return None

    if kind == "head":
        n, k = sel["n"], sel["k"]
        r = e2e.run_or_err(lambda: x.head(n, npartitions=k))
        if k > np_:
            if r[0] == "err" and r[1] in ("ValueError", "IndexError"):
                return None  # refused (Head._lower: ValueError; Head._divisions may raise IndexError first)
            if sorted_sem and r[0] == "ok" and _same(r[1], _cat(full, like).head(n), False):
                return None  # Head(sort) -> NFirst never looks at npartitions: the global answer, no error
            return ("no-error", f"head(npartitions={k}) on {np_} partitions did not raise ValueError: {r[:2]}")
        if r[0] == "err":
            return (f"raised:{r[1]}", f"head({n}, npartitions={k}) raised {r[1]}: {r[2]}")
        got = r[1]
        lead = _cat(full[: (len(full) if k == -1 else k)], like)
        want = lead.head(n)
        if not unordered and not sorted_sem and not _same(got, want, False) and _has_fused_io(x):
            # FusedIO (tune stage) coarsens the partitions of a column-projected multi-file read: the k leading
            # partitions of the optimised plan are a union of leading logical partitions.  Accepted: a prefix of
            # the whole collection that contains the literal answer.
            glob = _cat(full, like).head(len(got))
            if len(got) >= len(want) and len(got) <= n and _same(got, glob, False):
                return None
        if sorted_sem:
            # Head(sort) is answered by NFirst: the global first n rows (a superset of the literal answer
            # when the leading partitions hold fewer than n rows)
            glob = _cat(full, like).head(n)
            if _same(got, want, False) or (len(want) < n and _same(got, glob, False)):
                return None
            return ("rows", f"head({n}, npartitions={k}) of a sorted frame\ngot:\n{e2e.describe(got)}\nwant:\n{e2e.describe(want)}")
        if unordered:
            if len(got) != len(want):
                return ("rows", f"head({n}, npartitions={k}): {len(got)} rows, expected {len(want)}")
            lead_rows = e2e.canon_obj(lead)[2]
            if any(row not in lead_rows for row in e2e.canon_obj(got)[2]):
                return ("rows", f"head({n}, npartitions={k}) returned rows that are not in the first partitions")
            if len(lead) <= n and not _same(got, lead, True):
                return ("rows", f"head({n}, npartitions={k}) differs from the rows of the first partitions")
            return None
        if not _same(got, want, False):
            return ("rows", f"head({n}, npartitions={k})\ngot:\n{e2e.describe(got)}\nwant:\n{e2e.describe(want)}")
        return None

    if kind == "tail":
        n = sel["n"]
        r = e2e.run_or_err(lambda: x.tail(n))
        if r[0] == "err":
            return (f"raised:{r[1]}", f"tail({n}) raised {r[1]}: {r[2]}")
        got = r[1]
        want = full[-1].tail(n)
        if not unordered and not sorted_sem and not _same(got, want, False) and _has_fused_io(x):
            glob = _cat(full, like).tail(len(got))  # see head: the last fused partition is a union of trailing partitions
            if len(got) >= len(want) and len(got) <= n and _same(got, glob, False):
                return None
        if sorted_sem:
            glob = _cat(full, like).tail(n)
            if _same(got, want, False) or (len(want) < n and _same(got, glob, False)):
                return None
            return ("rows", f"tail({n}) of a sorted frame\ngot:\n{e2e.describe(got)}\nwant:\n{e2e.describe(want)}")
        if unordered:
            if len(got) != len(want):
                return ("rows", f"tail({n}): {len(got)} rows, expected {len(want)}")
            last_rows = e2e.canon_obj(full[-1])[2]
            if any(row not in last_rows for row in e2e.canon_obj(got)[2]):
                return ("rows", f"tail({n}) returned rows that are not in the last partition")
            return None
        if not _same(got, want, False):
            return ("rows", f"tail({n})\ngot:\n{e2e.describe(got)}\nwant:\n{e2e.describe(want)}")
        return None

    if kind == "nested_head":
        n1, k1, n2 = sel["n1"], sel["k1"], sel["n2"]
        r = e2e.run_or_err(lambda: x.head(n1, npartitions=k1, compute=False).head(n2))
        if k1 > np_:
            if r[0] == "err" and r[1] in ("ValueError", "IndexError") or sorted_sem:
                return None
            return ("no-error", f"head(npartitions={k1}) on {np_} partitions did not raise: {r[:2]}")
        if r[0] == "err":
            return (f"raised:{r[1]}", f"head({n1},{k1}).head({n2}) raised {r[1]}: {r[2]}")
        want = _cat(full[: (len(full) if k1 == -1 else k1)], like).head(n1).head(n2)
        if unordered or sorted_sem:
            return None if len(r[1]) == len(want) or sorted_sem else ("rows", f"nested head: {len(r[1])} rows, expected {len(want)}")
        if not _same(r[1], want, False):
            return ("rows", f"head({n1}, npartitions={k1}).head({n2})\ngot:\n{e2e.describe(r[1])}\nwant:\n{e2e.describe(want)}")
        return None
    raise KeyError(kind)


def selections(np_, quick, rng):
    sels = []
    allp = list(range(np_))
    cand = [[0], [np_ - 1], allp[1:3], allp[::-1][:2], [0, 0], [1, 1, 0] if np_ > 1 else [0, 0, 0], allp, allp[::2],
            [np_ - 1, 0, 1] if np_ > 2 else [0], allp[1:]]
    seen = []
    for P in cand:
        if P and P not in seen and all(p < np_ for p in P):
            seen.append(P)
    for P in seen:
        sels.append({"kind": "partitions", "P": P})
    sels.append({"kind": "get_partition", "P": [np_ - 1]})
    sels.append({"kind": "get_partition", "P": [0]})
    sels.append({"kind": "to_delayed_sel", "P": allp[::-1][:2]})
    if np_ > 1:  # empty selections are outside the vetted space (Partitions._divisions raises UnboundLocalError on them)
        sels.append({"kind": "to_delayed_sel", "P": allp[1:]})
    sels.append({"kind": "to_delayed", "optimize": True})
    sels.append({"kind": "to_delayed", "optimize": False})
    for n in (2, 7, 50):
        for k in (1, 2, np_, -1, np_ + 1):
            if k == np_ + 1 and n != 2:
                continue
            sels.append({"kind": "head", "n": n, "k": k})
    for n in (2, 50):
        sels.append({"kind": "tail", "n": n})
    sels.append({"kind": "nested_head", "n1": 7, "k1": 2, "n2": 6})
    sels.append({"kind": "nested_head", "n1": 3, "k1": -1, "n2": 9})
    return sels


_MECHANISM = {"id": None, "assign_series": "elemwise-series-operand", "mul_axis0": "elemwise-series-operand",
              "where_series": "elemwise-series-operand", "add1": "elemwise", "filter": "filter", "col_a": "projection", "bcast_assign": "broadcast-operand",
              "bcast_series": "broadcast-operand", "bcast_where": "broadcast-operand", "mappart": "map_partitions",
              "mappart_bcast": "broadcast-operand", "add1_filter_proj": "elemwise", "repart3": "repartition", "repart7": "repartition",
              "shuffle_tasks": "shuffle", "shuffle_tasks_mb2": "shuffle", "shuffle_disk": "shuffle", "shuffle_add1": "shuffle",
              "bjoin": "broadcast-join", "bjoin_left": "broadcast-join", "sort_a": "sort", "sort_a_desc": "sort", "set_index_a": "set_index"}


def _signature(case, what):
    """check (what was selected) x mechanism the selection is pushed through x selection shape x symptom.
    The data source only enters for the bare source (chain `id`)."""
    sel = case["sel"]
    kind = "partitions" if sel["kind"] in ("partitions", "get_partition", "to_delayed_sel") else sel["kind"]
    mech = _MECHANISM[case["chain"]] or ("source:" + case["source"])
    sig = {"check": kind, "mechanism": mech, "what": what}
    if "P" in sel:
        shape = _sel_shape(sel["P"])
        sig["selection"] = shape if shape in ("repeated", "reordered", "empty") else "ascending"
    return sig


# chains that are cheap and cover every selection mechanism: run on every source; the others on a subset
_CORE_CHAINS = ["id", "add1", "filter", "col_a", "bcast_assign", "bcast_series", "mappart_bcast", "assign_series", "mul_axis0"]
_HEAVY_CHAINS = [c for c in CHAINS if c not in _CORE_CHAINS]
_HEAVY_SOURCES = ["from_pandas", "from_map", "from_array", "read_parquet_div"]


def all_cases(ctx, broken=()):
    cases = []
    for s in SOURCES:
        chains = list(_CORE_CHAINS) + (_HEAVY_CHAINS if s in _HEAVY_SOURCES else ["shuffle_tasks", "sort_a"])
        for c in chains:
            if CHAINS[c][2] and s not in UNIQUE_A:
                continue  # ties between sort keys: row order unspecified
            try:
                np_ = build(s, c).npartitions
            except Exception:  # noqa: BLE001
                continue
            for sel in selections(np_, ctx.quick, ctx.rng):
                cases.append({"source": s, "chain": c, "sel": sel})
    return cases


# one case per mechanism that has failed in the past (fixed findings D2-D6, D12, D14, D22): always run
MUST_RUN = [
    {"source": "from_pandas", "chain": "bcast_series", "sel": {"kind": "head", "n": 2, "k": 1}},          # D2
    {"source": "from_pandas", "chain": "add1", "sel": {"kind": "head", "n": 7, "k": 2}},                  # D3
    {"source": "from_pandas", "chain": "id", "sel": {"kind": "nested_head", "n1": 7, "k1": 2, "n2": 6}},  # D3b
    {"source": "from_array", "chain": "id", "sel": {"kind": "head", "n": 2, "k": 1}},                     # D4
    {"source": "from_array", "chain": "id", "sel": {"kind": "partitions", "P": [1, 2]}},                  # D4
    {"source": "from_pandas", "chain": "shuffle_tasks_mb2", "sel": {"kind": "partitions", "P": [2, 3, 4]}},  # D6
    {"source": "from_pandas", "chain": "id", "sel": {"kind": "to_delayed_sel", "P": [2, 0]}},             # D12
    {"source": "from_pandas", "chain": "repart7", "sel": {"kind": "to_delayed", "optimize": True}},       # D14
    {"source": "from_pandas", "chain": "shuffle_tasks", "sel": {"kind": "tail", "n": 2}},                 # D22
]


def _cases(ctx, broken):
    cases = all_cases(ctx, broken)
    steered = []
    for b in broken:
        inp = (b.get("first") or {}).get("input")
        fam = b.get("family", "") + str(b.get("theorem", ""))
        if isinstance(inp, dict):
            # a disagreeing source / rule: run every selection on that source (or on chains exercising the rule)
            src = inp.get("source")
            for c in cases:
                if (src and c["source"] == src) or (("head" in fam.lower() or "Head" in str(inp)) and c["sel"]["kind"] in ("head", "nested_head")) \
                        or (("tail" in fam.lower()) and c["sel"]["kind"] == "tail") \
                        or (("shuffle" in fam.lower()) and "shuffle" in c["chain"]):
                    steered.append(c)
    if ctx.quick:
        idx = list(range(len(cases)))
        ctx.rng.shuffle(idx)
        n = 700 if not broken else 1200
        cases = [cases[i] for i in sorted(idx[:n])]
    return MUST_RUN + steered[:600] + cases


def support(ctx, broken):
    sup = Support()
    seen_sig = set()
    done = set()
    for case in _cases(ctx, broken):
        key = repr(case)
        if key in done:
            continue
        done.add(key)
        try:
            res = run_case(case)
        except Exception as ex:  # noqa: BLE001  (a crash of the oracle itself must not look like a pass)
            res = ("harness-exception", f"{type(ex).__name__}: {str(ex)[:300]}")
        sup.executed += 1
        sup.count(f"{case['sel']['kind']}")
        if len(sup.samples) < 3:
            sup.samples.append(case)
        if res:
            sig = _signature(case, res[0])
            k = repr(sorted(sig.items()))
            if k in seen_sig:
                continue
            seen_sig.add(k)
            sup.failures.append(Failure(sig=sig, case=case, detail=res[1]))
            if len(sup.failures) >= 40:
                break
    return sup


def replay(case):
    res = run_case(case)
    return Failure(sig=_signature(case, res[0]), case=case, detail=res[1]) if res else None


def families(ctx):
    return []
