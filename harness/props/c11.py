"""C11 — selecting partitions or leading/trailing rows commutes with the computation."""
from __future__ import annotations

import atexit
import itertools
import operator
import shutil
import tempfile

import numpy as np
import pandas as pd

from harness import e2e
from harness.core import Family, Failure, Support, drive, first_diff
from harness.render import Names, rgraph, rtask

LEAN_MODULES = ["DxModel.Props.C11"]
GENERATED = []
TRUSTED = [
    "Interp hypotheses of Layers/Head.lean: M.head / safe_head = List.take, M.tail = List.drop (len - n) (validated by family helper_specs)",
    "row-local operators are modelled by the category laws `Additive` / `TakeCommutes` (hypotheses of C11_head_push / C11_partitions_blockwise; instances for map / zipWith / filter proven)",
    "harness/render.py canonical text of tasks; expression trees rendered by c11._rexpr (class name + non-default scalar operands)",
    "csv / parquet file splitting is not modelled (shape only: task j of the filtered reader = task P[j] of the unfiltered reader)",
]
PARTIAL = [
    "C11_tail_push_partial: Tail._simplify_down wraps every Expr operand (also broadcast ones); proven for operand lists without broadcast operands, counterexample theorem for the rule as it is",
    "C11_filtered_contract for BroadcastJoin is stated for the layer as emitted (output keys are numbered by ORIGINAL partition number): theorem C11_bjoin_keys_partial + counterexample",
    "C11_sorted_head is proven for total antisymmetric orders (ties between different rows are not ordered by the real sort either)",
]
EXPLANATION = (
    "Theorems: partition-filter contract of every modelled source/shuffle (tasks of cls(_partitions=P) = P.map tasks, divisions via DivInv for "
    "strictly ascending P), Partitions push-down through row-local blockwise operators with broadcast operands, lowered head/tail graphs = "
    "take/drop of the concatenated leading partitions (error iff npartitions > frame.npartitions), head push-down through elementwise operators, "
    "nested heads, sorted head via per-partition n-firsts. Tie: exact graph / rule-output equality with the real code for all sources x index sets "
    "(sizes <= 6) and for Partitions/Head/Tail._simplify_down/_lower on constructed expressions. Support: real selections on every source x chain "
    "versus the corresponding partitions of the fully computed collection."
)

# =========================================================================== data sources

_TMP = None


def _tmpdir():
    global _TMP
    if _TMP is None:
        _TMP = tempfile.mkdtemp(prefix="verif-c11-")
        atexit.register(shutil.rmtree, _TMP, ignore_errors=True)
    return _TMP


def base(n=20):
    """a: unique (a permutation), b: join / shuffle key with duplicates, v: payload; sorted even int index."""
    return pd.DataFrame(
        {
            "a": np.array([(7 * i + 3) % n for i in range(n)], dtype="int64"),
            "b": np.array([i % 3 for i in range(n)], dtype="int64"),
            "v": np.arange(n, dtype="int64") * 10,
        },
        index=pd.Index(np.arange(n, dtype="int64") * 2),
    )


def small():
    return pd.DataFrame({"b": np.array([0, 1, 2, 1], dtype="int64"), "z": np.array([10, 20, 30, 40], dtype="int64")})


_SRC_CACHE = {}


def _written(kind):
    import dask_expr as dx

    key = ("written", kind)
    if key not in _SRC_CACHE:
        import os

        d = os.path.join(_tmpdir(), kind)
        os.makedirs(d, exist_ok=True)
        pdf = base()
        if kind == "csv":
            for i in range(4):
                pdf.iloc[5 * i : 5 * i + 5].to_csv(os.path.join(d, f"part-{i}.csv"), index=False)
        else:
            idx = pdf.copy()
            idx.index.name = "i"
            dx.from_pandas(idx, npartitions=6, sort=True).to_parquet(d)
        _SRC_CACHE[key] = d
    return _SRC_CACHE[key]


def _delayed_parts(cuts):
    from dask import delayed

    pdf = base()
    return [delayed(pdf.iloc[cuts[i] : cuts[i + 1]], name=f"verif-part-{cuts[i]}-{cuts[i+1]}") for i in range(len(cuts) - 1)]


def make_source(name):
    """Deterministic small collections, one per kind of data source (3..6 partitions)."""
    import dask_expr as dx

    pdf = base()
    if name == "from_pandas":
        return dx.from_pandas(pdf, npartitions=5)
    if name == "from_pandas_dense7":
        d = base(7)
        d.index = pd.Index(np.arange(7, dtype="int64"))
        return dx.from_pandas(d, npartitions=3)
    if name == "from_pandas_12":
        return dx.from_pandas(base(24), npartitions=12)
    if name == "from_pandas_one":
        return dx.from_pandas(pdf, npartitions=1)
    if name == "from_pandas_dupidx":
        d = pdf.copy()
        d.index = pd.Index([i // 2 for i in range(len(d))], dtype="int64")
        return dx.from_pandas(d, npartitions=3)
    if name == "from_pandas_dupidx_one":
        d = pdf.copy()
        d.index = pd.Index([i // 2 for i in range(len(d))], dtype="int64")
        return dx.from_pandas(d, npartitions=1)
    if name == "from_pandas_nosort":
        return dx.from_pandas(pdf.iloc[::-1], npartitions=4, sort=False)
    if name == "from_array":
        return dx.from_array(pdf[["a", "b", "v"]].to_numpy(), chunksize=6, columns=["a", "b", "v"])
    if name == "from_map":
        return e2e.frame_from_cuts(pdf, [0, 4, 4, 9, 15, 20], known_divisions=False)
    if name == "from_map_div":
        return e2e.frame_from_cuts(pdf, [0, 4, 9, 15, 20], known_divisions=True)
    if name == "from_delayed":
        return dx.from_delayed(_delayed_parts([0, 5, 9, 16, 20]), meta=pdf.iloc[:0])
    if name == "from_delayed_div":
        return dx.from_delayed(_delayed_parts([0, 5, 9, 16, 20]), meta=pdf.iloc[:0], divisions=(0, 10, 18, 32, 38))
    if name == "from_graph":
        return (dx.from_pandas(pdf, npartitions=4) + 0).persist()
    if name == "timeseries":
        from dask_expr.datasets import timeseries

        return timeseries(start="2000-01-01", end="2000-01-06", freq="6h", partition_freq="1d",
                          dtypes={"a": int, "b": int, "v": int}, seed=7)
    if name == "read_csv":
        import os

        return dx.read_csv(os.path.join(_written("csv"), "part-*.csv"))
    if name == "read_parquet":
        return dx.read_parquet(_written("parquet"))
    if name == "read_parquet_div":
        return dx.read_parquet(_written("parquet"), calculate_divisions=True)
    if name == "read_parquet_arrow":
        return dx.read_parquet(_written("parquet"), filesystem="arrow")
    raise KeyError(name)


SOURCES = ["from_pandas", "from_pandas_one", "from_pandas_dupidx", "from_pandas_dupidx_one", "from_pandas_nosort", "from_array", "from_map", "from_map_div", "from_delayed",
           "from_delayed_div", "from_graph", "timeseries", "read_csv", "read_parquet", "read_parquet_div",
           "read_parquet_arrow"]
UNIQUE_A = {s for s in SOURCES if s != "timeseries"}  # sources whose column `a` has no ties


def _mp(p):
    return p.assign(m=p.a * 3)


def _mp_info(p, partition_info=None):
    return p.assign(num=partition_info["number"] if partition_info is not None else -1)


def _ix_plus1(ix):
    return ix + 1


def _mp2(p, s):
    return p.assign(m=p.a + s)


# chain name -> (function, unordered rows inside a partition, sorted-head semantics)
CHAINS = {
    "id": (lambda x: x, False, False),
    "add1": (lambda x: x + 1, False, False),
    # per-partition arguments looked up by position (BlockwiseDep bin edges of a resample): D113
    "resample_12h": (lambda x: x.a.resample("12h").sum(), False, False),
    # a narrow projection below an operation: the tune stage fuses several files of a parquet read into one task
    "proj_a_add1": (lambda x: x[["a"]] + 1, False, False),
    "filter": (lambda x: x[x.a > 4], False, False),
    "col_a": (lambda x: x.a, False, False),
    "bcast_assign": (lambda x: x.assign(z=x.a + x.a.sum()), False, False),
    "bcast_series": (lambda x: x.a + x.a.max(), False, False),
    "bcast_where": (lambda x: x[x.a > x.b.max()], False, False),
    "assign_series": (lambda x: x.assign(z=x.a + 1), False, False),
    "mul_axis0": (lambda x: x[["a", "v"]].mul(x.b, axis=0), False, False),
    "where_series": (lambda x: x.a.where(x.b > 0, -1), False, False),
    "mappart": (lambda x: x.map_partitions(_mp), False, False),
    "mappart_bcast": (lambda x: x.map_partitions(_mp2, x.b.sum()), False, False),
    "add1_filter_proj": (lambda x: (x + 1)[(x + 1).a > 3][["a", "v"]], False, False),
    "repart3": (lambda x: x.repartition(npartitions=3), False, False),
    "repart7": (lambda x: x.repartition(npartitions=7), False, False),
    "shuffle_tasks": (lambda x: x.shuffle("b", shuffle_method="tasks"), True, False),
    "shuffle_tasks_mb2": (lambda x: x.shuffle("b", npartitions=5, shuffle_method="tasks", max_branch=2), True, False),
    "shuffle_tasks_up_mb2": (lambda x: x.shuffle("b", npartitions=8, shuffle_method="tasks", max_branch=2), True, False),
    "shuffle_disk": (lambda x: x.shuffle("b", shuffle_method="disk"), True, False),
    "shuffle_add1": (lambda x: x.shuffle("b", shuffle_method="tasks") + 1, True, False),
    "bjoin": (lambda x: x.merge(_small_coll(), on="b", broadcast=True, shuffle_method="tasks"), True, False),
    "bjoin_left": (lambda x: x.merge(_small_coll(), on="b", how="left", broadcast=True, shuffle_method="tasks"), True, False),
    # operations whose tasks depend on the partition NUMBER (D105): random state per partition, partition_info
    "sample_half": (lambda x: x.sample(frac=0.5, random_state=7), False, False),
    "mappart_info": (lambda x: x.map_partitions(_mp_info, meta=x._meta.assign(num=0)), False, False),
    "split_first": (lambda x: x.random_split([0.5, 0.5], random_state=3)[0], False, False),
    # an index-like collection that is not elementwise (D106)
    "index_mappart": (lambda x: x.index.map_partitions(_ix_plus1), False, False),
    # a lowered shuffle: selections are pushed INTO the shuffle node (D108)
    "shuffle_tasks_lowered": (lambda x: x.shuffle("b", shuffle_method="tasks").optimize(), True, False),
    # operations whose partition i needs rows of neighbouring / all earlier partitions (D82)
    "shift1": (lambda x: x.shift(1), False, False),
    "shift_m1": (lambda x: x.shift(-1), False, False),
    "diff1": (lambda x: x[["a", "b"]].diff(1), False, False),
    "cumsum": (lambda x: x[["a", "b"]].cumsum(), False, False),
    "rolling2": (lambda x: x.a.rolling(2).sum(), False, False),
    "sort_a": (lambda x: x.sort_values("a"), False, True),
    "sort_a_desc": (lambda x: x.sort_values("a", ascending=False), False, True),
    "set_index_a": (lambda x: x.set_index("a"), False, True),
}


def _small_coll():
    import dask_expr as dx

    return dx.from_pandas(small(), npartitions=2)


def build(source, chain):
    return CHAINS[chain][0](make_source(source))


_REF_CACHE = {}


def reference(source, chain):
    """Partitions of the fully computed collection: the plan lowered WITHOUT optimisation (one partition per
    logical partition).  -> ("ok", [parts]) | ("err", type, msg)"""
    key = (source, chain)
    if key not in _REF_CACHE:
        def go():
            x = build(source, chain)
            parts = e2e.compute_partitions(x, optimize=False)
            if len(parts) != x.npartitions:
                raise RuntimeError(f"reference has {len(parts)} partitions, npartitions={x.npartitions}")
            return parts

        _REF_CACHE[key] = e2e.run_or_err(go)
    return _REF_CACHE[key]


def _head(obj, n):
    return obj[:n] if isinstance(obj, pd.Index) else obj.head(n)


def _tail(obj, n):
    return (obj[-n:] if n else obj[:0]) if isinstance(obj, pd.Index) else obj.tail(n)


def _cat(parts, like):
    parts = [p for p in parts]
    if not parts:
        return like[:0] if isinstance(like, pd.Index) else like.iloc[:0]
    if isinstance(parts[0], pd.Index):
        out = parts[0]
        for p in parts[1:]:
            out = out.append(p)
        return out
    return pd.concat(parts)


def _sel_shape(P):
    if len(P) == 0:
        return "empty"
    if any(b == a for a, b in itertools.combinations(P, 2)):
        return "repeated"
    if any(b <= a for a, b in zip(P, P[1:])):
        return "reordered"
    if len(P) == 1:
        return "single"
    return "contiguous" if all(b == a + 1 for a, b in zip(P, P[1:])) else "ascending"


def _same(a, b, unordered):
    return e2e.same(a, b, sort_rows=unordered, drop_index=False)


def _has_fused_io(coll):
    from dask_expr.io.io import FusedIO

    try:
        return bool(list(coll.optimize(fuse=False).expr.find_operations(FusedIO)))
    except Exception:  # noqa: BLE001
        return False


def run_case(case):
    """-> None (property holds) | (what, detail)"""
    source, chain, sel = case["source"], case["chain"], case["sel"]
    unordered, sorted_sem = CHAINS[chain][1], CHAINS[chain][2]
    ref = reference(source, chain)
    if ref[0] == "err":
        if ref[1] == "RuntimeError" and "reference has" in ref[2]:
            # the collection reports a partition count its own plan does not have: positions are meaningless
            return ("npartitions", ref[2])
        return None  # the query itself is not computable: nothing to commute with
    full = ref[1]
    like = full[0]
    kind = sel["kind"]
    x = build(source, chain)
    np_ = x.npartitions

    if kind in ("partitions", "get_partition", "to_delayed_sel"):
        P = sel["P"]
        want_parts = [full[p] for p in P]
        want = _cat(want_parts, like)
        if kind == "get_partition":
            mk = lambda: x.get_partition(P[0])  # noqa: E731
        else:
            mk = lambda: x.partitions[P]  # noqa: E731
        if kind == "to_delayed_sel":
            import dask

            r = e2e.run_or_err(lambda: list(dask.compute(*mk().to_delayed())))
        else:
            r = e2e.run_or_err(lambda: e2e.compute_partitions(mk()))
        if r[0] == "err":
            return (f"raised:{r[1]}", f"{kind}{P} raised {r[1]}: {r[2]}")
        got = r[1]
        if len(got) != len(P):
            if not _has_fused_io(mk()):
                return ("partition-count", f"{kind}{P}: {len(got)} partitions computed for {len(P)} selected")
        elif not unordered or True:
            for j, (g, w) in enumerate(zip(got, want_parts)):
                if not _same(g, w, unordered):
                    return ("rows", f"{kind}{P}: output {j} differs from partition {P[j]} of the full collection\n"
                                    f"got:\n{e2e.describe(g)}\nwant:\n{e2e.describe(w)}")
        if not _same(_cat(got, like), want, unordered):
            return ("rows", f"{kind}{P}: concatenation differs\ngot:\n{e2e.describe(_cat(got, like))}\nwant:\n{e2e.describe(want)}")
        if kind == "partitions":
            r2 = e2e.run_or_err(lambda: mk().compute())
            if r2[0] == "err":
                return (f"raised:{r2[1]}", f"partitions{P}.compute() raised {r2[1]}: {r2[2]}")
            if not _same(r2[1], want, unordered):
                return ("rows", f"partitions{P}.compute() differs from the selected partitions of the full collection")
        return None

    if kind == "len_sel":
        P = sel["P"]
        want_n = sum(len(full[p]) for p in P)
        r = e2e.run_or_err(lambda: len(x.partitions[P]))
        if r[0] == "err":
            rd = e2e.run_or_err(lambda: len(x.partitions[P].compute()))
            if rd[0] == "err":
                return None  # the data path fails as well: reported by the `partitions` checks
            return (f"raised:{r[1]}", f"len(partitions{P}) raised {r[1]}: {r[2]}")
        if r[1] != want_n:
            return ("len", f"len(partitions{P}) = {r[1]}, the selected partitions of the full collection hold {want_n} rows")
        return None

    if kind == "to_delayed":
        import dask

        r = e2e.run_or_err(lambda: list(dask.compute(*x.to_delayed(optimize_graph=sel["optimize"]))))
        if r[0] == "err":
            return (f"raised:{r[1]}", f"to_delayed raised {r[1]}: {r[2]}")
        got = r[1]
        if len(got) == len(full):
            for j, (g, w) in enumerate(zip(got, full)):
                if not _same(g, w, unordered):
                    return ("rows", f"to_delayed()[{j}] differs from partition {j}")
        elif not _has_fused_io(x):
            return ("partition-count", f"to_delayed gave {len(got)} objects for {len(full)} partitions")
        if not _same(_cat(got, like), _cat(full, like), unordered):
            return ("rows", "to_delayed(): concatenation differs")
        return None

    if kind == "head":
        n, k = sel["n"], sel["k"]
        r = e2e.run_or_err(lambda: x.head(n, npartitions=k))
        if k > np_:
            if r[0] == "err" and r[1] in ("ValueError", "IndexError"):
                return None  # refused (Head._lower: ValueError; Head._divisions may raise IndexError first)
            if sorted_sem and r[0] == "ok" and _same(r[1], _head(_cat(full, like), n), False):
                return None  # Head(sort) -> NFirst never looks at npartitions: the global answer, no error
            return ("no-error", f"head(npartitions={k}) on {np_} partitions did not raise ValueError: {r[:2]}")
        if r[0] == "err":
            return (f"raised:{r[1]}", f"head({n}, npartitions={k}) raised {r[1]}: {r[2]}")
        got = r[1]
        lead = _cat(full[: (len(full) if k == -1 else k)], like)
        want = _head(lead, n)
        if not unordered and not sorted_sem and not _same(got, want, False) and _has_fused_io(x):
            # FusedIO (tune stage) coarsens the partitions of a column-projected multi-file read: the k leading
            # partitions of the optimised plan are a union of leading logical partitions.  Accepted: a prefix of
            # the whole collection that contains the literal answer.
            glob = _head(_cat(full, like), len(got))
            if len(got) >= len(want) and len(got) <= n and _same(got, glob, False):
                return None
        if sorted_sem:
            # Head(sort) is answered by NFirst: the global first n rows (a superset of the literal answer
            # when the leading partitions hold fewer than n rows)
            glob = _head(_cat(full, like), n)
            if _same(got, want, False) or (len(want) < n and _same(got, glob, False)):
                return None
            return ("rows", f"head({n}, npartitions={k}) of a sorted frame\ngot:\n{e2e.describe(got)}\nwant:\n{e2e.describe(want)}")
        if unordered:
            if len(got) != len(want):
                return ("rows", f"head({n}, npartitions={k}): {len(got)} rows, expected {len(want)}")
            lead_rows = e2e.canon_obj(lead)[2]
            if any(row not in lead_rows for row in e2e.canon_obj(got)[2]):
                return ("rows", f"head({n}, npartitions={k}) returned rows that are not in the first partitions")
            if len(lead) <= n and not _same(got, lead, True):
                return ("rows", f"head({n}, npartitions={k}) differs from the rows of the first partitions")
            return None
        if not _same(got, want, False):
            return ("rows", f"head({n}, npartitions={k})\ngot:\n{e2e.describe(got)}\nwant:\n{e2e.describe(want)}")
        return None

    if kind == "tail":
        n = sel["n"]
        r = e2e.run_or_err(lambda: x.tail(n))
        if r[0] == "err":
            return (f"raised:{r[1]}", f"tail({n}) raised {r[1]}: {r[2]}")
        got = r[1]
        want = _tail(full[-1], n)
        if not unordered and not sorted_sem and not _same(got, want, False) and _has_fused_io(x):
            glob = _tail(_cat(full, like), len(got))  # see head: the last fused partition is a union of trailing partitions
            if len(got) >= len(want) and len(got) <= n and _same(got, glob, False):
                return None
        if sorted_sem:
            glob = _tail(_cat(full, like), n)
            if _same(got, want, False) or (len(want) < n and _same(got, glob, False)):
                return None
            return ("rows", f"tail({n}) of a sorted frame\ngot:\n{e2e.describe(got)}\nwant:\n{e2e.describe(want)}")
        if unordered:
            if len(got) != len(want):
                return ("rows", f"tail({n}): {len(got)} rows, expected {len(want)}")
            last_rows = e2e.canon_obj(full[-1])[2]
            if any(row not in last_rows for row in e2e.canon_obj(got)[2]):
                return ("rows", f"tail({n}) returned rows that are not in the last partition")
            return None
        if not _same(got, want, False):
            return ("rows", f"tail({n})\ngot:\n{e2e.describe(got)}\nwant:\n{e2e.describe(want)}")
        return None

    if kind == "nested_head":
        n1, k1, n2 = sel["n1"], sel["k1"], sel["n2"]
        r = e2e.run_or_err(lambda: x.head(n1, npartitions=k1, compute=False).head(n2))
        if k1 > np_:
            if r[0] == "err" and r[1] in ("ValueError", "IndexError") or sorted_sem:
                return None
            return ("no-error", f"head(npartitions={k1}) on {np_} partitions did not raise: {r[:2]}")
        if r[0] == "err":
            return (f"raised:{r[1]}", f"head({n1},{k1}).head({n2}) raised {r[1]}: {r[2]}")
        want = _head(_head(_cat(full[: (len(full) if k1 == -1 else k1)], like), n1), n2)
        if unordered or sorted_sem:
            return None if len(r[1]) == len(want) or sorted_sem else ("rows", f"nested head: {len(r[1])} rows, expected {len(want)}")
        if not _same(r[1], want, False):
            return ("rows", f"head({n1}, npartitions={k1}).head({n2})\ngot:\n{e2e.describe(r[1])}\nwant:\n{e2e.describe(want)}")
        return None
    if kind in ("parts_head", "parts_tail"):
        # a head / tail ABOVE a partition selection: positions refer to the selected collection
        P = sel["P"]
        sub = [full[p] for p in P]
        if kind == "parts_head":
            n, k = sel["n"], sel["k"]
            if k > len(P):
                return None
            r = e2e.run_or_err(lambda: x.partitions[P].head(n, npartitions=k))
            want = _head(_cat(sub[: (len(sub) if k == -1 else k)], like), n)
            what = f"partitions{P}.head({n}, npartitions={k})"
        else:
            n = sel["n"]
            r = e2e.run_or_err(lambda: x.partitions[P].tail(n))
            want = _tail(sub[-1], n)
            what = f"partitions{P}.tail({n})"
        if r[0] == "err":
            return (f"raised:{r[1]}", f"{what} raised {r[1]}: {r[2]}")
        got = r[1]
        if sorted_sem or _has_fused_io(x.partitions[P]):
            return None  # NFirst/NLast and fused readers answer with a superset prefix (see `head`)
        if unordered:
            return None if len(got) == len(want) else ("rows", f"{what}: {len(got)} rows, expected {len(want)}")
        if not _same(got, want, False):
            return ("rows", f"{what}\ngot:\n{e2e.describe(got)}\nwant:\n{e2e.describe(want)}")
        return None
    raise KeyError(kind)


def selections(np_, quick, rng):
    sels = []
    allp = list(range(np_))
    cand = [[0], [np_ - 1], allp[1:3], allp[::-1][:2], [0, 0], [1, 1, 0] if np_ > 1 else [0, 0, 0], allp, allp[::2],
            [np_ - 1, 0, 1] if np_ > 2 else [0], allp[1:]]
    seen = []
    for P in cand:
        if P and P not in seen and all(p < np_ for p in P):
            seen.append(P)
    for P in seen:
        sels.append({"kind": "partitions", "P": P})
    sels.append({"kind": "get_partition", "P": [np_ - 1]})
    sels.append({"kind": "get_partition", "P": [0]})
    sels.append({"kind": "to_delayed_sel", "P": allp[::-1][:2]})
    if np_ > 1:  # empty selections are outside the vetted space (Partitions._divisions raises UnboundLocalError on them)
        sels.append({"kind": "to_delayed_sel", "P": allp[1:]})
    if np_ > 2:
        sels.append({"kind": "len_sel", "P": [1, 2]})
        sels.append({"kind": "len_sel", "P": [np_ - 1, 0]})
        sels.append({"kind": "len_sel", "P": [0, 0]})
    sels.append({"kind": "to_delayed", "optimize": True})
    sels.append({"kind": "to_delayed", "optimize": False})
    for n in (2, 7, 50):
        for k in (1, 2, np_, -1, np_ + 1):
            if k == np_ + 1 and n != 2:
                continue
            sels.append({"kind": "head", "n": n, "k": k})
    for n in (2, 50):
        sels.append({"kind": "tail", "n": n})
    if np_ > 2:
        sels.append({"kind": "parts_head", "P": allp[1:], "n": 3, "k": 1})
        sels.append({"kind": "parts_head", "P": [1, 0], "n": 3, "k": 1})
        sels.append({"kind": "parts_head", "P": [np_ - 1, 0, 1], "n": 50, "k": 2})
        sels.append({"kind": "parts_head", "P": [np_ - 1], "n": 2, "k": 1})
        sels.append({"kind": "parts_tail", "P": allp[:-1], "n": 2})
        sels.append({"kind": "parts_tail", "P": [1, 0], "n": 2})
    sels.append({"kind": "nested_head", "n1": 7, "k1": 2, "n2": 6})
    sels.append({"kind": "nested_head", "n1": 3, "k1": -1, "n2": 9})
    return sels


_MECHANISM = {"id": None, "assign_series": "elemwise-series-operand", "mul_axis0": "elemwise-series-operand",
              "where_series": "elemwise-series-operand", "add1": "elemwise", "proj_a_add1": "elemwise", "resample_12h": "resample", "filter": "filter", "col_a": "projection", "bcast_assign": "broadcast-operand",
              "bcast_series": "broadcast-operand", "bcast_where": "broadcast-operand", "mappart": "map_partitions",
              "mappart_bcast": "broadcast-operand", "add1_filter_proj": "elemwise", "repart3": "repartition", "repart7": "repartition",
              "shuffle_tasks": "shuffle", "shuffle_tasks_mb2": "shuffle", "shuffle_tasks_up_mb2": "shuffle", "shuffle_disk": "shuffle", "shuffle_add1": "shuffle",
              "bjoin": "broadcast-join", "bjoin_left": "broadcast-join", "sort_a": "sort", "sort_a_desc": "sort", "set_index_a": "set_index",
              "sample_half": "partition-number", "mappart_info": "partition-number", "split_first": "partition-number",
              "index_mappart": "index-mappart", "shuffle_tasks_lowered": "shuffle",
              "shift1": "overlap", "shift_m1": "overlap", "diff1": "overlap", "rolling2": "overlap", "cumsum": "cumulative"}


def _signature(case, what):
    """check (what was selected) x mechanism the selection is pushed through x selection shape x symptom.
    The data source only enters for the bare source (chain `id`)."""
    sel = case["sel"]
    kind = "partitions" if sel["kind"] in ("partitions", "get_partition", "to_delayed_sel") else sel["kind"]
    if kind == "len_sel":
        try:
            leaf = [n for n in build(case["source"], case["chain"]).expr.walk() if not n.dependencies()]
            reader = type(leaf[0]).__name__ if leaf else "-"
        except Exception:  # noqa: BLE001
            reader = "-"
        shape = _sel_shape(sel["P"])
        return {"check": "len_sel", "reader": reader, "what": what,
                "selection": shape if shape in ("repeated", "reordered") else "ascending"}
    mech = _MECHANISM[case["chain"]] or ("source:" + case["source"])
    if kind in ("head", "tail", "nested_head") and case["source"].startswith("read_parquet"):
        try:
            if _has_fused_io(build(case["source"], case["chain"])):
                mech = "fused-io"  # the tune stage re-partitions the reader below the head
        except Exception:  # noqa: BLE001
            pass
    sig = {"check": kind, "mechanism": mech, "what": what}
    if "P" in sel:
        shape = _sel_shape(sel["P"])
        sig["selection"] = shape if shape in ("repeated", "reordered", "empty") else "ascending"
    return sig


# chains that are cheap and cover every selection mechanism: run on every source; the others on a subset
_CORE_CHAINS = ["id", "add1", "filter", "col_a", "bcast_assign", "bcast_series", "mappart_bcast", "assign_series", "mul_axis0"]
_LEN_CHAINS = ("id", "add1", "col_a", "assign_series", "bcast_assign", "bcast_series", "shuffle_tasks_lowered")
_HEAVY_CHAINS = [c for c in CHAINS if c not in _CORE_CHAINS]
_HEAVY_SOURCES = ["from_pandas", "from_map", "from_array", "read_parquet_div"]
_EXTRA_SOURCES = ["from_pandas_dense7", "from_pandas_12"]  # only used by MUST_RUN / replay


def all_cases(ctx, broken=()):
    cases = []
    for s in SOURCES:
        chains = list(_CORE_CHAINS) + (_HEAVY_CHAINS if s in _HEAVY_SOURCES else ["shuffle_tasks", "sort_a"])
        for c in chains:
            if CHAINS[c][2] and s not in UNIQUE_A:
                continue  # ties between sort keys: row order unspecified
            try:
                np_ = build(s, c).npartitions
            except Exception:  # noqa: BLE001
                continue
            for sel in selections(np_, ctx.quick, ctx.rng):
                if sel["kind"] == "len_sel" and c not in _LEN_CHAINS:
                    continue  # metadata row counts: only where the selection reaches the reader itself
                cases.append({"source": s, "chain": c, "sel": sel})
    return cases


# one case per mechanism that has failed in the past (fixed findings D2-D6, D12, D14, D22): always run
MUST_RUN = [
    {"source": "from_pandas", "chain": "bcast_series", "sel": {"kind": "head", "n": 2, "k": 1}},          # D2
    {"source": "from_pandas", "chain": "add1", "sel": {"kind": "head", "n": 7, "k": 2}},                  # D3
    {"source": "from_pandas", "chain": "id", "sel": {"kind": "nested_head", "n1": 7, "k1": 2, "n2": 6}},  # D3b
    {"source": "from_array", "chain": "id", "sel": {"kind": "head", "n": 2, "k": 1}},                     # D4
    {"source": "from_array", "chain": "id", "sel": {"kind": "partitions", "P": [1, 2]}},                  # D4
    {"source": "from_pandas", "chain": "shuffle_tasks_mb2", "sel": {"kind": "partitions", "P": [2, 3, 4]}},  # D6
    {"source": "from_pandas", "chain": "id", "sel": {"kind": "to_delayed_sel", "P": [2, 0]}},             # D12
    {"source": "from_pandas_dense7", "chain": "repart7", "sel": {"kind": "to_delayed", "optimize": True}},  # D14
    {"source": "from_pandas_dense7", "chain": "repart7", "sel": {"kind": "partitions", "P": [5]}},          # D14
    {"source": "from_pandas", "chain": "shuffle_tasks", "sel": {"kind": "tail", "n": 2}},                 # D22
    {"source": "from_pandas", "chain": "col_a", "sel": {"kind": "len_sel", "P": [0, 0]}},                 # D62
    {"source": "read_parquet", "chain": "col_a", "sel": {"kind": "len_sel", "P": [1, 2]}},                # D63
    {"source": "read_parquet_arrow", "chain": "add1", "sel": {"kind": "len_sel", "P": [5, 0]}},           # D63
    {"source": "from_pandas", "chain": "bcast_series", "sel": {"kind": "tail", "n": 2}},                  # D64 (tail, scalar operand)
    {"source": "from_pandas_one", "chain": "mul_axis0", "sel": {"kind": "head", "n": 2, "k": 1}},         # D64 (ambiguous operand)
    {"source": "from_pandas_one", "chain": "mul_axis0", "sel": {"kind": "tail", "n": 2}},
    {"source": "from_pandas_dupidx_one", "chain": "assign_series", "sel": {"kind": "head", "n": 2, "k": 1}},
    {"source": "from_pandas", "chain": "mul_axis0", "sel": {"kind": "nested_head", "n1": 7, "k1": 2, "n2": 6}},
    {"source": "from_pandas", "chain": "shift1", "sel": {"kind": "partitions", "P": [1, 2]}},             # D82
    {"source": "from_pandas", "chain": "shift_m1", "sel": {"kind": "partitions", "P": [1]}},
    {"source": "from_pandas", "chain": "diff1", "sel": {"kind": "partitions", "P": [2, 1]}},
    {"source": "from_pandas", "chain": "rolling2", "sel": {"kind": "get_partition", "P": [2]}},
    {"source": "from_pandas", "chain": "cumsum", "sel": {"kind": "partitions", "P": [2]}},
    {"source": "from_pandas", "chain": "shift1", "sel": {"kind": "to_delayed_sel", "P": [2, 1]}},
    # selections above an operation they cannot be pushed through, over a multi-file parquet read that the tune stage
    # would fuse into fewer partitions (D86; D70 for head over k partitions)
    {"source": "read_parquet_div", "chain": "cumsum", "sel": {"kind": "partitions", "P": [5, 0, 1]}},
    {"source": "read_parquet_div", "chain": "diff1", "sel": {"kind": "partitions", "P": [1, 1, 0]}},
    {"source": "read_parquet_div", "chain": "shift1", "sel": {"kind": "to_delayed_sel", "P": [1, 2, 3, 4, 5]}},
    {"source": "read_parquet_div", "chain": "cumsum", "sel": {"kind": "partitions", "P": [0, 0]}},
    {"source": "read_parquet", "chain": "col_a", "sel": {"kind": "head", "n": 2, "k": 6}},
    {"source": "timeseries", "chain": "resample_12h", "sel": {"kind": "partitions", "P": [1, 2]}},        # D113
    {"source": "timeseries", "chain": "resample_12h", "sel": {"kind": "partitions", "P": [3, 0]}},
    {"source": "timeseries", "chain": "resample_12h", "sel": {"kind": "tail", "n": 2}},
    {"source": "timeseries", "chain": "resample_12h", "sel": {"kind": "to_delayed_sel", "P": [4, 1]}},
    # a REORDERED selection pushed into a parquet read that is then fused (FusedIO._fusion_buckets must keep the
    # order of the selection: seeded change C11-m4 bucketed by file number)
    {"source": "read_parquet", "chain": "proj_a_add1", "sel": {"kind": "partitions", "P": [0, 3, 1, 5]}},
    {"source": "read_parquet_arrow", "chain": "proj_a_add1", "sel": {"kind": "partitions", "P": [0, 3, 1, 5]}},
    {"source": "read_parquet_div", "chain": "proj_a_add1", "sel": {"kind": "partitions", "P": [4, 1, 2, 0]}},
    {"source": "read_parquet", "chain": "proj_a_add1", "sel": {"kind": "to_delayed_sel", "P": [5, 0, 3, 1]}},
    {"source": "read_parquet", "chain": "proj_a_add1", "sel": {"kind": "parts_tail", "P": [0, 3, 1, 5, 2], "n": 2}},
    {"source": "from_pandas", "chain": "sample_half", "sel": {"kind": "partitions", "P": [2]}},            # D105
    {"source": "from_pandas", "chain": "sample_half", "sel": {"kind": "tail", "n": 2}},
    {"source": "from_pandas", "chain": "mappart_info", "sel": {"kind": "partitions", "P": [3, 1]}},
    {"source": "from_pandas", "chain": "mappart_info", "sel": {"kind": "tail", "n": 2}},
    {"source": "from_pandas", "chain": "split_first", "sel": {"kind": "get_partition", "P": [2]}},
    {"source": "from_pandas", "chain": "index_mappart", "sel": {"kind": "head", "n": 7, "k": 2}},          # D106
    {"source": "from_pandas", "chain": "index_mappart", "sel": {"kind": "head", "n": 50, "k": -1}},
    {"source": "from_pandas", "chain": "shuffle_tasks_lowered", "sel": {"kind": "len_sel", "P": [1, 2]}},  # D108
    {"source": "from_pandas", "chain": "shuffle_tasks_lowered", "sel": {"kind": "len_sel", "P": [0, 0]}},
    # head / tail above a partition selection that reached the source (positions refer to the selected collection)
    {"source": "from_pandas", "chain": "id", "sel": {"kind": "parts_head", "P": [2, 3, 4], "n": 3, "k": 1}},
    {"source": "from_pandas", "chain": "add1", "sel": {"kind": "parts_head", "P": [1, 0], "n": 3, "k": 1}},
    {"source": "from_array", "chain": "id", "sel": {"kind": "parts_head", "P": [2, 0, 1], "n": 50, "k": 2}},
    {"source": "from_map", "chain": "col_a", "sel": {"kind": "parts_head", "P": [2], "n": 2, "k": 1}},
    {"source": "from_pandas", "chain": "id", "sel": {"kind": "parts_tail", "P": [1, 0], "n": 2}},
    # staged task shuffle that increases the partition count, selection that is not a prefix
    {"source": "from_pandas", "chain": "shuffle_tasks_up_mb2", "sel": {"kind": "partitions", "P": [2, 3, 4, 5, 6]}},
    {"source": "from_pandas", "chain": "shuffle_tasks_up_mb2", "sel": {"kind": "partitions", "P": [7, 0, 3, 1]}},
    # sorted head/tail over more partitions than split_every (tree reduction with a combine level)
    {"source": "from_pandas_12", "chain": "sort_a", "sel": {"kind": "tail", "n": 3}},
    {"source": "from_pandas_12", "chain": "sort_a", "sel": {"kind": "head", "n": 3, "k": 1}},
    {"source": "from_pandas_12", "chain": "set_index_a", "sel": {"kind": "tail", "n": 3}},
    {"source": "from_pandas_12", "chain": "sort_a_desc", "sel": {"kind": "tail", "n": 3}},
]


def _cases(ctx, broken):
    cases = all_cases(ctx, broken)
    steered = []
    for b in broken:
        inp = (b.get("first") or {}).get("input")
        fam = b.get("family", "") + str(b.get("theorem", ""))
        if isinstance(inp, dict):
            # a disagreeing source / rule: run every selection on that source (or on chains exercising the rule)
            src = inp.get("source")
            for c in cases:
                if (src and c["source"] == src) or (("head" in fam.lower() or "Head" in str(inp)) and c["sel"]["kind"] in ("head", "nested_head")) \
                        or (("tail" in fam.lower()) and c["sel"]["kind"] == "tail") \
                        or (("shuffle" in fam.lower()) and "shuffle" in c["chain"]):
                    steered.append(c)
    if ctx.quick:
        idx = list(range(len(cases)))
        ctx.rng.shuffle(idx)
        n = 700 if not broken else 1200
        cases = [cases[i] for i in sorted(idx[:n])]
    return MUST_RUN + steered[:600] + cases


def support(ctx, broken):
    sup = Support()
    seen_sig = set()
    done = set()
    for case in _cases(ctx, broken):
        key = repr(case)
        if key in done:
            continue
        done.add(key)
        try:
            res = run_case(case)
        except Exception as ex:  # noqa: BLE001  (a crash of the oracle itself must not look like a pass)
            res = ("harness-exception", f"{type(ex).__name__}: {str(ex)[:300]}")
        sup.executed += 1
        sup.count(f"{case['sel']['kind']}")
        if len(sup.samples) < 3:
            sup.samples.append(case)
        if res:
            sig = _signature(case, res[0])
            k = repr(sorted(sig.items()))
            if k in seen_sig:
                continue
            seen_sig.add(k)
            sup.failures.append(Failure(sig=sig, case=case, detail=res[1]))
            if len(sup.failures) >= 40:
                break
    return sup


def replay(case):
    res = run_case(case)
    return Failure(sig=_signature(case, res[0]), case=case, detail=res[1]) if res else None



# =========================================================================== correspondence families (T2/T4)


def _divs_text(d):
    d = list(d)
    if all(x is None for x in d):
        return "unknown"
    return "known:" + (",".join(str(int(x)) for x in d) or "-")


def _err(ex):
    return "ERR " + type(ex).__name__


def _nat(l):
    return ",".join(str(int(x)) for x in l) or "-"


def _src(expr):
    """the PartitionsFiltered source node of a freshly built collection (readers are wrapped in
    ArrowStringConversion)"""
    from dask_expr._expr import PartitionsFiltered

    for x in expr.walk():
        if isinstance(x, PartitionsFiltered):
            return x
    return expr


def _frame_with_divs(full):
    """from_map source with the user divisions `full` (len(full) - 1 partitions)"""
    import dask_expr as dx

    n = len(full) - 1
    pdf = pd.DataFrame({"x": np.arange(max(n, 1), dtype="int64")})
    parts = [pdf.iloc[i : i + 1] for i in range(n)]
    return _src(dx.from_map(e2e._PartGetter(parts), list(range(n)), meta=pdf.iloc[:0], divisions=tuple(full)).expr)


def _index_sets(n, maxlen=3, extra_rng=None):
    out = [[]]
    for r in range(1, maxlen + 1):
        out += [list(c) for c in itertools.product(range(n), repeat=r)]
    return out


def fam_seldiv(ctx):
    """T2: Partitions._divisions and PartitionsFiltered.divisions (both through _divisions_of_selection)."""
    from dask_expr._expr import Partitions

    f = Family("selection_divisions[Partitions._divisions, PartitionsFiltered.divisions]")
    reqs, code, inputs, nontriv = [], [], [], []
    vectors = [[0, 10], [0, 10, 20], [0, 10, 10, 20], [5, 6, 7, 8, 9], [0, 0, 3, 7, 7, 9]]
    if not ctx.quick:
        vectors += [[1, 2, 3, 4, 5, 6, 7]]
    for full in vectors:
        fr = _frame_with_divs(full)
        n = len(full) - 1
        sets = _index_sets(n, 3 if n <= 4 else 2)
        for _ in range(10):
            sets.append([ctx.rng.randrange(n) for _ in range(ctx.rng.randint(2, 6))])
            sets.append(sorted(set(ctx.rng.randrange(n) for _ in range(ctx.rng.randint(1, 5)))))
        for P in sets:
            for site in ("Partitions", "PartitionsFiltered"):
                if site == "PartitionsFiltered" and not P:
                    # an empty `_partitions` operand is falsy: the source treats it like a selection of nothing;
                    # `divisions` then runs the same loop
                    pass
                try:
                    if site == "Partitions":
                        d = Partitions(fr, P)._divisions()
                    else:
                        d = fr.substitute_parameters({"_partitions": P}).divisions
                    txt = _divs_text(d)
                except Exception as ex:  # noqa: BLE001
                    txt = _err(ex)
                reqs.append(f"pt seldiv full={_nat(full)} P={_nat(P)}")
                code.append(txt)
                inputs.append({"site": site, "full": full, "P": P})
                nontriv.append(len(P) > 0)
    model = drive(reqs)
    f.compare(inputs, code, model, nontriv)
    f.exhaustive = True
    f.note = "division vectors with duplicates, all index lists of length <= 3 over the partitions (+ seeded longer ones), both call sites"
    return f


def fam_partitions_layer(ctx):
    """T2: exact graph of Partitions._layer()."""
    from dask_expr._expr import Partitions

    f = Family("graph_equality[Partitions._task/_layer]")
    reqs, code, inputs = [], [], []
    for n in range(1, 6):
        fr = _frame_with_divs(list(range(n + 1)))
        for P in _index_sets(n, 3 if n <= 4 else 2)[1:]:
            e = Partitions(fr, P)
            code.append("G " + rgraph(e._layer(), Names(e._name, [fr._name])))
            reqs.append(f"pt layer-partitions P={_nat(P)}")
            inputs.append({"n": n, "P": P})
    model = drive(reqs)
    f.compare(inputs, code, model)
    f.exhaustive = True
    return f


def _canon_task(t):
    """hashable canonical form of a source task (literal frames by content)"""
    import functools

    if isinstance(t, (pd.DataFrame, pd.Series)):
        return ("pd", type(t).__name__, tuple(map(str, t.index.tolist())), tuple(map(str, np.asarray(t).ravel().tolist())))
    if isinstance(t, pd.Index):
        return ("pdidx", tuple(map(str, t.tolist())))
    if isinstance(t, np.ndarray):
        return ("np", tuple(np.asarray(t).ravel().tolist()))
    if isinstance(t, (list, tuple)):
        return (type(t).__name__,) + tuple(_canon_task(x) for x in t)
    if isinstance(t, dict):
        return ("dict",) + tuple((str(k), _canon_task(v)) for k, v in sorted(t.items(), key=lambda kv: str(kv[0])))
    if isinstance(t, functools.partial):
        return ("partial", getattr(t.func, "__name__", "?"))
    if isinstance(t, (range, slice)):
        return repr(t)
    if callable(t):
        return ("fn", getattr(t, "__qualname__", None) or getattr(t, "__name__", None) or type(t).__name__)
    if isinstance(t, (int, float, str, bool, type(None), np.integer, np.floating, pd.Timestamp)):
        return repr(t)
    from dask.base import tokenize

    return ("obj", type(t).__name__, tokenize(t))


def _source_exprs(n):
    """(name, unfiltered expression with n partitions) for every PartitionsFiltered source class"""
    import dask_expr as dx
    from dask import delayed

    pdf = pd.DataFrame({"a": np.arange(2 * n, dtype="int64"), "b": np.arange(2 * n, dtype="int64") % 3})
    out = []
    out.append(("FromPandas", dx.from_pandas(pdf, npartitions=n, sort=True).expr))
    out.append(("FromPandas[series]", dx.from_pandas(pdf, npartitions=n, sort=True).a.simplify().expr))
    out.append(("FromArray", dx.from_array(pdf.to_numpy(), chunksize=2, columns=["a", "b"]).expr))
    parts = [pdf.iloc[2 * i : 2 * i + 2] for i in range(n)]
    out.append(("FromMap", dx.from_map(e2e._PartGetter(parts), list(range(n)), meta=pdf.iloc[:0]).expr))
    out.append(("FromMap[kwargs]", dx.from_map(_fm_kw, list(range(n)), meta=pdf.iloc[:0], k=3, enforce_metadata=True).expr))
    out.append(("FromDelayed", dx.from_delayed([delayed(p, name=f"verif-d-{n}-{i}") for i, p in enumerate(parts)], meta=pdf.iloc[:0]).expr))
    from dask_expr.datasets import timeseries

    out.append(("Timeseries", timeseries(start="2000-01-01", end=str(pd.Timestamp("2000-01-01") + pd.Timedelta(days=n))[:10],
                                         freq="12h", partition_freq="1d", dtypes={"a": int, "b": float}, seed=3).expr))
    return [(nm, _src(e)) for nm, e in out]


def _fm_kw(i, k=1):
    return pd.DataFrame({"a": [i * k], "b": [i]})


def _file_exprs(n):
    import os

    import dask_expr as dx

    d = os.path.join(_tmpdir(), f"t2-{n}")
    if not os.path.exists(d):
        os.makedirs(os.path.join(d, "csv"))
        pdf = pd.DataFrame({"a": np.arange(2 * n, dtype="int64"), "b": np.arange(2 * n, dtype="int64") % 3})
        for i in range(n):
            pdf.iloc[2 * i : 2 * i + 2].to_csv(os.path.join(d, "csv", f"p{i}.csv"), index=False)
        dx.from_pandas(pdf, npartitions=n).to_parquet(os.path.join(d, "pq"))
    return [("ReadCSV", _src(dx.read_csv(os.path.join(d, "csv", "p*.csv")).expr)),
            ("ReadParquetFSSpec", _src(dx.read_parquet(os.path.join(d, "pq")).expr)),
            ("ReadParquetPyarrowFS", _src(dx.read_parquet(os.path.join(d, "pq"), filesystem="arrow").expr))]


def fam_filtered_contract(ctx):
    """T2: task j of cls(..., _partitions=P) is task P[j] of cls(...), for every source class."""
    f = Family("filtered_contract[PartitionsFiltered._task x every source]")
    reqs, code, inputs, nontriv = [], [], [], []
    sizes = [1, 2, 3, 4] if ctx.quick else [1, 2, 3, 4, 5, 6]
    for n in sizes:
        srcs = _source_exprs(n) + (_file_exprs(n) if n in (2, 4, 6) else [])
        for name, e in srcs:
            if e.npartitions != n:
                continue
            try:
                full = [_canon_task(e._task(i)) for i in range(n)]
            except Exception as ex:  # noqa: BLE001
                full = None
                fullerr = _err(ex)
            sets = _index_sets(n, 2 if n > 3 else 3)[1:]
            if n > 3:
                sets += [[n - 1, 0, 1], [0, 2, 3], list(range(n)), list(range(n))[::-1], [1, 1, 1]]
            for P in sets:
                try:
                    if full is None:
                        raise RuntimeError(fullerr)
                    ef = e.substitute_parameters({"_partitions": P})
                    if ef.npartitions != len(P):
                        raise AssertionError(f"npartitions={ef.npartitions}")
                    lay = ef._layer()
                    lines = []
                    for (nm, j), t in lay.items():
                        c = _canon_task(t)
                        src = full.index(c) if c in full else "?"
                        own = "self" if nm == ef._name else "other"
                        lines.append(f"@{own}:{j}=alias(src0:{src})")
                    txt = "G " + "|".join(sorted(set(lines)))
                except Exception as ex:  # noqa: BLE001
                    txt = _err(ex)
                reqs.append(f"pt layer-filtered P={_nat(P)}")
                code.append(txt)
                inputs.append({"source": name, "n": n, "P": P})
                nontriv.append(P != list(range(n)))
    model = drive(reqs)
    f.compare(inputs, code, model, nontriv)
    f.exhaustive = True
    f.note = f"sources FromPandas(frame/series), FromArray, FromMap(+kwargs), FromDelayed, Timeseries, ReadCSV, ReadParquet(fsspec/arrow); n in {sizes}; all index lists of length <= 3 (2 for n > 3) + reordered/repeated"
    return f


def fam_blockwisedep(ctx):
    """T2: Partitions._simplify_down on a Blockwise frame with per-partition arguments looked up by position
    (BlockwiseDep operands of ResampleAggregation): every such operand of the rebuilt node = model `selectArgs`
    of the original list; the Expr operand is wrapped in Partitions(·, P).  (D113)"""
    from dask_expr._expr import Partitions
    from dask_expr._resample import BlockwiseDep, ResampleAggregation
    import dask_expr as dx

    f = Family("rule_output[Partitions._simplify_down: BlockwiseDep operands of ResampleAggregation]")
    reqs, code, inputs = [], [], []
    for n, rule in ((3, "6h"), (4, "3h"), (5, "12h")):
        pdf = pd.DataFrame({"a": np.arange(24 * n)}, index=pd.date_range("2000-01-01", periods=24 * n, freq="h"))
        agg = dx.from_pandas(pdf, npartitions=n).a.resample(rule).sum().expr.lower_completely()
        cands = [e for e in agg.walk() if isinstance(e, ResampleAggregation)]
        if not cands:
            f.disagreements.append({"input": {"n": n}, "code": "no ResampleAggregation in the lowered plan", "model": "-"})
            continue
        e = cands[0]
        m = e.npartitions
        for P in _index_sets(m, 2)[1:] + [[m - 1, 0, m - 1], [m]]:
            try:
                r = Partitions(e, P)._simplify_down()
            except Exception as ex:  # noqa: BLE001
                r = ex
            for k, op in enumerate(e.operands):
                if not isinstance(op, BlockwiseDep):
                    continue
                vals = list(op.iterable)
                codes = {}
                for v in vals:
                    codes.setdefault(repr(v), len(codes))
                if isinstance(r, Exception):
                    txt = _err(r)
                elif type(r) is not type(e) or not isinstance(r.operands[k], BlockwiseDep):
                    txt = f"?{type(r).__name__}"
                else:
                    try:
                        txt = _nat([codes[repr(v)] for v in r.operands[k].iterable])
                    except KeyError:
                        txt = "?value-not-in-original"
                reqs.append(f"pt selargs args={_nat([codes[repr(v)] for v in vals])} P={_nat(P)}")
                code.append(txt)
                inputs.append({"n": n, "rule": rule, "operand": k, "P": P})
            if not isinstance(r, Exception) and type(r) is type(e):
                fr = r.operands[0]
                ok = isinstance(fr, Partitions) and fr.frame._name == e.operands[0]._name and list(fr.operand("partitions")) == list(P)
                reqs.append(f"pt push ndim={e.ndim} any=0 ops=e:{e.operands[0].npartitions}:{e.operands[0].ndim}")
                code.append("1" if ok else "0")
                inputs.append({"n": n, "rule": rule, "operand": "frame", "P": P})
    model = drive(reqs)
    f.compare(inputs, code, model)
    return f


def fam_compose(ctx):
    """T2: Partitions._simplify_down on a PartitionsFiltered frame (composition of selections)."""
    from dask_expr._expr import Partitions

    f = Family("rule_output[Partitions._simplify_down on PartitionsFiltered]")
    reqs, code, inputs = [], [], []
    for n in (2, 3, 4):
        for name, e in _source_exprs(n)[:4]:
            for Q in [None, [n - 1, 0], [0, 0, 1], list(range(n))[::-1]]:
                eq = e if Q is None else e.substitute_parameters({"_partitions": Q})
                m = eq.npartitions
                for P in _index_sets(m, 2)[1:]:
                    try:
                        r = Partitions(eq, P)._simplify_down()
                        txt = _nat(r.operand("_partitions")) if type(r) is type(e) else f"?{type(r).__name__}"
                    except Exception as ex:  # noqa: BLE001
                        txt = _err(ex)
                    reqs.append(f"pt compose inner={'None' if Q is None else _nat(Q)} P={_nat(P)}")
                    code.append(txt)
                    inputs.append({"source": name, "n": n, "inner": Q, "P": P})
    model = drive(reqs)
    f.compare(inputs, code, model)
    return f


def fam_fromarray(ctx):
    """T2: FromArray._divisions / _filtered_task (index range from the unfiltered divisions, data slice)."""
    from dask_expr.io.io import FromArray

    f = Family("task_equality[FromArray._divisions/_filtered_task]")
    reqs, code, inputs, nontriv = [], [], [], []
    lens = range(1, 9) if ctx.quick else range(1, 13)
    for ln in lens:
        arr = np.arange(ln, dtype="int64")
        for cs in range(1, 6):
            n = -(-ln // cs)
            base_e = FromArray(arr, cs, None, None, None)
            sets = [list(range(n))] + _index_sets(n, 2 if n <= 4 else 1)[1:]
            for P in sets:
                try:
                    e = base_e if P == list(range(n)) and ctx.rng.random() < 0.5 else FromArray(arr, cs, None, None, None, P)
                    divs = ",".join(str(int(x)) for x in e._divisions())
                    ents = []
                    for j in range(len(P)):
                        try:
                            t = e._task(j)
                            data, idx = t[1], t[2]
                            try:
                                t[0](data, idx, *t[3:])
                                okk = "ok"
                            except Exception as ex2:  # noqa: BLE001
                                okk = _err(ex2)
                            dtxt = f"{int(data[0])}..{int(data[-1]) + 1}" if len(data) else "empty"
                            itxt = f"{idx[0]}..{idx[-1] + 1}" if len(idx) else "empty"
                            ents.append(f"idx={itxt},data={dtxt},{okk}")
                        except Exception as ex:  # noqa: BLE001
                            ents.append(_err(ex))
                    txt = "div=" + divs + ";" + ";".join(ents)
                except Exception as ex:  # noqa: BLE001
                    txt = _err(ex)
                reqs.append(f"pt fromarray len={ln} cs={cs} P={_nat(P)}")
                code.append(txt)
                inputs.append({"len": ln, "chunksize": cs, "P": P, "source": "from_array"})
                nontriv.append(P != list(range(n)))
    model = drive(reqs)
    f.compare(inputs, code, model, nontriv)
    f.exhaustive = True
    f.note = f"array lengths {lens[0]}..{lens[-1]}, chunksize 1..5, all index lists of length <= 2"
    return f


def fam_frompandas(ctx):
    """T2: FromPandas._filtered_task slices and _get_lengths; T3: sorted_division_locations output satisfies locsOK."""
    import dask_expr as dx

    f = Family("task_equality[FromPandas._filtered_task/_get_lengths] + hypothesis[sorted_division_locations]")
    reqs, code, inputs, nontriv = [], [], [], []
    idxs = {"range": lambda n: list(range(n)), "dup": lambda n: [i // 3 for i in range(n)], "gap": lambda n: [i * i for i in range(n)]}
    for nrows in ((5, 9) if ctx.quick else (1, 4, 5, 9, 12)):
        for kind, mk in idxs.items():
            pdf = pd.DataFrame({"pos": np.arange(nrows, dtype="int64")}, index=pd.Index(mk(nrows), dtype="int64"))
            for k in (1, 2, 3, 4):
                e0 = dx.from_pandas(pdf, npartitions=k, sort=True).expr
                n = e0.npartitions
                divs, locs = e0._divisions_and_locations
                reqs.append(f"dv locsok idx={_nat(pdf.index.tolist())} divs={_nat(divs)} locs={_nat(locs)}")
                code.append("OK")
                inputs.append({"nrows": nrows, "index": kind, "npartitions": k, "check": "locsOK"})
                nontriv.append(True)
                for P in [None] + _index_sets(n, 2)[1:] + ([[n - 1, 0, 0]] if n > 1 else []):
                    try:
                        e = e0 if P is None else e0.substitute_parameters({"_partitions": P})
                        sl = []
                        for j in range(e.npartitions):
                            t = e._task(j)
                            sl.append(f"{int(t['pos'].iloc[0])}:{int(t['pos'].iloc[-1]) + 1}" if len(t) else "e")
                        # empty partitions cannot be located by content: take them from the locations
                        ps = list(range(n)) if P is None else P
                        sl = [s if s != "e" else f"{locs[p]}:{locs[p+1]}" for s, p in zip(sl, ps)]
                        txt = "slices=" + ";".join(sl) + " lengths=" + _nat(e._get_lengths())
                    except Exception as ex:  # noqa: BLE001
                        txt = _err(ex)
                    reqs.append(f"pt frompandas locs={_nat(locs)} P={'None' if P is None else _nat(P)}")
                    code.append(txt)
                    inputs.append({"nrows": nrows, "index": kind, "npartitions": k, "P": P, "source": "from_pandas"})
                    nontriv.append(P is not None)
    model = drive(reqs)
    f.compare(inputs, code, model, nontriv)
    return f


def _plan_text(top, n):
    from dask_expr._expr import BlockwiseHead, Partitions
    from dask_expr._repartition import Repartition

    extra = ""
    if isinstance(top.frame, Repartition):
        second = b01(top.safe)
        if top.frame.operand("new_partitions") != 1 or top.operand("npartitions") != 1 or top.n != n:
            extra += ";odd-second"
        inner = top.frame.frame
    else:
        second = "none"
        inner = top
    if not isinstance(inner, BlockwiseHead) or not isinstance(inner.frame, Partitions) or inner.n != n:
        return "?shape " + str(top)
    return f"parts={_nat(inner.frame.partitions)};k={inner.operand('npartitions')};safe1={b01(inner.safe)};second={second}{extra}"


def b01(b):
    return "1" if b else "0"


def fam_head_lower(ctx):
    """T2: Head._lower / Tail._lower (expression level) and the lowered graphs."""
    import dask

    from dask_expr._expr import Head, Tail, _concat, safe_head
    from dask.utils import M

    f = Family("rule_output+graph_equality[Head._lower, Tail._lower, BlockwiseHead/Tail._task]")
    reqs, code, inputs, nontriv = [], [], [], []
    for np_ in range(1, 6):
        fr = _frame_with_divs(list(range(np_ + 1)))
        for k in range(-2, np_ + 3):
            for n in (3,):
                try:
                    low = Head(fr, n, k)._lower()
                    txt = _plan_text(low, n)
                except Exception as ex:  # noqa: BLE001
                    txt = _err(ex)
                reqs.append(f"hd lower np={np_} k={k}")
                code.append(txt)
                inputs.append({"np": np_, "k": k, "what": "Head._lower"})
                nontriv.append(True)
                # the whole lowered graph
                if k == 0:
                    continue
                try:
                    e = Head(fr, n, k).lower_completely()
                    g = e.__dask_graph__()
                    tags = {fr._name: "F"}
                    chain = []
                    x = e
                    while x._name != fr._name:
                        chain.append(x)
                        x = x.dependencies()[0]
                    # chain = [out?, rep?, bh, sel] from the top
                    names = [c._name for c in chain]
                    tags[names[-1]] = "sel"
                    tags[names[-2]] = "bh"
                    if len(names) == 4:
                        tags[names[1]] = "rep"
                        tags[names[0]] = "out"
                    elif len(names) == 3:
                        tags[names[0]] = "out"

                    def rk(key):
                        return f"{tags.get(key[0], '?' + key[0][:12])}:{key[1]}"

                    lines = []
                    for key, t in g.items():
                        if key[0] == fr._name:
                            continue
                        if isinstance(t, tuple) and t and callable(t[0]):
                            if t[0] is _concat:
                                lines.append(f"{rk(key)}=concat([{','.join(rk(a) for a in t[1])}])")
                            elif t[0] is safe_head:
                                lines.append(f"{rk(key)}=safe_head({rk(t[1])},{t[2]})")
                            elif t[0] == M.head:
                                lines.append(f"{rk(key)}=head({rk(t[1])},{t[2]})")
                            else:
                                lines.append(f"{rk(key)}=?fn")
                        else:
                            lines.append(f"{rk(key)}=alias({rk(t)})")
                    txt = "G " + "|".join(sorted(lines))
                except Exception as ex:  # noqa: BLE001
                    txt = _err(ex)
                reqs.append(f"hd graph np={np_} n={n} k={k}")
                code.append(txt)
                inputs.append({"np": np_, "k": k, "n": n, "what": "lowered head graph"})
                nontriv.append(True)
        # tail
        for n in (2,):
            try:
                e = Tail(fr, n).lower_completely()
                g = e.__dask_graph__()
                sel = e.dependencies()[0]
                tags = {fr._name: "F", sel._name: "sel", e._name: "bh"}

                def rk(key):
                    return f"{tags.get(key[0], '?')}:{key[1]}"

                lines = []
                for key, t in g.items():
                    if key[0] == fr._name:
                        continue
                    if isinstance(t, tuple) and t and callable(t[0]):
                        lines.append(f"{rk(key)}=" + (f"tail({rk(t[1])},{t[2]})" if t[0] == M.tail else "?fn"))
                    else:
                        lines.append(f"{rk(key)}=alias({rk(t)})")
                txt = "G " + "|".join(sorted(lines))
            except Exception as ex:  # noqa: BLE001
                txt = _err(ex)
            reqs.append(f"tl graph np={np_} n={n}")
            code.append(txt)
            inputs.append({"np": np_, "n": n, "what": "lowered tail graph"})
            nontriv.append(True)
    model = drive(reqs)
    f.compare(inputs, code, model, nontriv)
    f.exhaustive = True
    f.note = "npartitions 1..5, head npartitions operand -2..np+2"
    return f


def fam_head_divisions(ctx):
    from dask_expr._expr import Head, Tail

    f = Family("divisions[Head._divisions, Tail._divisions]")
    reqs, code, inputs = [], [], []
    for full in ([0, 10], [0, 10, 20, 30], [1, 1, 4, 9, 9]):
        fr = _frame_with_divs(full)
        for k in range(-3, len(full) + 1):
            try:
                txt = _nat(Head(fr, 3, k)._divisions())
            except Exception as ex:  # noqa: BLE001
                txt = _err(ex)
            reqs.append(f"hd divisions d={_nat(full)} k={k}")
            code.append(txt)
            inputs.append({"full": full, "k": k})
        reqs.append(f"tl divisions d={_nat(full)}")
        code.append(_nat(Tail(fr, 3)._divisions()))
        inputs.append({"full": full, "tail": True})
    model = drive(reqs)
    f.compare(inputs, code, model)
    f.exhaustive = True
    return f


def _elemwise_exprs():
    """Elemwise (and MapPartitions) expressions with literal, scalar, series and frame operands on frames with 1 and 4 partitions"""
    import dask_expr as dx

    out = []
    pdf = base(8)
    for k in (1, 4):
        df = dx.from_pandas(pdf, npartitions=k)
        s = df.a
        cands = {
            "frame+1": df + 1,
            "series+scalar": s + s.sum(),
            "scalar+series": s.max() - s if k > 1 else None,
            "assign_series": df.assign(z=s + 1),
            "assign_scalar": df.assign(z=s.sum()),
            "frame_mul_series_axis0": df[["a", "v"]].mul(df.b, axis=0),
            "where": s.where(df.b > 0, -1),
            "series+series": df.a + df.b,
            "clip": df.clip(lower=1, upper=5),
            "isin": s.isin([1, 2]),
            "fillna_scalar": s.fillna(s.max()),
            "map_partitions_scalar": df.map_partitions(_mp2, df.b.sum()),
            "map_partitions": df.map_partitions(_mp),
            "rename": df.rename(columns={"a": "A"}),
            "astype": df.astype({"a": "float64"}),
            "to_frame": s.to_frame(),
        }
        for nm, c in cands.items():
            if c is None:
                continue
            try:
                c.expr.npartitions
            except AssertionError:
                continue  # open finding D28: a scalar-first binary operation has no divisions at all
            out.append((f"{nm}[np={k}]", c.expr))
    return out


class _NoRewrite(Exception):
    pass


def _np_or(E):
    try:
        return E.npartitions
    except Exception:  # noqa: BLE001  (D28: single-partition scalar-first binop has no divisions)
        return 1


def _ops_text(E):
    from dask_expr._core import Expr

    ents = []
    for op in E.operands:
        if isinstance(op, Expr):
            ents.append(f"e:{op.npartitions}:{op.ndim}")
        else:
            ents.append("l")
    return ";".join(ents) or "-"


def fam_push_rules(ctx):
    """T2: Head/Tail/Partitions._simplify_down on constructed Blockwise expressions; nested heads/tails."""
    from dask_expr._core import Expr
    from dask_expr._expr import Blockwise, Elemwise, Head, MapPartitions, Partitions, Tail

    f = Family("rule_output[Head/Tail/Partitions._simplify_down]")
    reqs, code, inputs, nontriv = [], [], [], []
    for nm, E in _elemwise_exprs():
        opsd = _ops_text(E)
        if isinstance(E, Elemwise):
            for n, k in ((7, 2), (3, 1), (5, -1)):
                try:
                    r = Head(E, n, k)._simplify_down()
                    if r is None:
                        raise _NoRewrite()
                    if type(r) is not type(E):
                        raise AssertionError(f"result is {type(r).__name__}")
                    ents = []
                    for op, o0 in zip(r.operands, E.operands):
                        if isinstance(op, Head) and isinstance(o0, Expr) and op.frame._name == o0._name:
                            ents.append(f"{op.n}:{op.operand('npartitions')}")
                        elif isinstance(op, Expr) and isinstance(o0, Expr) and op._name == o0._name or not isinstance(op, Expr):
                            ents.append("-")
                        else:
                            ents.append("?")
                    txt = ",".join(ents)
                except _NoRewrite:
                    txt = "none"
                except Exception as ex:  # noqa: BLE001
                    txt = _err(ex)
                reqs.append(f"hd push ndim={E.ndim} np={_np_or(E)} ops={opsd} n={n} k={k}")
                code.append(txt)
                inputs.append({"expr": nm, "rule": "Head._simplify_down", "n": n, "k": k})
                nontriv.append(True)
            try:
                r = Tail(E, 4)._simplify_down()
                if r is None:
                    raise _NoRewrite()
                ents = []
                for op, o0 in zip(r.operands, E.operands):
                    if isinstance(op, Tail) and isinstance(o0, Expr) and op.frame._name == o0._name:
                        ents.append(str(op.n))
                    elif not isinstance(op, Expr) or op._name == o0._name:
                        ents.append("-")
                    else:
                        ents.append("?")
                txt = ",".join(ents)
            except _NoRewrite:
                txt = "none"
            except Exception as ex:  # noqa: BLE001
                txt = _err(ex)
            reqs.append(f"tl push ndim={E.ndim} np={_np_or(E)} ops={opsd} n=4")
            code.append(txt)
            inputs.append({"expr": nm, "rule": "Tail._simplify_down"})
            nontriv.append(True)
        if isinstance(E, Blockwise):
            try:
                P = [E.npartitions - 1, 0]
                r = Partitions(E, P)._simplify_down()
                ents = []
                for op, o0 in zip(r.operands, E.operands):
                    if isinstance(op, Partitions) and isinstance(o0, Expr) and op.frame._name == o0._name and list(op.partitions) == P:
                        ents.append("1")
                    elif not isinstance(op, Expr) or op._name == o0._name:
                        ents.append("0")
                    else:
                        ents.append("?")
                txt = ",".join(ents)
            except Exception as ex:  # noqa: BLE001
                txt = _err(ex)
            if txt == "ERR AssertionError":
                continue  # the expression itself has no divisions (known finding D28: single-partition scalar-first binop)
            reqs.append(f"pt push ndim={E.ndim} any={b01(isinstance(E, MapPartitions))} ops={opsd}")
            code.append(txt)
            inputs.append({"expr": nm, "rule": "Partitions._simplify_down"})
            nontriv.append(True)
    fr = _frame_with_divs([0, 1, 2, 3, 4])
    for n1, k1, n2, k2 in itertools.product((2, 6, 9), (1, 2, -1), (3, 7), (1, 3, -1)):
        try:
            r = Head(Head(fr, n2, k2), n1, k1)._simplify_down()
            txt = f"{r.n}:{r.operand('npartitions')}" if r.frame._name == fr._name else "?frame"
        except Exception as ex:  # noqa: BLE001
            txt = _err(ex)
        reqs.append(f"hd nested n1={n1} k1={k1} n2={n2} k2={k2}")
        code.append(txt)
        inputs.append({"rule": "Head._simplify_down[nested]", "outer": (n1, k1), "inner": (n2, k2)})
        nontriv.append(True)
    for n1, n2 in itertools.product((2, 6), (3, 7)):
        r = Tail(Tail(fr, n2), n1)._simplify_down()
        reqs.append(f"tl nested n1={n1} n2={n2}")
        code.append(str(r.n))
        inputs.append({"rule": "Tail._simplify_down[nested]", "outer": n1, "inner": n2})
        nontriv.append(True)
    model = drive(reqs)
    f.compare(inputs, code, model, nontriv)
    return f


# Blockwise classes whose `_task` mentions `index` outside `_blockwise_arg(dep, index)` although the selection may be
# pushed below them: the reason why that is sound is recorded here (anything else found by the scan must be refused
# by Partitions._simplify_down)
_POSITION_SAFE = {
    "EnforceRuntimeDivisions": "`index` only selects self.divisions[index] — the divisions of the REWRITTEN node, i.e. of the selection — and labels the error message",
    "PartitionsFiltered": "_filtered_task(self._partitions[index]): the selection itself",
}


def _task_uses_partition_number(cls):
    """AST scan: does the class's own task construction (`_task`) use `index` other than as the second argument of
    `self._blockwise_arg(…, index)` / `(dep._name, index)` keys?  (Over-approximation; see _POSITION_SAFE.)"""
    import ast
    import inspect
    import textwrap

    fn = cls.__dict__.get("_task")
    if fn is None:
        return None  # inherited
    try:
        tree = ast.parse(textwrap.dedent(inspect.getsource(fn)))
    except (OSError, TypeError, SyntaxError):
        return None
    uses = []

    class V(ast.NodeVisitor):
        def visit_Call(self, node):
            f = node.func
            if isinstance(f, ast.Attribute) and f.attr == "_blockwise_arg":
                for a in node.args[:1]:
                    self.visit(a)
                return  # the index argument of _blockwise_arg is the sanctioned use
            self.generic_visit(node)

        def visit_Tuple(self, node):
            # (x._name, index): a key of the same partition of a dependency
            if len(node.elts) == 2 and isinstance(node.elts[1], ast.Name) and node.elts[1].id == "index" and isinstance(node.elts[0], ast.Attribute) \
                    and node.elts[0].attr == "_name":
                self.visit(node.elts[0])
                return
            self.generic_visit(node)

        def visit_Name(self, node):
            if node.id == "index" and isinstance(node.ctx, ast.Load):
                uses.append(node.lineno)

    V().visit(tree.body[0])
    return bool(uses)


def fam_push_guard(ctx):
    """T1/T2: the class guard of Partitions._simplify_down against an independent judgement of every live Blockwise
    class: structural exceptions (IO, Fused, SetIndexBlockwise) and classes whose task depends on the partition number
    (AST scan of `_task`, MapOverlap reads neighbours, `partition_info`).  A class that looks at the partition number
    and is NOT refused by the rule is a finding (D82 and D105 were of this kind)."""
    from harness.extractors import live_expr_classes
    from harness.extractors_state import collect_instances

    from dask_expr._expr import Blockwise, Fused, MapOverlap, MapPartitions, Partitions, PartitionsFiltered
    from dask_expr._shuffle import SetIndexBlockwise
    from dask_expr.io import BlockwiseIO

    import dask_expr as dx

    f = Family("class_guard[Partitions._simplify_down vs partition-number dependence of every live Blockwise class]")
    insts = dict(collect_instances())
    # instances the pool does not contain
    pdf = base(8)
    df = dx.from_pandas(pdf, npartitions=4)
    extra = [df.sample(frac=0.5, random_state=1), df.random_split([0.5, 0.5], random_state=2)[0], df.map_partitions(_mp_info, meta=df._meta.assign(num=0)),
             df.map_partitions(_mp), df.a.shift(1), df.map_overlap(_mp, 1, 0, meta=df._meta.assign(m=0)), df.enforce_runtime_divisions(), df.a.rolling(2).sum()]
    for c in extra:
        for form in (c.expr, c.expr.lower_completely()):
            for node in form.walk():
                insts.setdefault(type(node), node)
                if isinstance(node, MapPartitions) and node._has_partition_info:
                    insts["MapPartitions[partition_info]"] = node
    reqs, code, inputs = [], [], []
    classes = sorted((c for c in live_expr_classes() if isinstance(c, type) and issubclass(c, Blockwise)), key=lambda c: c.__qualname__)
    noinst = 0
    for cls in classes + ["MapPartitions[partition_info]"]:
        inst = insts.get(cls)
        if inst is None or inst.npartitions < 2:
            noinst += 1
            continue
        real_cls = type(inst)
        structural = isinstance(inst, (BlockwiseIO, Fused, SetIndexBlockwise))
        # the judgement: the first class in the MRO that defines `_task` decides
        numdep = False
        for k in real_cls.__mro__:
            r = _task_uses_partition_number(k) if k.__name__ not in _POSITION_SAFE else (False if "_task" in k.__dict__ else None)
            if r is not None:
                numdep = r
                break
        if isinstance(inst, MapPartitions):
            numdep = bool(inst._has_partition_info)  # the use of `index` sits under `if self._has_partition_info`
        if isinstance(inst, MapOverlap):
            numdep = True  # lowered to tasks that read the neighbouring partitions
        try:
            r = Partitions(inst, [inst.npartitions - 1, 0])._simplify_down()
            if r is None:
                txt = "none"
            elif type(r) is real_cls and any(isinstance(o, Partitions) for o in r.operands):
                txt = "wrap"
            elif type(r) is real_cls and isinstance(r, PartitionsFiltered) and r._filtered:
                txt = "absorb"
            else:
                txt = f"?{type(r).__name__}"
        except AssertionError:
            continue  # D28-shaped expressions have no divisions
        except Exception as ex:  # noqa: BLE001
            txt = _err(ex)
        reqs.append(f"pt guard structural={b01(structural)} numdep={b01(numdep)} filtered={b01(isinstance(inst, PartitionsFiltered))}")
        code.append(txt)
        inputs.append({"class": real_cls.__qualname__ if isinstance(cls, type) else cls, "structural": structural, "number_dependent": numdep})
    f.compare(inputs, code, drive(reqs), [True] * len(reqs))
    f.note = f"{len(reqs)} live Blockwise classes with an instance of >= 2 partitions ({noinst} without); documented position-safe uses: {sorted(_POSITION_SAFE)}"
    return f


def fam_bjoin_keys(ctx):
    """T2: output keys of BroadcastJoin._layer under a partition selection."""
    import dask_expr as dx

    f = Family("graph_keys[BroadcastJoin._layer]")
    reqs, code, inputs = [], [], []
    left = dx.from_pandas(base(12), npartitions=4)
    for how in ("inner", "left"):
        m = left.merge(_small_coll(), on="b", how=how, broadcast=True, shuffle_method="tasks")
        bj = m.optimize(fuse=False).expr
        from dask_expr._merge import BroadcastJoin

        bjs = list(bj.find_operations(BroadcastJoin))
        if not bjs:
            continue
        e0 = bjs[0]
        for P in [None] + _index_sets(4, 2)[1:]:
            e = e0 if P is None else e0.substitute_parameters({"_partitions": P})
            keys = sorted({k[1] for k in e._layer() if k[0] == e._name})
            reqs.append(f"pt bjoinkeys P={_nat(P if P is not None else range(4))}")
            code.append(_nat(keys))
            inputs.append({"how": how, "P": P})
    model = [_nat(sorted(set(int(x) for x in m.split(",")))) if m and m[0].isdigit() else m for m in drive(reqs)]
    f.compare(inputs, code, model)
    f.note = "the model transliterates the code as it is: keys are numbered by ORIGINAL partition (see C11_bjoin_keys_counterexample)"
    return f


def fam_helpers(ctx):
    """T4: M.head / safe_head = take, M.tail = drop (len - n); _nfirst/_nlast = sort then take; the sorted-head
    identity on the real helpers."""
    import warnings

    from dask.utils import M

    from dask_expr._expr import safe_head
    from dask_expr._reductions import _nfirst, _nlast

    f = Family("helper_specs[M.head, safe_head, M.tail, _nfirst, _nlast]")
    rng = ctx.rng
    for _ in range(60 if ctx.quick else 400):
        m = rng.randint(0, 9)
        n = rng.randint(0, 11)
        vals = rng.sample(range(100), m)
        df = pd.DataFrame({"k": np.array(vals, dtype="int64"), "p": np.arange(m, dtype="int64")})
        rows = list(zip(df.k.tolist(), df.p.tolist()))
        with warnings.catch_warnings():
            warnings.simplefilter("ignore")
            got = [list(zip(x.k.tolist(), x.p.tolist())) for x in (M.head(df, n), safe_head(df, n), M.tail(df, n))]
        want = [rows[:n], rows[:n], rows[max(len(rows) - n, 0):]]
        f.compare([{"helper": h, "m": m, "n": n} for h in ("M.head", "safe_head", "M.tail")], got, want)
        if n > 0:
            srt = sorted(rows)
            g1 = _nfirst(df, columns="k", n=n, ascending=True)
            g2 = _nlast(df, columns="k", n=n, ascending=True)
            f.compare([{"helper": "_nfirst", "m": m, "n": n}, {"helper": "_nlast", "m": m, "n": n}],
                      [list(zip(g1.k.tolist(), g1.p.tolist())), list(zip(g2.k.tolist(), g2.p.tolist()))],
                      [srt[:n], srt[max(len(srt) - n, 0):]])
            cuts = sorted(rng.sample(range(m + 1), min(2, m + 1)))
            parts = [df.iloc[a:b] for a, b in zip([0] + cuts, cuts + [m])]
            two = _nfirst(pd.concat([_nfirst(p, columns="k", n=n, ascending=True) for p in parts]), columns="k", n=n, ascending=True)
            f.compare([{"helper": "nfirst-of-nfirsts", "m": m, "n": n, "cuts": cuts}],
                      [list(zip(two.k.tolist(), two.p.tolist()))], [srt[:n]])
    f.note = "model side = the Lean specification evaluated on the same rows (take / drop / sort-then-take; unique sort keys)"
    return f


def fam_sort_rules(ctx):
    """T2: SortValues/SetIndex._simplify_up under Head/Tail -> NFirst/NLast."""
    import dask_expr as dx
    from dask_expr._expr import Head, Tail
    from dask_expr._reductions import NFirst, NLast

    f = Family("rule_output[SortValues/SetIndex._simplify_up(Head|Tail)]")
    df = dx.from_pandas(base(12), npartitions=3)
    ins, got, want = [], [], []
    for asc in (True, False):
        sv = df.sort_values("a", ascending=asc).expr
        for n, k in ((3, 1), (7, 2), (5, -1)):
            r = sv._simplify_up(Head(sv, n, k), {})
            ins.append({"rule": "SortValues._simplify_up[Head]", "n": n, "k": k, "ascending": asc})
            got.append((type(r).__name__, r.n, r.operand("_columns"), r.ascending, r.frame._name == df.expr._name))
            want.append(("NFirst", n, ["a"], asc, True))
        r = sv._simplify_up(Tail(sv, 4), {})
        ins.append({"rule": "SortValues._simplify_up[Tail]", "ascending": asc})
        got.append((type(r).__name__, r.n, r.operand("_columns"), r.ascending, r.frame._name == df.expr._name))
        want.append(("NLast", 4, ["a"], asc, True))
    si = df.set_index("a").expr
    from dask_expr._shuffle import SetIndex

    sis = [x for x in si.walk() if isinstance(x, SetIndex)]
    if sis:
        si = sis[0]
        r = si._simplify_up(Head(si, 3, 2), {})
        ins.append({"rule": "SetIndex._simplify_up[Head]"})
        got.append((type(r).__name__, type(r.frame).__name__, r.frame.n, r.frame.operand("_columns"), r.frame.ascending))
        want.append(("SetIndex", "NFirst", 3, "a", True))
        r = si._simplify_up(Tail(si, 3), {})
        ins.append({"rule": "SetIndex._simplify_up[Tail]"})
        got.append((type(r).__name__, type(r.frame).__name__, r.frame.n, r.frame.operand("_columns"), r.frame.ascending))
        want.append(("SetIndex", "NLast", 3, "a", True))
    # the tree reduction: chunk, combine and aggregate are all "sort, take n" of the same direction (C11_sorted_head_tree)
    for cls, fn in ((NFirst, "_nfirst"), (NLast, "_nlast")):
        comb = cls.reduction_combine or cls.reduction_aggregate or cls.reduction_chunk
        ins.append({"rule": f"{cls.__name__} chunk/combine/aggregate"})
        got.append((cls.reduction_chunk.__name__, comb.__name__, cls.reduction_aggregate.__name__))
        want.append((fn, fn, fn))
    f.compare(ins, [repr(g) for g in got], [repr(w) for w in want])
    f.note = "model side = the rule as C11_sorted_head reads it: NFirst/NLast of the sort's input with the head's n, the sort key and direction (npartitions of the head is not used)"
    return f


def families(ctx):
    return [fam_seldiv, fam_partitions_layer, fam_filtered_contract, fam_compose, fam_fromarray, fam_frompandas,
            fam_head_lower, fam_head_divisions, fam_push_rules, fam_push_guard, fam_blockwisedep, fam_bjoin_keys, fam_helpers, fam_sort_rules,
            _c12_graphs, _c06_pq_lengths]


def _c06_pq_lengths(ctx):
    """metadata lengths of the parquet readers under a selection (the length side of the PartitionsFiltered contract)"""
    from harness.props import c06

    return c06.fam_pq_lengths(ctx)


def _c12_graphs(ctx):
    """the shuffle layers with partition subsets (C11_filtered_shuffle_* rest on the C12 layer models)"""
    from harness.props import c12

    return c12.fam_graphs(ctx)
