"""C08 — expression names are deterministic and collision-free."""
from __future__ import annotations

import gc
import json

from harness import statepool as sp
from harness.core import Family, Failure, Support, drive

LEAN_MODULES = ["DxModel.Props.C08"]
GENERATED = ["NameRules"]
TRUSTED = [
    "A1: md5 over the normalized operand list is collision free (hypothesis `htok` of C08_injective)",
    "dask.base.tokenize/normalize_token for non-expression operands (pandas objects, functions, pyarrow objects) is taken as the "
    "identity of a literal; two of its known blind spots (DataFrame.attrs, StringDtype.na_value) are reported by the search",
    "harness/extractors_state.py (NameRules): ast classification of every `_name` implementation, cross-checked by probing live instances",
]
ASSUMPTIONS = [
    "A2: no literal operand is a string equal to the `_name` of an expression (the code cannot tell them apart: C08_literal_equal_to_name_collides)",
    "A3: classes whose prefix is computed from operand values (MapPartitions, FromMap, FromGraph, TreeReduce, CustomReduction, Fused, "
    "FusedIO, Chunk/Aggregate…) are separated from other classes by their token only",
]
PARTIAL = [
    "C08_injective covers classes with a constant, non-exempt prefix whose token covers all operands; the prefix groups "
    "add_prefix/add_suffix/getitem/loc are kept apart by operand kinds the table does not see (documented exemptions)",
    "task keys of DiskShuffle are drawn from uuid1 (open finding D11): outside the model (names are a function of the tree)",
]
EXPLANATION = (
    "Theorems: names are injective on all admissible trees (structural induction) under A1/A2 and rule completeness; the name is a "
    "function of the tree in every state of Expr._instances; the table of every live class's rule is complete up to documented "
    "exceptions (decide). Tie: every live node of a pool of ~60 queries (3 forms, all single-parameter variations) is abstracted "
    "to a tree and the model's name-equality pattern, constant prefix and arity check are compared with the real `_name`s; every "
    "operand of every harvested instance is varied. Search: names and keys across processes, hash seeds and construction "
    "histories; single-parameter variations; targeted collision candidates."
)
RULE = "one evaluation = one tree; non-trivial = the tree has a nested expression or list operand"

# --------------------------------------------------------------------------- abstraction of real expressions


class Abstractor:
    def __init__(self):
        from harness.extractors import live_expr_classes

        self.cls_id = {c: i for i, c in enumerate(live_expr_classes())}
        self.lits = {}

    def lit(self, v):
        import pandas as pd
        from dask.base import tokenize

        if v is None or isinstance(v, (bool, int, float, str, bytes)):
            key = (type(v).__name__, repr(v))
        elif isinstance(v, (tuple, list)) and all(x is None or isinstance(x, (bool, int, float, str)) for x in v):
            key = (type(v).__name__, repr(v))
        else:
            try:
                key = ("tok", type(v).__name__ if isinstance(v, (pd.DataFrame, pd.Series)) else "", tokenize(v))
            except Exception:  # noqa: BLE001
                key = ("id", id(v))
        return self.lits.setdefault(key, len(self.lits) + 1)

    def operand(self, v):
        from dask_expr._core import Expr

        if isinstance(v, Expr):
            return self.tree(v)
        if isinstance(v, (list, tuple)) and any(isinstance(x, Expr) for x in v):
            return f"s.{len(v)}" + "".join("." + self.operand(x) for x in v)
        return f"l.{self.lit(v)}"

    def tree(self, e, cls=None, operands=None):
        cls = cls or type(e)
        ops = e.operands if operands is None else operands
        cid = self.cls_id.get(cls, 999999)
        return f"n.{cid}.{len(ops)}" + "".join("." + self.operand(o) for o in ops)


def _raw_name(cls, operands):
    from harness.extractors_state import _eval_name

    obj = object.__new__(cls)
    obj.operands = list(operands)
    return _eval_name(cls, obj)


def _pattern(names):
    first = {}
    out = []
    for i, n in enumerate(names):
        out.append(first.setdefault(n, i))
    return out


def _rows():
    from harness.extractors_state import name_rule_rows

    return {r["cls"]: r for r in name_rule_rows(probe=False)}


def _code_answer(items, rows):
    """items: [(cls, name)] -> the text the driver produces for the same trees"""
    pat = _pattern([n for _, n in items])
    out = []
    for (cls, name), p in zip(items, pat):
        r = rows.get(f"{cls.__module__}.{cls.__qualname__}")
        if r is None:
            pfx = "!"
        elif r["const"]:
            real_pfx = name[:-33] if len(name) > 33 and name[-33] == "-" else name
            pfx = real_pfx  # the model answers with the table's constant; equality is the check
        else:
            pfx = "?"
        out.append(f"{pfx}/{p}/1")
    return ";".join(out)


# --------------------------------------------------------------------------- T2 families


def fam_operand_variation(ctx):
    """every harvested class x every operand position: vary one operand, compare the equality pattern of the names"""
    from harness.extractors_state import _perturb, collect_instances

    f = Family("Expr._name & overrides: every live class x every single-operand variation")
    ab = Abstractor()
    rows = _rows()
    insts = collect_instances()
    reqs, code, inputs, nontriv = [], [], [], []
    for cls, inst in sorted(insts.items(), key=lambda kv: kv[0].__qualname__):
        if cls.__name__ == "_DelayedExpr":
            continue
        items = [(cls, inst._name)]
        trees = [ab.tree(inst)]
        ok = True
        for i, op in enumerate(inst.operands):
            ops = list(inst.operands)
            ops[i] = _perturb(op)
            try:
                items.append((cls, _raw_name(cls, ops)))
            except Exception:  # noqa: BLE001  (the perturbed operand is not usable by this class's prefix computation)
                continue
            trees.append(ab.tree(inst, operands=ops))
        if not ok:
            continue
        reqs.append("names trees=" + ";".join(trees))
        code.append(_code_answer(items, rows))
        inputs.append({"class": cls.__qualname__, "operands": len(inst.operands)})
        nontriv.append(any(".n." in t[2:] or ".s." in t for t in trees))
    model = drive(reqs)
    f.compare(inputs, code, model, nontriv)
    f.note = f"{len(reqs)} classes with a live instance; answer = constant prefix / index of first equal name / operand count admissible"
    return f


def fam_pool_nodes(ctx):
    """every node of every form of every query and of its single-parameter variations: the partition of the
    nodes by real `_name` must be the partition of their trees by the model's name"""
    f = Family("name equality pattern over all nodes of a query family")
    ab = Abstractor()
    rows = _rows()
    pq = sp.tmp_parquet()
    reqs, code, inputs, nontriv = [], [], [], []
    qids = list(sp.POOL)
    if ctx.quick:
        qids = [q for i, q in enumerate(qids) if i % 2 == ctx.seed % 2] + ["fused", "set_index", "merge", "pq_filter", "gb_agg"]
    for q in dict.fromkeys(qids):
        nodes = {}
        variants = [None] + list(range(len(sp.POOL[q][2])))
        for v in variants:
            try:
                coll = sp.build(q, pq, v)
            except Exception:  # noqa: BLE001
                continue
            for form in sp.forms(coll):
                for n in form.walk():
                    if type(n).__name__ == "_DelayedExpr":
                        continue
                    nodes.setdefault(id(n), n)
        nodes = list(nodes.values())[:160]
        if not nodes:
            continue
        reqs.append("names trees=" + ";".join(ab.tree(n) for n in nodes))
        code.append(_code_answer([(type(n), n._name) for n in nodes], rows))
        inputs.append({"query": q, "nodes": len(nodes)})
        nontriv.append(True)
    model = drive(reqs)
    f.compare(inputs, code, model, nontriv)
    f.evaluations = sum(i["nodes"] for i in inputs)
    f.note = "built / optimized / unfused forms, base + every single-parameter variation"
    return f


def families(ctx):
    return [fam_operand_variation, fam_pool_nodes]


# --------------------------------------------------------------------------- support / failing-input search


def _names_job(pq, items, warmup=()):
    return {"kind": "names", "pq": pq, "warmup": list(warmup), "items": [{"id": f"{q}|{v}", "qid": q, "variation": v} for q, v in items]}


def _diff_names(a, b):
    """-> (label, description) of the first difference between two node_names() answers, or None"""
    for label in ("built", "optimized", "lowered"):
        if a.get(label) != b.get(label):
            la, lb = a.get(label) or [], b.get(label) or []
            for x, y in zip(la, lb):
                if x != y:
                    return label, f"{label}: node {x} vs {y}", x[0]
            return label, f"{label}: {len(la)} vs {len(lb)} nodes", "?"
    if a.get("out_keys") != b.get("out_keys"):
        return "out_keys", f"output keys {str(a.get('out_keys'))[:80]} vs {str(b.get('out_keys'))[:80]}", "?"
    if a.get("graph_keys") != b.get("graph_keys"):
        ka, kb = set(a.get("graph_keys") or []), set(b.get("graph_keys") or [])
        only = sorted(ka - kb)[:2] + sorted(kb - ka)[:2]
        return "graph_keys", f"{len(ka ^ kb)} task keys differ, e.g. {only}", "?"
    return None


def check_determinism(items, pq, seeds=("0", "1", "12345"), with_warmup=True):
    """names and keys of every node: this process twice, fresh interpreters under several hash seeds, and one
    interpreter that built unrelated queries first"""
    from concurrent.futures import ThreadPoolExecutor

    failures = []
    here1 = {f"{q}|{v}": sp.node_names(sp.build(q, pq, v)) for q, v in items}
    gc.collect()
    here2 = {f"{q}|{v}": sp.node_names(sp.build(q, pq, v)) for q, v in items}
    jobs = [(f"seed={s}", _names_job(pq, items), {"PYTHONHASHSEED": s}) for s in seeds]
    if with_warmup:
        others = [q for q in sp.POOL if q not in {i[0] for i in items}][:12] or list(sp.POOL)[:12]
        jobs.append(("seed=0,unrelated-first", _names_job(pq, items, warmup=others), {"PYTHONHASHSEED": "0"}))
    with ThreadPoolExecutor(4) as ex:
        outs = list(ex.map(lambda j: sp.run_child(j[1], env=j[2]), jobs))
    worlds = [("same-process-again", here2)] + [(j[0], o) for j, o in zip(jobs, outs)]
    for q, v in items:
        key = f"{q}|{v}"
        for wname, w in worlds:
            d = _diff_names(here1[key], w[key])
            if d is None:
                continue
            label, desc, cls = d
            if label == "graph_keys" and any(p in desc for p in ("barrier-", "shuffle-partition-", "zpartd-")):
                sig = {"kind": "keys", "site": "DiskShuffle._layer"}
            elif label in ("optimized", "out_keys") and (cls == "Fused" or "fused" in desc):
                sig = {"kind": "names", "site": "Fused", "world": "hash-seed" if wname.startswith("seed=") else wname}
            else:
                sig = {"kind": "names" if label != "graph_keys" else "keys", "site": cls, "world": wname}
            failures.append(Failure(sig=sig, case={"check": "determinism", "q": q, "v": v, "world": wname},
                                    detail=f"query {q} (variation {v}) built here vs {wname}: {desc}"))
            break
    return failures, len(items) * (len(worlds) + 1)


def check_variations(pq, qids):
    failures, n = [], 0
    for q in qids:
        base = sp.build(q, pq)
        bname, boname = base._name, base.optimize()._name
        for i, (param, val) in enumerate(sp.POOL[q][2]):
            n += 1
            var = sp.build(q, pq, i)
            if var._name == bname or var.optimize()._name == boname:
                failures.append(Failure(sig={"kind": "variation", "query": q, "param": param},
                                        case={"check": "variation", "q": q, "v": i},
                                        detail=f"{q}: changing {param} to {val!r} leaves the {'built' if var._name == bname else 'optimized'} name unchanged"))
    return failures, n


# ---- targeted collision candidates (each: two different public-API queries; a collision = equal names, different answers)


def _cand_operation_rename_memusage():
    import numpy as np
    import pandas as pd
    import dask_expr as dx

    s = dx.from_pandas(pd.DataFrame({"a": np.arange(4)}), npartitions=2).a
    q1 = s.rename(False)
    q2 = s.memory_usage_per_partition(index=False, deep=False)
    return q1, q2, lambda: (pd.DataFrame({"a": np.arange(4)}).a.memory_usage(index=False, deep=False),)


def _cand_operation_rename_columns():
    import numpy as np
    import pandas as pd
    import dask_expr as dx

    df = dx.from_pandas(pd.DataFrame({"a": np.arange(4)}), npartitions=2)
    q1 = df.rename(columns={"a": "x"})
    q2 = df.copy()
    q2.columns = {"a": "x"}  # pandas: the labels are the dict's keys -> ["a"]
    return q1, q2, None


def _cand_literal_name():
    import pandas as pd
    import dask_expr as dx

    tot = dx.from_pandas(pd.DataFrame({"a": [1, 2, 3, 4]}), npartitions=2).a.sum()
    n = tot.expr._name
    df = dx.from_pandas(pd.DataFrame({"b": [n, "y", "z", "w"]}), npartitions=2)
    q1 = df.b == n  # compare with a literal string (first row matches)
    q2 = df.b == tot  # compare with the scalar expression (value 10: nothing matches)
    return q1, q2, None


def _cand_attrs():
    import pandas as pd
    import dask_expr as dx

    f = pd.DataFrame({"a": [1.0, 2.0, 3.0, 4.0]})
    g = f.copy()
    g.attrs["unit"] = "m"
    return dx.from_pandas(g, npartitions=2), dx.from_pandas(f, npartitions=2), None


def _cand_string_flavour():
    import dask
    import pandas as pd
    import dask_expr as dx

    f = pd.DataFrame({"b": pd.array(list("xyzw"), dtype="str")})
    g = pd.DataFrame({"b": pd.array(list("xyzw"), dtype="string")})
    with dask.config.set({"dataframe.convert-string": False}):
        return dx.from_pandas(f, npartitions=2), dx.from_pandas(g, npartitions=2), None


def _from_graph(scale):
    import pandas as pd
    import dask_expr as dx

    meta = pd.DataFrame({"a": pd.Series([], dtype="int64")})
    layer = {("snap", i): pd.DataFrame({"a": [scale * (2 * i + 1), scale * (2 * i + 2)]}) for i in range(2)}
    return dx.from_graph(layer, meta, (None, None, None), [("snap", 0), ("snap", 1)], "snap")


def _cand_from_graph_values():
    # two imported graphs with the same keys, schema and divisions but different partition data (two persists of a
    # source that was rewritten in place look like this)
    return _from_graph(1), _from_graph(10), None


def _persisted_after_rewrite(value):
    import pandas as pd
    import dask_expr as dx

    box = {"v": value}
    src = dx.from_map(lambda i: pd.DataFrame({"a": [box["v"] + i]}), [0, 1], meta=pd.DataFrame({"a": pd.Series([], dtype="int64")}),
                      enforce_metadata=False)
    return (src + 0).persist()


def _cand_persist_rewritten():
    return _persisted_after_rewrite(1), _persisted_after_rewrite(100), None


CANDIDATES = {
    "FromGraph:layer-values": _cand_from_graph_values,
    "FromGraph:persist-after-rewrite": _cand_persist_rewritten,
    "prefix:operation/RenameSeries~MemoryUsagePerPartition": _cand_operation_rename_memusage,
    "prefix:operation/RenameFrame~ColumnsSetter": _cand_operation_rename_columns,
    "literal-equals-name": _cand_literal_name,
    "tokenize:DataFrame.attrs": _cand_attrs,
    "tokenize:StringDtype.na_value": _cand_string_flavour,
}


def _describe(x):
    import pandas as pd

    if isinstance(x, pd.DataFrame):
        return {"columns": [str(c) for c in x.columns], "dtypes": [str(t) for t in x.dtypes], "attrs": dict(x.attrs), "values": x.astype(object).values.tolist()[:4]}
    if isinstance(x, pd.Series):
        return {"name": str(x.name), "dtype": str(x.dtype), "attrs": dict(x.attrs), "values": x.astype(object).tolist()[:4]}
    return repr(x)


def run_candidate(site):
    """-> None | description.  A collision: the two queries share `_name` (hence are one object) although their
    types / answers differ."""
    gc.collect()
    q1, q2, _ = CANDIDATES[site]()
    if q1._name != q2._name:
        return None
    same_obj = q1.expr is q2.expr
    r1 = _describe(q1.compute())
    # what q2 answers when q1 never existed (the singleton table then cannot alias them)
    del q1, q2
    gc.collect()
    _, q2b, _ = (lambda t: (None, t[1], None))(_rebuild_second(site))
    r2 = _describe(q2b.compute())
    if json.dumps(r1, sort_keys=True, default=str) == json.dumps(r2, sort_keys=True, default=str):
        return None
    return (f"two different queries have one name (same object: {same_obj}); with the first alive the second answers "
            f"{json.dumps(r1, default=str)[:200]}, alone it answers {json.dumps(r2, default=str)[:200]}")


def _rebuild_second(site):
    """build only the second query of a candidate in a state where the first is not alive"""
    import numpy as np
    import pandas as pd
    import dask
    import dask_expr as dx

    if site == "prefix:operation/RenameSeries~MemoryUsagePerPartition":
        s = dx.from_pandas(pd.DataFrame({"a": np.arange(4)}), npartitions=2).a
        return None, s.memory_usage_per_partition(index=False, deep=False)
    if site == "prefix:operation/RenameFrame~ColumnsSetter":
        q2 = dx.from_pandas(pd.DataFrame({"a": np.arange(4)}), npartitions=2).copy()
        q2.columns = {"a": "x"}
        return None, q2
    if site == "literal-equals-name":
        tot = dx.from_pandas(pd.DataFrame({"a": [1, 2, 3, 4]}), npartitions=2).a.sum()
        df = dx.from_pandas(pd.DataFrame({"b": [tot.expr._name, "y", "z", "w"]}), npartitions=2)
        return None, df.b == tot
    if site == "FromGraph:layer-values":
        return None, _from_graph(10)
    if site == "FromGraph:persist-after-rewrite":
        return None, _persisted_after_rewrite(100)
    if site == "tokenize:DataFrame.attrs":
        return None, dx.from_pandas(pd.DataFrame({"a": [1.0, 2.0, 3.0, 4.0]}), npartitions=2)
    if site == "tokenize:StringDtype.na_value":
        with dask.config.set({"dataframe.convert-string": False}):
            return None, dx.from_pandas(pd.DataFrame({"b": pd.array(list("xyzw"), dtype="string")}), npartitions=2)
    raise KeyError(site)


def constructible_collisions():
    """internal-API level: for every prefix group of the generated table, instantiate every other class of the
    group on the operand list of a harvested instance; equal `_name` = the rule shape alone cannot separate them"""
    from harness.extractors import live_expr_classes
    from harness.extractors_state import collect_instances, name_rule_rows

    rows = name_rule_rows(probe=False)
    classes = live_expr_classes()
    by_pfx = {}
    rule = {}
    for r, c in zip(rows, classes):
        rule[c] = r
        if r["const"]:
            by_pfx.setdefault(r["pfx"], []).append(c)
    insts = collect_instances()
    found = {}
    for pfx, members in by_pfx.items():
        for a in members:
            x = insts.get(a)
            if x is None:
                continue
            for b in members:
                if b is a or issubclass(b, a) or issubclass(a, b):
                    continue
                k = len(x.operands)
                if not (k >= rule[b]["nparams"] if rule[b]["variadic"] else k == rule[b]["nparams"]):
                    continue  # not an operand count class b can have
                try:
                    if _raw_name(b, x.operands) == x._name:
                        found.setdefault(pfx, []).append((a.__qualname__, b.__qualname__))
                except Exception:  # noqa: BLE001
                    pass
    return found


def check_key_overlaps(pq, qids):
    """Task keys are names too: two DIFFERENT queries computed in one graph (dask.compute(a, b), concat) are merged by
    key, so no helper key (split pieces, shuffle stages, …) of one may stand for another task in the other.  Every pool
    query is paired with each of its single-parameter variations."""
    from harness.render import Names, rtask

    fails, n = [], 0
    for q in qids:
        nvar = len(sp.POOL[q][2])
        if not nvar:
            continue
        try:
            forms = [sp.build(q, pq, v).expr.optimize(fuse=False) for v in [None] + list(range(nvar))]
        except Exception:  # noqa: BLE001
            continue
        seen = {}
        for vi, e in enumerate(forms):
            stack, names_seen = [e], set()
            while stack:
                x = stack.pop()
                if x._name in names_seen:
                    continue
                names_seen.add(x._name)
                stack.extend(x.dependencies())
                try:
                    layer = x._layer()
                except Exception:  # noqa: BLE001
                    continue
                for k, v in layer.items():
                    n += 1
                    desc = rtask(v, Names("", []))
                    if k in seen and seen[k][1] != desc and seen[k][0] != vi:
                        fails.append(Failure(sig={"kind": "task-key-collision", "class": type(x).__name__},
                                             case={"check": "keys", "q": q},
                                             detail=f"{q}: key {k!r} stands for different tasks in variation {seen[k][0]} and {vi} ({type(x).__name__})"))
                        break
                    seen.setdefault(k, (vi, desc))
    return fails, n


def support(ctx, broken):
    sup = Support()
    pq = sp.tmp_parquet()
    qids = list(sp.POOL)
    # (a) determinism across processes / hash seeds / histories
    items = [(q, None) for q in qids]
    if not ctx.quick:
        items += [(q, i) for q in qids for i in range(len(sp.POOL[q][2]))]
    seeds = ("1", "12345") if ctx.quick else ("0", "1", "2", "12345", "4294967295")
    fails, n = check_determinism(items, pq, seeds=seeds)
    sup.executed += n
    sup.distribution["determinism:query x world"] = n
    seen = set()
    for fl in fails:
        k = json.dumps(fl.sig, sort_keys=True)
        if k not in seen:
            seen.add(k)
            sup.failures.append(fl)
        sup.count("determinism-failure:" + fl.sig.get("site", "?"))
    # (b) every single-parameter variation changes the name
    fails, n = check_variations(pq, qids)
    sup.executed += n
    sup.distribution["variations"] = n
    sup.failures += fails
    # (b') helper task keys of a query and of its variations never collide
    fails, n = check_key_overlaps(pq, qids)
    sup.executed += n
    sup.distribution["task-keys-compared"] = n
    sup.failures += fails
    # (c) collision candidates (public API) and constructible collisions (internal API)
    for site in CANDIDATES:
        sup.executed += 1
        sup.count("candidate")
        msg = run_candidate(site)
        if msg:
            sup.failures.append(Failure(sig={"kind": "collision", "site": site.split("/")[0]}, case={"check": "candidate", "site": site}, detail=f"{site}: {msg}"))
    groups = constructible_collisions()
    sup.distribution["constructible-collision-groups"] = {k: len(v) for k, v in groups.items()}
    sup.samples.append({"constructible collisions (class pairs sharing a name on one operand list)": {k: v[:4] for k, v in groups.items()}})
    # one failure per signature is enough for the protocol; keep them distinct
    uniq, seen = [], set()
    for fl in sup.failures:
        k = json.dumps(fl.sig, sort_keys=True)
        if k not in seen:
            seen.add(k)
            uniq.append(fl)
    sup.failures = uniq
    # every distinct failing signature goes into the evidence (the replay file only carries the first one)
    sup.distribution["failures_found"] = [{"sig": f.sig, "detail": f.detail[:240]} for f in sup.failures]
    return sup


def replay(case):
    pq = sp.tmp_parquet()
    if case["check"] == "determinism":
        fails, _ = check_determinism([(case["q"], case.get("v"))], pq, with_warmup=True)
        return fails[0] if fails else None
    if case["check"] == "variation":
        fails, _ = check_variations(pq, [case["q"]])
        fails = [f for f in fails if f.case["v"] == case["v"]]
        return fails[0] if fails else None
    if case["check"] == "keys":
        fails, _ = check_key_overlaps(pq, [case["q"]])
        return fails[0] if fails else None
    if case["check"] == "candidate":
        msg = run_candidate(case["site"])
        return Failure(sig={"kind": "collision", "site": case["site"].split("/")[0]}, case=case, detail=msg) if msg else None
    return None
