"""C16 — collections survive serialization to another process."""
from __future__ import annotations

import base64
import gc
import json
import pickle

from harness import statepool as sp
from harness.core import Family, Failure, Support, drive
from harness.props.c08 import Abstractor

LEAN_MODULES = ["DxModel.Props.C16"]
GENERATED = ["CacheSites", "NameRules"]
TRUSTED = [
    "pickle's protocol: an object is rebuilt by calling the first element of its __reduce__ tuple on the rebuilt second element",
    "pickling of foreign operands (pandas frames, pyarrow datasets/fragments, user functions by reference) is not modelled; it is exercised by the search",
    "harness/extractors_state.py `ast` scan (CacheSites) for the observables table",
]
PARTIAL = [
    "C16_observables_table relies on the syntactic judgement of the CacheSites scan that every `_SetIndexPost(…)` call passes non-None divisions "
    "(the assert-on-miss read of D10 is still in the source, unreachable)",
    "cached_property values and parquet plan/statistics caches are only covered by the search (fresh interpreter with empty caches)",
]
ASSUMPTIONS = ["names are a function of (class, operands) (C08) so that the receiving process's Expr._instances returns an equal tree (C15_singleton)"]
EXPLANATION = (
    "Theorems: reconstruct(reduce e) = e with per-object caches emptied, for all trees incl. nested lists and _BackendData wrappers; "
    "same name; observables obtained purely or by get-or-compute are equal in the originating and in a fresh process; table obligation "
    "that every observable reading global state recomputes on a miss (partial: D10). Tie: the real __reduce__ recursion is rendered and "
    "compared with the model's stream for every node of the pool, and real pickle round trips are compared structurally. Search: "
    "pickles of built / optimized / lowered forms of ~60 queries are loaded in fresh interpreters: name, schema, divisions, result."
)
RULE = "one evaluation = one expression tree; non-trivial = contains a nested expression, a list operand or a _BackendData wrapper"

# --------------------------------------------------------------------------- abstraction with wrappers


class PAbstractor(Abstractor):
    """like C08's abstraction, but `_BackendData` operands are rendered with the size of their cache"""

    def operand(self, v):
        from dask_expr._util import _BackendData

        if isinstance(v, _BackendData):
            return f"b.{self.lit(v._data)}.{len(v._division_info.data)}"
        return super().operand(v)

    def cold(self, tree: str) -> str:
        toks = tree.split(".")
        out, i = [], 0
        while i < len(toks):
            if toks[i] == "b":
                out += ["b", toks[i + 1], "0"]
                i += 3
            elif toks[i] == "l":
                out += toks[i:i + 2]
                i += 2
            elif toks[i] == "s":
                out += toks[i:i + 2]
                i += 2
            elif toks[i] == "n":
                out += toks[i:i + 3]
                i += 3
            else:
                raise ValueError(tree)
        return ".".join(out)


def render_reduce(ab, e):
    """the stream `pickle` would walk: __reduce__ of the expression, recursively of its operands"""
    from dask_expr._core import Expr
    from dask_expr._util import _BackendData

    def op(v):
        if isinstance(v, Expr):
            return expr(v)
        if isinstance(v, _BackendData):
            cls, args = v.__reduce__()
            assert cls is _BackendData and len(args) == 1 and args[0] is v._data
            return f"B{ab.lit(v._data)}"
        if isinstance(v, (list, tuple)) and any(isinstance(x, Expr) for x in v):
            return "S[" + ",".join(op(x) for x in v) + "]"
        return f"L{ab.lit(v)}"

    def expr(x):
        cls, args = x.__reduce__()
        assert cls is type(x)
        return f"C{ab.cls_id.get(cls, 999999)}(" + ",".join(op(a) for a in args) + ")"

    return expr(e)


def fam_reduce_roundtrip(ctx):
    from dask_expr import new_collection

    f = Family("Expr.__reduce__ / FrameBase.__reduce__ / _BackendData.__reduce__ and real pickle round trip")
    ab = PAbstractor()
    pq = sp.tmp_parquet()
    reqs, code, inputs, nontriv = [], [], [], []
    qids = [q for q in sp.POOL if "parquet" not in sp.flags(q).get("tags", [])]
    if ctx.quick:
        qids = qids[ctx.seed % 2::2] + ["fused", "from_pandas_u", "set_index", "concat"]
    staged = []
    for q in dict.fromkeys(qids):
        coll = sp.build(q, pq)
        for label, e in zip(("built", "optimized", "lowered"), sp.forms(coll)):
            if any(type(n).__name__ == "_DelayedExpr" for n in e.walk()):
                continue
            c = new_collection(e)
            cr, ca = c.__reduce__()
            assert cr is new_collection and ca == (e,)
            tree = ab.tree(e)
            staged.append({"q": q, "form": label, "tree": tree, "stream": "coll(" + render_reduce(ab, e) + ")", "name": e._name,
                           "blob": pickle.dumps(c)})
        coll = e = c = None
    gc.collect()  # nothing of the originals is referenced any more: loads() really reconstructs
    for it in staged:
        try:
            back = pickle.loads(it["blob"])
            # (loading a collection computes its meta, which may already refill the fresh wrapper's cache: compare modulo caches)
            ok = ab.cold(ab.tree(back.expr)) == ab.cold(it["tree"]) and back.expr._name == it["name"]
            detail = "" if ok else f" loaded={ab.tree(back.expr)[:120]} name={back.expr._name}"
        except Exception as ex:  # noqa: BLE001
            ok, detail = False, f" {type(ex).__name__}: {str(ex)[:100]}"
        back = None
        reqs.append("pickle tree=" + it["tree"])
        code.append("R " + it["stream"] + "|" + ("OK" if ok else "FAIL" + detail))
        inputs.append({"query": it["q"], "form": it["form"]})
        nontriv.append(".n." in it["tree"][2:] or ".b." in it["tree"])
    model = drive(reqs)
    f.compare(inputs, code, model, nontriv)
    f.note = "built / optimized / lowered forms; the loaded tree must equal the original with cold wrappers and have the same name"
    return f


def families(ctx):
    return [fam_reduce_roundtrip]


# --------------------------------------------------------------------------- support: pickle -> fresh interpreter

FORMS = ("built", "optimized", "lowered")


def _form(coll, form):
    from dask_expr import new_collection

    if form == "built":
        return coll
    if form == "optimized":
        return coll.optimize()
    return new_collection(coll.expr.lower_completely())


def _op_of(q, v=None):
    tags = sp.flags(q).get("tags", [])
    arrow_variant = v is not None and tuple(sp.POOL[q][2][v]) == ("fs", "arrow")
    if q.endswith("_arrow") or "pqf" in tags or arrow_variant:
        return "read_parquet[arrow]"
    if "set_index" in tags:
        return "set_index"
    if "sort" in tags:
        return "sort_values"
    return q


def _groups(q):
    return {t for t in sp.flags(q).get("tags", []) if t in ("sort", "parquet", "pqf", "presorted", "memusage", "flaky", "disk")}


def originate(items, pq):
    """In THIS process: build every (query, form), record what it shows here, pickle it."""
    out = []
    for it in items:
        q, form = it[0], it[1]
        var = it[2] if len(it) > 2 else None
        rec = {"id": f"{q}|{var}|{form}", "q": q, "v": var, "form": form, "sort_rows": sp.flags(q).get("sort_rows", False)}
        try:
            obj = _form(sp.build(q, pq, var), form)
            rec["expected"] = sp.observe_loaded(obj, rec["sort_rows"])
            rec["blob"] = base64.b64encode(pickle.dumps(obj)).decode()
        except Exception as e:  # noqa: BLE001
            rec["origin_error"] = f"{type(e).__name__}: {str(e)[:200]}"
        out.append(rec)
    return out


def ship(recs, pq):
    """Load every pickle in a fresh interpreter.  Interpreters are shared only by items that cannot share a cache entry
    (different queries, at most one query per cache-relevant tag)."""
    from concurrent.futures import ThreadPoolExecutor

    batches = []
    for r in recs:
        if "blob" not in r:
            continue
        g = _groups(r["q"])
        # collections over EQUAL source data (tag "backend") are loaded together on purpose: per-frame state must not be
        # shared between the rebuilt wrappers of one receiving process
        together = "backend" in sp.flags(r["q"]).get("tags", [])
        for b in batches:
            if b.get("together", False) != together or (together and b["form"] != r["form"]):
                continue
            if len(b["items"]) < 9 and r["q"] not in b["qs"] and not (g & b["groups"]):
                b["items"].append(r)
                b["qs"].add(r["q"])
                b["groups"] |= g
                break
        else:
            batches.append({"items": [r], "qs": {r["q"]}, "groups": set(g), "together": together, "form": r["form"]})

    def run(b):
        job = {"kind": "unpickle", "pq": pq, "items": [{"id": r["id"], "blob": r["blob"], "sort_rows": r["sort_rows"]} for r in b["items"]]}
        return sp.run_child(job)

    got = {}
    with ThreadPoolExecutor(8) as ex:
        for res in ex.map(run, batches):
            got.update(res)
    return got, len(batches)


def compare(rec, got):
    """-> None | (field, description)"""
    if "origin_error" in rec:
        return ("origin", f"could not build/pickle in the originating process: {rec['origin_error']}")
    if "load_error" in got:
        return ("load", f"pickle.loads failed in the fresh process: {got['load_error']}: {got.get('msg', '')}")
    for k in ("name", "meta", "divisions", "result"):
        a, b = rec["expected"].get(k), got.get(k)
        if json.dumps(a, sort_keys=True) != json.dumps(b, sort_keys=True):
            return (k, f"{k}: originating process {json.dumps(a)[:160]} vs fresh process {json.dumps(b)[:160]}")
    return None


def _failure(rec, field, desc):
    return Failure(sig={"kind": "pickle", "form": rec["form"], "op": _op_of(rec["q"], rec.get("v"))},
                   case={"q": rec["q"], "v": rec.get("v"), "form": rec["form"]},
                   detail=f"{rec['q']} [{rec['form']}] {desc}")


def snapshot_case(form):
    """A pickled parquet read carries what the originating process planned (file list, schema, checksum): loading it
    elsewhere, after a file was ADDED to the dataset directory, must give the collection that was pickled — same
    name, partition count and rows — without re-planning from the raw path."""
    import os
    import pickle
    import shutil
    import subprocess
    import sys
    import tempfile

    import pandas as pd

    import dask_expr as dx

    tmp = tempfile.mkdtemp(prefix="vc16_")
    try:
        path = os.path.join(tmp, "ds")
        pdf = pd.DataFrame({"a": range(36), "b": range(36)})
        dx.from_pandas(pdf, npartitions=4).to_parquet(path)
        r = dx.read_parquet(path)
        q = r[r.a >= 0][["a", "b"]] if form != "logical" else r
        if form == "optimized":
            q = q.optimize()
        elif form == "lowered":
            q = dx.new_collection(q.expr.lower_completely())
        want = (q._name, q.npartitions, len(q.compute()))
        blob = pickle.dumps(q)
        extra = pd.DataFrame({"a": range(100, 110), "b": range(10)}, index=range(36, 46))
        extra.to_parquet(os.path.join(path, "part.9.parquet"))
        code = ("import pickle,sys,dask; dask.config.set(scheduler='sync'); x=pickle.loads(sys.stdin.buffer.read()); "
                "print(repr((x._name, x.npartitions, len(x.compute()))))")
        out = subprocess.run([sys.executable, "-W", "ignore", "-c", code], input=blob, capture_output=True,
                             env=dict(os.environ, PYTHONPATH=os.pathsep.join(sys.path)))
        if out.returncode != 0:
            return f"loading the pickled {form} parquet collection failed: {out.stderr.decode()[-200:]}"
        got = eval(out.stdout.decode().strip().splitlines()[-1])
        if got != want:
            return f"{form} parquet read pickled as (name, npartitions, rows)={want}; the receiving process sees {got} after a file was added to the directory"
        return None
    finally:
        shutil.rmtree(tmp, ignore_errors=True)


def support(ctx, broken):
    sup = Support()
    snap_failures = []
    for form in ("logical", "optimized", "lowered"):
        try:
            msg = snapshot_case(form)
        except Exception as ex:  # noqa: BLE001
            msg = f"snapshot case raised {type(ex).__name__}: {str(ex)[:160]}"
        if msg:
            snap_failures.append(Failure(sig={"kind": "pickle", "form": form, "op": "read_parquet[snapshot]"}, case={"snapshot": form}, detail=msg))
    pq = sp.tmp_parquet()
    # the fully-filtered parquet reads are left to C15 (their answer depends on what the process planned before: the `_cached_plan` key finding)
    qids = [q for q in sp.POOL if "pq_none" not in sp.flags(q).get("tags", [])]
    if ctx.quick:
        # a slice of 32 queries: everything touching a cache (sorts, set_index, parquet, repartition-by-size, flaky, disk)
        # plus a seed-dependent half of the rest
        tagged = [q for q in qids if sp.flags(q).get("tags")]
        rest = [q for q in qids if q not in tagged]
        qids = tagged + rest[ctx.seed % 2::2][: max(0, 32 - len(tagged))]
    items = [(q, form, None) for form in FORMS for q in qids]
    if not ctx.quick:
        items += [(q, form, i) for form in FORMS for q in qids for i in range(len(sp.POOL[q][2]))]
    recs = originate(items, pq)
    got, nchildren = ship(recs, pq)
    sup.distribution["fresh_interpreters"] = nchildren
    seen = set()
    for r in recs:
        sup.executed += 1
        sup.count("form:" + r["form"])
        bad = compare(r, got.get(r["id"], {"load_error": "no answer"}))
        if len(sup.samples) < 3 and not bad:
            sup.samples.append({"q": r["q"], "form": r["form"], "name": r["expected"].get("name")})
        if bad:
            fl = _failure(r, *bad)
            sup.count("failure:" + json.dumps(fl.sig, sort_keys=True))
            k = json.dumps(fl.sig, sort_keys=True)
            if k not in seen:
                seen.add(k)
                sup.failures.append(fl)
    # every distinct failing signature goes into the evidence (the replay file only carries the first one)
    sup.distribution["failures_found"] = [{"sig": f.sig, "detail": f.detail[:240]} for f in sup.failures]
    sup.executed += 3
    sup.failures = snap_failures + sup.failures
    return sup


def replay(case):
    if "snapshot" in case:
        msg = snapshot_case(case["snapshot"])
        return Failure(sig={}, case=case, detail=msg) if msg else None
    pq = sp.tmp_parquet()
    recs = originate([(case["q"], case["form"], case.get("v"))], pq)
    got, _ = ship(recs, pq)
    bad = compare(recs[0], got.get(recs[0]["id"], {"load_error": "no answer"}))
    return _failure(recs[0], *bad) if bad else None
