"""C18 — parquet reads with pushed-down work equal reading everything into memory."""
from __future__ import annotations

import ast
import inspect
import itertools
import os
import shutil
import tempfile
import textwrap

import numpy as np
import pandas as pd

from harness import e2e
from harness.core import Failure, Family, Support, drive

LEAN_MODULES = ["DxModel.Props.C18"]
GENERATED = []
TRUSTED = [
    "statistics reach the planner through `fragment.metadata.to_dict()` (arrow) and dask's `_construct_collection_plan` (fsspec): "
    "the tie replaces exactly these two by stubs delivering generated statistics; that real files produce such statistics "
    "(min/max = the true extremes of the non-null values) is exercised by the end-to-end layouts only",
    "python builtins min/max/sum/sorted/set and pandas argsort (stable below 17 elements) as specified in DxModel/ParquetStats.lean",
    "pyarrow / fsspec readers and writers (everything inside them is exercised, not modelled); the reader's row filter is "
    "assumed to be Kleene evaluation with 'keep iff true' (validated by the end-to-end search on data with nulls)",
    "Lean model of _DNF / extract_pq_filters shared with C03 (tied there by exact correspondence)",
    "the overwrite guard is modelled on path components; the string expression in to_parquet is compared with it on generated path pairs",
]
PARTIAL = [
    "the FULL statement 'known divisions are truthful (C06, half-open) for every dataset within the statistics' is false for the "
    "code as it is in the boundary case max_i = min_{i+1} (both readers accept touching ranges; open finding D92, counterexample "
    "proven and replayed): what is proven without any hypothesis on the ranges is the closed-interval reading + sorted divisions + "
    "rows sorted across partitions; the half-open reading only when no file's max equals another file's min "
    "(C18_*_truthful_partial); null index values inside a file are outside every interval (open finding D93)",
    "index values are integers, nulls are 'no value': truthfulness is stated for the non-null index values; the row order inside "
    "a file is not derivable from statistics and not claimed (C06's rowsSorted); floats, strings and timestamps are assumed to "
    "behave like a linear order",
    "numpy's quicksort behind `Series.argsort` is stable only up to 16 elements: for longer lists files with identical "
    "(min, max) may be ordered differently from the model (divisions identical; the theorems hold for every sorting permutation)",
    "not modelled: `_construct_collection_plan`, `aggregate_row_groups`, `apply_filters` of dask (outside /repo; exercised end-to-end "
    "only), `_collect_pq_statistics` (opens files; end-to-end only), the ValueError of `_divisions_from_statistics` when the index "
    "column is not in the statistics (unnamed index), the fusion step size (float arithmetic; only step >= 1 is used), "
    "`approx_statistics`/`_combine_stats` (averages used for the fusion factor only: they never decide divisions)",
]
EXPLANATION = (
    "Theorems: fused multi-file buckets are an ordered partition of the selected files (any step >= 1) and fusion changes "
    "granularity only; pushed filters keep exactly pandas' rows for negation-free null-compatible predicates (instance of "
    "C03_reader_pushdown) with the '!=' counterexample; overwrite guard = component-wise path prefix. Statistics: the sort index "
    "is a permutation (same multiset of rows); every known answer of either reader is truthful in the closed-interval reading "
    "with sorted divisions and rows sorted across partitions (arrow: after sorting the fragments, for any listing order); known "
    "divisions imply pairwise non-overlapping ranges, overlapping/unsorted(fsspec)/missing statistics give unknown divisions "
    "(arrow: since fix D91, C18_arrow_overlap_gives_unknown) or raise; touching-boundary counterexample (D92); metadata lengths "
    "= num_rows of the very fragments the tasks "
    "read, in selection order with repetitions, and sum over fused buckets. Tie: _fusion_buckets, FusedIO._divisions, the guard "
    "expression, and the whole statistics pipeline of both readers on real expression instances with stub fragments/engine "
    "(divisions + sort index + fragment order + Lengths/Len literals, or 'unknown'/'raised') vs the model. Support: write/read-back "
    "of small datasets (nulls, named/unnamed index, 1..4 files, unsorted statistics) x fsspec/arrow filesystem x "
    "calculate_divisions x projections x filter trees x partition subsets x user filters x lengths, plus 26 prescribed file "
    "layouts (every listing order, touching, overlapping, contained, null index values, all-null files) x both readers: rows "
    "equal, divisions truthful, loc on every label, lengths."
)

# --------------------------------------------------------------------------- T2 families


class _StubRead:
    """stands in for the wrapped reader of FusedIO: only what _fusion_buckets/_divisions touch"""


def fam_fusion_buckets(ctx):
    from dask_expr.io.io import FusedIO

    f = Family("fusion_buckets_and_divisions[FusedIO._fusion_buckets/_divisions]")

    class Wrapped:
        def __init__(self, parts, factor, divs):
            self._partitions = parts
            self._fusion_compression_factor = factor
            self._divs = divs
            self._name = "stub"
            self._funcname = "stub"

        def _divisions(self):
            return self._divs

    reqs, code, inputs = [], [], []
    rng = ctx.rng
    for _ in range(300 if ctx.quick else 3000):
        ntot = rng.randint(1, 60)
        k = rng.randint(1, ntot)
        parts = sorted(rng.sample(range(ntot), k))
        factor = rng.choice([1, 0.9, 0.5, 0.34, 0.25, 0.1, 0.01, 0.001])
        divs = tuple(range(0, 10 * (ntot + 1), 10))
        w = Wrapped(parts, factor, divs)
        fused = object.__new__(FusedIO)
        fused.operands = [w]
        buckets = FusedIO._fusion_buckets.func(fused)
        step = max(len(b) for b in buckets)
        # the float-derived step is not modelled: it is read off the real buckets and must be >= 1
        code.append("|".join(",".join(map(str, b)) for b in buckets))
        reqs.append(f"parquet buckets step={step} parts={','.join(map(str, parts))}")
        inputs.append({"parts": parts, "factor": factor, "step": step})
        fused.__dict__["_fusion_buckets"] = buckets
        got = FusedIO._divisions(fused)
        code.append(",".join(str(int(x)) for x in got))
        reqs.append(f"parquet fuseddiv divs={','.join(map(str, divs))} step={step} parts={','.join(map(str, parts))}")
        inputs.append({"divisions_of": parts, "step": step})
    f.compare(inputs, code, drive(reqs))
    return f


_GUARD = None


def _guard_fn():
    """The guard expression exactly as written in dask_expr.io.parquet.to_parquet (extracted from its source)."""
    global _GUARD
    if _GUARD is None:
        from dask_expr.io import parquet

        tree = ast.parse(textwrap.dedent(inspect.getsource(parquet.to_parquet)))
        stmts = []
        for node in ast.walk(tree):
            if isinstance(node, ast.For) and "find_operations" in ast.unparse(node.iter):
                for st in node.body:
                    if isinstance(st, ast.Assign):
                        stmts.append(ast.unparse(st))
                    if isinstance(st, ast.If):
                        stmts.append("return bool(" + ast.unparse(st.test) + ")")
        if not stmts or not stmts[-1].startswith("return"):
            raise RuntimeError("cannot locate the overwrite guard in to_parquet")
        src = "def guard(read_op, path):\n" + textwrap.indent("\n".join(stmts), "    ") + "\n"
        ns = {}
        exec(src, ns)
        _GUARD = ns["guard"]
    return _GUARD


def fam_guard(ctx):
    f = Family("overwrite_guard_expression[to_parquet]")
    g = _guard_fn()

    class R:
        def __init__(self, p):
            self.path = p

    comps = ["data", "a", "ab", "b", "a.parquet", "x"]
    paths = set()
    for r in range(1, 4):
        for c in itertools.product(comps, repeat=r):
            paths.add("/" + "/".join(c))
    paths = sorted(paths)
    if ctx.quick:
        ctx.rng.shuffle(paths)
        paths = paths[:60]
    reqs, code, inputs = [], [], []
    for rp in paths:
        for wp in paths:
            for rs, ws in (("", ""), ("/", ""), ("", "/")):
                code.append("1" if g(R(rp + rs), wp + ws) else "0")
                reqs.append(f"parquet guard r={rp + rs} w={wp + ws}")
                inputs.append((rp + rs, wp + ws))
    f.compare(inputs, code, drive(reqs), [c == "1" for c in code])
    return f


# --------------------------------------------------------------------------- T2: statistics → divisions / sort index / lengths
#
# The real reader expressions are instantiated with a pre-filled `_dataset_info_cache` operand, so every
# function between the pyarrow objects and the planner's answer runs for real: `load_statistics`,
# `_collect_statistics_plan`, `_extract_stats`, `_aggregate_statistics_to_file` (`_agg_dicts`,
# `_aggregate_columns`), `_divisions_from_statistics`, `_division_from_stats`, `_fragment_sort_index`,
# `fragments`, `_divisions`, `_get_lengths`, `ReadParquet._simplify_up(Lengths/Len)`; for the fsspec reader `_plan`,
# `_align_statistics`, `_aggregate_row_groups`, `_calculate_divisions` (+ dask's `sorted_columns`), `_divisions`,
# `_get_lengths`, `_update_length_statistics`.  Only the fragments (`.metadata.to_dict()`) and the fsspec engine's
# `_construct_collection_plan` are stubs delivering generated statistics.

_STUB_N = [0]


class _StubMeta:
    def __init__(self, d):
        self._d = d

    def to_dict(self):
        return self._d


class _StubFragment:
    def __init__(self, d):
        self.metadata = _StubMeta(d)


def _stub_meta_frame():
    return pd.DataFrame({"a": pd.Series([], dtype="int64")}, index=pd.Index([], dtype="int64", name="idx"))


def _raw_dict(numrows, rgs):
    """`fragment.metadata.to_dict()` of a file with the given row groups [(stats, rows)]:
    stats 'X' = no statistics object, 'N' = has_min_max False, (mn, mx)."""
    out = {"num_rows": numrows, "num_row_groups": len(rgs), "serialized_size": 100, "row_groups": []}
    for st, rows in rgs:
        if st == "X":
            stats = None
        elif st == "N":
            stats = {"min": None, "max": None, "null_count": rows, "num_values": 0, "distinct_count": None}
        else:
            stats = {"min": st[0], "max": st[1], "null_count": 0, "num_values": rows, "distinct_count": None}
        other = {"min": 0, "max": 1, "null_count": 0, "num_values": rows, "distinct_count": None}
        cols = [
            {"num_values": rows, "total_compressed_size": 10, "total_uncompressed_size": 20, "path_in_schema": "a", "statistics": other},
            {"num_values": rows, "total_compressed_size": 10, "total_uncompressed_size": 20, "path_in_schema": "idx", "statistics": stats},
        ]
        out["row_groups"].append({"num_rows": rows, "total_byte_size": 30, "sorting_columns": None, "columns": cols})
    return out


def _enc_mm(st):
    return st if isinstance(st, str) else f"{st[0]}_{st[1]}"


def _enc_files(files):
    if not files:
        return "-"
    return ";".join(f"{n}:" + "/".join(f"{_enc_mm(st)}.{rows}" for st, rows in rgs) for n, rgs in files)


def _enc_sel(sel):
    return "N" if sel is None else ("-" if not sel else ",".join(map(str, sel)))


def _ints(xs):
    xs = list(xs)
    return "-" if not xs else ",".join(str(int(x)) for x in xs)


def _render_divout(divs, order):
    divs = list(divs)
    o = None if order is None else [int(i) for i in order]
    if all(d is None for d in divs):
        return f"U {len(divs) - 1}|" + ("N" if o is None else _ints(o))
    return "K " + _ints(divs) + "|" + ("N" if o is None else _ints(o))


def _literal(x):
    from dask_expr._expr import Literal

    if x is None:
        return None
    assert isinstance(x, Literal), x
    return x.operand("value")


def _arrow_real(files, calc, sel, filters):
    """the real arrow-reader pipeline on stub fragments, rendered like Driver/Parquet.lean `arrowstats`"""
    from dask.base import tokenize
    from dask_expr._expr import Lengths
    from dask_expr._reductions import Len
    from dask_expr.io import parquet as pqm

    _STUB_N[0] += 1
    finfos = [f"verif-c18-stub-{os.getpid()}-{_STUB_N[0]}-{j}" for j in range(len(files))]
    frags = [_StubFragment(_raw_dict(n, rgs)) for n, rgs in files]
    info = {"checksum": f"verif-c18-{_STUB_N[0]}", "base_meta": _stub_meta_frame(), "fragments": frags, "all_files": finfos,
            "using_metadata_file": False, "schema": None}
    e = pqm.ReadParquetPyarrowFS("/nonexistent/verif-c18", calculate_divisions=calc, filters=[("a", ">", 0)] if filters else None,
                                 _partitions=sel, kwargs={}, _dataset_info_cache=info)
    try:
        try:
            if filters:
                raise LookupError  # fragments_unsorted asks the pyarrow dataset once filters are set
            agg = e.aggregated_statistics
            parts = []
            for fstat in agg:
                if "columns" not in fstat:
                    parts.append(f"{fstat['num_rows']}:-")
                    continue
                col = [c for c in fstat["columns"] if c["path_in_schema"] == "idx"][0]["statistics"]
                parts.append(f"{fstat['num_rows']}:" + ("N" if col["min"] is None and col["max"] is None else f"{col['min']}_{col['max']}"))
            aggtxt = ";".join(parts) if parts else "-"
        except Exception:  # noqa: BLE001
            aggtxt = "RAISED"
        if filters:
            aggtxt = divtxt = frtxt = "SKIP"
        else:
            try:
                divtxt = _render_divout(e._divisions(), e._fragment_sort_index())
                try:
                    frtxt = _ints(frags.index(fr) for fr in e.fragments)
                except IndexError:
                    frtxt = "IDXERR"
            except Exception:  # noqa: BLE001
                divtxt, frtxt = "RAISED", "RAISED"
        try:
            v = _literal(e._simplify_up(Lengths(e), {}))
            lens = "NONE" if v is None else "L " + _ints(v)
        except Exception:  # noqa: BLE001
            lens = "RAISED"
        try:
            v = _literal(e._simplify_up(Len(e), {}))
            ln = "NONE" if v is None else str(int(v))
        except Exception:  # noqa: BLE001
            ln = "RAISED"
        return f"{aggtxt} => {divtxt} => frags={frtxt} => lengths={lens} len={ln}"
    finally:
        for fi in finfos:
            pqm._STATS_CACHE.pop(tokenize(fi), None)


def _arrow_req(files, calc, sel, filters):
    return f"parquet arrowstats calc={int(calc)} filters={int(filters)} sel={_enc_sel(sel)} files={_enc_files(files)}"


def _intervals(lo, hi):
    return [(a, b) for a in range(lo, hi + 1) for b in range(a, hi + 1)]


def _rand_files(rng, n, shape):
    """n single- or multi-row-group files whose (min, max) follow `shape`"""
    files = []
    cur = rng.randint(-20, 20)
    ivs = []
    for _ in range(n):
        w = rng.choice([0, 0, 1, 3, 7])
        gap = rng.choice([0, 0, 1, 2, 5]) if shape in ("sorted", "reversed", "shuffled", "touching") else rng.randint(-6, 4)
        if shape == "touching":
            gap = 0
        lo = cur + gap
        ivs.append((lo, lo + w))
        cur = lo + w
    if shape == "reversed":
        ivs.reverse()
    elif shape in ("shuffled", "overlap"):
        rng.shuffle(ivs)
    elif shape == "dups":
        ivs = [rng.choice(ivs) for _ in range(n)]
    for iv in ivs:
        nrg = rng.choice([1, 1, 1, 2, 3])
        if nrg == 1:
            rgs = [(iv, rng.randint(1, 9))]
        else:
            cuts = sorted(rng.randint(iv[0], iv[1]) for _ in range(nrg - 1))
            bounds = [iv[0]] + cuts + [iv[1]]
            rgs = [((bounds[k], bounds[k + 1]), rng.randint(1, 9)) for k in range(nrg)]
            rng.shuffle(rgs)
        files.append((sum(r for _, r in rgs), rgs))
    return files


def _has_dup_tuples(files):
    mm = []
    for _, rgs in files:
        st = [s for s, _ in rgs if not isinstance(s, str)]
        if len(st) != len(rgs) or not st:
            return True
        mm.append((min(s[0] for s in st), max(s[1] for s in st)))
    return len(set(mm)) != len(mm)


def fam_arrow_statistics(ctx):
    f = Family("arrow_statistics[_extract_stats/_aggregate_statistics_to_file/_divisions_from_statistics/_division_from_stats/"
               "_fragment_sort_index/fragments/_divisions/_get_lengths/_simplify_up(Lengths,Len)]")
    rng = ctx.rng
    cases = []  # (files, calc, sel, filters)
    ivs = _intervals(0, 3)
    one = lambda iv, rows: (rows, [(iv, rows)])
    # exhaustive: every list of <= 3 single-row-group files over the 10 intervals of {0..3}
    small = [[one(a, 2)] for a in ivs]
    small += [[one(a, 2), one(b, 3)] for a in ivs for b in ivs]
    triples = [[one(a, 2), one(b, 3), one(c, 5)] for a in ivs for b in ivs for c in ivs]
    if ctx.quick:
        rng.shuffle(triples)
        triples = triples[:250]
    for fl in small + triples:
        cases.append((fl, True, None, False))
    # hand-picked shapes: sorted, reversed, overlapping, touching, contained, duplicates, ill-formed (min > max),
    # missing statistics (no min/max, no statistics object, file without row groups), several row groups
    special = [
        [],
        [one((0, 4), 3), one((5, 9), 4)], [one((5, 9), 4), one((0, 4), 3)], [one((0, 10), 3), one((5, 15), 4)],
        [one((0, 10), 3), one((10, 15), 4)], [one((10, 15), 4), one((0, 10), 3)], [one((0, 10), 3), one((2, 3), 4)],
        [one((1, 1), 1), one((1, 1), 2), one((1, 2), 3)], [one((4, 2), 3), one((3, 3), 1)], [one((3, 1), 3)],
        [(3, [("N", 3)])], [(3, [("N", 3)]), (2, [("N", 2)])], [(3, [("N", 3)]), one((0, 4), 2)], [one((0, 4), 2), (3, [("N", 3)])],
        [(3, [("X", 3)])], [one((0, 4), 2), (3, [("X", 3)])], [(7, [])], [one((0, 4), 2), (7, [])], [(7, []), one((0, 4), 2)],
        [(7, [((5, 9), 3), ((0, 6), 4)]), (5, [((10, 12), 5)])], [(7, [((5, 9), 3), ("N", 4)])], [(7, [("N", 3), ("N", 4)])],
        [(9, [((5, 9), 3), ((0, 6), 4)])], [(4, [((0, 1), 4)]), (6, [((1, 5), 2), ((7, 9), 4)]), (1, [((6, 6), 1)])],
    ]
    for fl in special:
        n = len(fl)
        for calc in (True, False):
            for sel in (None, [], [0], list(range(n))[::-1], [0] * 2 + [max(n - 1, 0)], [n]):
                cases.append((fl, calc, sel, False))
        cases.append((fl, True, None, True))
        cases.append((fl, True, [0], True))
    # seeded random
    for _ in range(250 if ctx.quick else 6000):
        shape = rng.choice(["sorted", "reversed", "shuffled", "overlap", "touching", "dups"])
        n = rng.choice([1, 2, 2, 3, 3, 4, 5, 6, 8, 12, 16, 20, 40])
        fl = _rand_files(rng, n, shape)
        if n > 16 and _has_dup_tuples(fl):
            # numpy's quicksort is not stable beyond 16 elements: equal (min, max) tuples have no defined order there
            n = 16
            fl = fl[:16]
        if rng.random() < 0.08:
            j = rng.randrange(n)
            fl[j] = (fl[j][0], [(rng.choice(["N", "X"]), fl[j][0])]) if rng.random() < 0.8 else (fl[j][0], [])
        r = rng.random()
        sel = None if r < 0.4 else [rng.randrange(n) for _ in range(rng.randint(1, n + 2))]
        if sel is not None and rng.random() < 0.05:
            sel.append(n)
        cases.append((fl, rng.random() < 0.85, sel, rng.random() < 0.05))
    reqs, code, inputs, nontriv = [], [], [], []
    for fl, calc, sel, filters in cases:
        reqs.append(_arrow_req(fl, calc, sel, filters))
        code.append(_arrow_real(fl, calc, sel, filters))
        inputs.append({"files": _enc_files(fl), "calc": calc, "sel": sel, "filters": filters})
        nontriv.append(" K " in code[-1])
    model = drive(reqs)
    model = [m if not inp["filters"] else _skip_filtered(m) for m, inp in zip(model, inputs)]
    f.compare(inputs, code, model, nontriv)
    f.exhaustive = not ctx.quick
    f.note = ("exhaustive: all lists of <= 3 files over the 10 intervals of {0..3}" + (" (250 sampled triples)" if ctx.quick else "")
              + "; shapes: sorted/reversed/shuffled/overlapping/touching/duplicate/ill-formed/missing statistics/several row groups; "
              "random up to 40 files x selections with repetitions")
    return f


def _skip_filtered(m):
    """with filters the code side does not ask for divisions/fragments (they would query the pyarrow dataset)"""
    p = m.split(" => ")
    if len(p) == 4:
        p[0], p[1], p[2] = "SKIP", "SKIP", "frags=SKIP"
    return " => ".join(p)


class _StubEngine:
    def __init__(self, parts, stats, n):
        self.parts, self.stats, self.n = parts, stats, n

    def _construct_collection_plan(self, dataset_info):
        return list(self.parts), [dict(s, columns=[dict(c) for c in s["columns"]]) for s in self.stats], {}

    def __dask_tokenize__(self):
        return ("verif-c18-stub-engine", os.getpid(), self.n)


def _fstat(rows, col):
    if col == "X":
        c = {"null_count": 1}
    elif col == "O":
        c = {"name": "idx"}
    elif col == "N":
        c = {"name": "idx", "min": None, "max": None, "null_count": rows}
    else:
        c = {"name": "idx", "min": col[0], "max": col[1], "null_count": 0}
    return {"num-rows": rows, "total_byte_size": 10, "columns": [c]}


def _enc_fstats(stats):
    return "-" if not stats else ";".join(f"{r}:{_enc_mm(c)}" for r, c in stats)


def _fsspec_real(nparts, stats, gather, calc, single, sel, filters):
    from dask_expr._expr import Lengths
    from dask_expr._reductions import Len
    from dask_expr.io import parquet as pqm

    _STUB_N[0] += 1
    parts = [{"piece": (f"f{j}", [0], [])} for j in range(nparts)]
    eng = _StubEngine(parts, [_fstat(*st) for st in stats], _STUB_N[0])
    info = {"checksum": f"verif-c18-{os.getpid()}-{_STUB_N[0]}", "base_meta": _stub_meta_frame(), "blocksize": None, "split_row_groups": False,
            "fs": None, "aggregation_depth": False, "gather_statistics": gather, "calculate_divisions": calc,
            "index": ["idx"] if single else ["idx", "b"], "kwargs": {"dtype_backend": None}}
    # user filters on a column without statistics: `apply_filters` keeps every part
    e = pqm.ReadParquetFSSpec("/nonexistent/verif-c18", calculate_divisions=calc, filters=None, engine=eng, _partitions=sel,
                              kwargs={}, _dataset_info_cache=info)
    try:
        pl = e._plan
    except Exception:  # noqa: BLE001
        return "RAISED"
    if pl["empty"]:
        ptxt = "-"
    else:
        ptxt = _ints(parts.index(p) for p in pl["parts"])
    st = []
    for s_ in pl["statistics"]:
        c = s_["columns"][0]
        if "name" not in c:
            cc = "X"
        elif "min" not in c:
            cc = "O"
        elif c["min"] is None:
            cc = "N"
        else:
            cc = f"{c['min']}_{c['max']}"
        st.append(f"{s_['num-rows']}:{cc}")
    divs = list(e._divisions())
    known = not all(d is None for d in divs)
    divtxt = _render_divout(divs, list(range(len(divs) - 1)) if known else None)
    if filters:
        e = e.substitute_parameters({"filters": [("a", ">", 0)]})
    if not pl["statistics"] and not filters:
        lens = ln = "SKIP"  # the code would open the files (`_collect_pq_statistics`)
    else:
        try:
            v = _literal(e._simplify_up(Lengths(e), {}))
            lens = "NONE" if v is None else "L " + _ints(v)
        except Exception:  # noqa: BLE001
            lens = "RAISED"
        try:
            v = _literal(e._simplify_up(Len(e), {}))
            ln = "NONE" if v is None else str(int(v))
        except Exception:  # noqa: BLE001
            ln = "RAISED"
    return f"empty={int(pl['empty'])} parts={ptxt} stats={';'.join(st) if st else '-'} div={divtxt} lengths={lens} len={ln}"


def fam_fsspec_plan(ctx):
    f = Family("fsspec_plan[ReadParquetFSSpec._plan/_align_statistics/_calculate_divisions/sorted_columns/_divisions/"
               "_get_lengths/_update_length_statistics/_simplify_up(Lengths,Len)]")
    rng = ctx.rng
    cols = _intervals(0, 2) + ["N", "O", "X"]
    cases = []  # (nparts, stats, gather, calc, single, sel, filters)
    ent = [(r, c) for c in cols for r in (0, 2)]
    small = [[]] + [[a] for a in ent] + [[a, (b[0] + 1 if b[0] else 0, b[1])] for a in ent for b in ent]
    triples = [[(2, a), (3, b), (5, c)] for a in cols for b in cols for c in cols]
    if ctx.quick:
        rng.shuffle(triples)
        triples = triples[:200]
        rng.shuffle(small)
        small = small[:150]
    for st in small + triples:
        cases.append((len(st), st, True, True, True, None, False))
    special = [
        [(3, (0, 4)), (4, (5, 9))], [(4, (5, 9)), (3, (0, 4))], [(3, (0, 10)), (4, (5, 15))], [(3, (0, 10)), (4, (10, 15))],
        [(3, (0, 10)), (4, (2, 3))], [(1, (1, 1)), (2, (1, 1)), (3, (1, 2))], [(3, (4, 2)), (1, (3, 3))], [(3, (3, 1))],
        [(3, (0, 4)), (0, "N"), (2, (5, 9))], [(3, "N"), (2, (5, 9))], [(3, "N"), (2, "N")], [(3, (0, 4)), (2, "N")],
        [(3, "X"), (2, (5, 9))], [(3, (0, 4)), (2, "X")], [(3, "O"), (2, (5, 9))], [(3, (0, 4)), (2, "O")],
        [(0, (0, 4)), (0, (5, 9))], [(3, (0, 4)), (1, (4, 4)), (2, (5, 9))],
    ]
    for st in special:
        n = len(st)
        for g, c, s1 in ((True, True, True), (False, True, True), (True, False, True), (True, True, False)):
            cases.append((n, st, g, c, s1, None, False))
        for sel in ([], [0], list(range(n))[::-1], [0, 0, n - 1], [n]):
            cases.append((n, st, True, True, True, sel, False))
        cases.append((n + 1, st, True, True, True, None, False))  # parts and statistics not aligned
        cases.append((n, st, True, True, True, None, True))
        cases.append((n, st, True, True, True, [0], True))
    for _ in range(250 if ctx.quick else 6000):
        n = rng.choice([1, 2, 3, 3, 4, 5, 8, 12, 30])
        shape = rng.choice(["sorted", "sorted", "touching", "reversed", "shuffled", "overlap", "dups"])
        fl = _rand_files(rng, n, shape)
        st = []
        for _, rgs in fl:
            mm = (min(s[0] for s, _ in rgs), max(s[1] for s, _ in rgs))
            st.append((rng.choice([0, 1, 2, 3, 5, 8]) if rng.random() < 0.9 else 0, mm))
        if rng.random() < 0.1:
            j = rng.randrange(n)
            st[j] = (st[j][0], rng.choice(["N", "O", "X"]))
        kept = sum(1 for r, _ in st if r > 0)
        sel = None if rng.random() < 0.4 or kept == 0 else [rng.randrange(kept) for _ in range(rng.randint(1, kept + 2))]
        if sel is not None and rng.random() < 0.05:
            sel.append(kept)
        cases.append((n if rng.random() < 0.95 else n + 1, st, rng.random() < 0.9, rng.random() < 0.9, rng.random() < 0.9, sel, rng.random() < 0.05))
    reqs, code, inputs, nontriv = [], [], [], []
    for nparts, st, g, c, s1, sel, filters in cases:
        reqs.append(f"parquet fsspecplan gather={int(g)} calc={int(c)} single={int(s1)} filters={int(filters)} sel={_enc_sel(sel)} "
                    f"nparts={nparts} stats={_enc_fstats(st)}")
        code.append(_fsspec_real(nparts, st, g, c, s1, sel, filters))
        inputs.append({"nparts": nparts, "stats": _enc_fstats(st), "gather": g, "calc": c, "single": s1, "sel": sel, "filters": filters})
        nontriv.append("div=K" in code[-1])
    f.compare(inputs, code, drive(reqs), nontriv)
    f.exhaustive = not ctx.quick
    f.note = ("exhaustive: all statistics lists of <= 2 parts over {6 intervals of {0..2}, None, no min/max, no name} x {0 rows, rows}, "
              "all triples with rows" + (" (sampled in the quick tier)" if ctx.quick else "") + "; flags; misaligned parts; random up to 30 parts")
    return f


def families(ctx):
    return [fam_fusion_buckets, fam_guard, fam_arrow_statistics, fam_fsspec_plan]


# --------------------------------------------------------------------------- end-to-end


def _tables():
    n = 24
    t1 = pd.DataFrame(
        {
            "a": pd.array([None if i % 5 == 0 else float(i % 7) for i in range(n)], dtype="float64"),
            "b": np.arange(n, dtype="int64") % 4,
            "s": pd.array([None if i % 6 == 1 else "s%d" % (i % 3) for i in range(n)], dtype="object"),
            "c": np.arange(n, dtype="int64") * 10,
        },
        index=pd.Index(np.arange(100, 100 + n, dtype="int64"), name="idx"),
    )
    t2 = t1.copy()
    t2.index = pd.Index(np.arange(n, dtype="int64"))  # unnamed index
    return {"named": t1, "unnamed": t2}


PREDS = {
    "a_gt": lambda d: d.a > 2,
    "a_ne": lambda d: d.a != 2.0,
    "a_eq": lambda d: d.a == 3.0,
    "b_le": lambda d: d.b <= 1,
    "s_eq": lambda d: d.s == "s1",
    "and": lambda d: (d.a > 1) & (d.b < 3),
    "or": lambda d: (d.a < 2) | (d.b == 3),
    "and_or": lambda d: ((d.a > 1) & (d.b == 1)) | ((d.a > 1) & (d.c > 100)),
    "or_ne": lambda d: (d.a != 1.0) | (d.b == 0),
    "c_ge": lambda d: d.c >= 120,
}

COLS = [None, ["a"], ["c", "a"], ["b", "s"], "c"]


def _write(pdf, path, nfiles, shuffle_files):
    import dask_expr as dx

    if shuffle_files:
        # unsorted file statistics: write the partitions in a different order than the index order
        n = len(pdf)
        # files of different sizes (statistics-based lengths must follow the partition order)
        sizes = [3 + 2 * i for i in range(nfiles)]
        sizes[-1] = n - sum(sizes[:-1])
        bounds = [0]
        for sz in sizes:
            bounds.append(bounds[-1] + sz)
        chunks = [pdf.iloc[bounds[i] : bounds[i + 1]] for i in range(nfiles)]
        order = list(range(len(chunks)))
        order = order[1:] + order[:1]
        os.makedirs(path, exist_ok=True)
        for j, ci in enumerate(order):
            chunks[ci].to_parquet(os.path.join(path, f"part.{j}.parquet"))
        return len(chunks)
    df = dx.from_pandas(pdf, npartitions=nfiles)
    df.to_parquet(path)
    return df.npartitions


def run_case(case):
    import dask_expr as dx

    pdf = _tables()[case["table"]]
    tmp = tempfile.mkdtemp(prefix="vc18_")
    try:
        path = os.path.join(tmp, "ds")
        _write(pdf, path, case["nfiles"], case.get("shuffle_files", False))
        kw = {}
        if case["fs"] == "arrow":
            kw["filesystem"] = "arrow"
        if case.get("calc_div"):
            kw["calculate_divisions"] = True
        if case.get("user_filters"):
            kw["filters"] = [("c", ">=", 40)]
        r = dx.read_parquet(path, **kw)
        base = pdf
        if case.get("user_filters"):
            base = pdf[pdf.c >= 40]
        want = base
        q = r
        if case["kind"] == "roundtrip":
            pass
        if case.get("pred"):
            q = q[PREDS[case["pred"]](q)]
            want = want[PREDS[case["pred"]](want)]
        cols = case.get("cols")
        if cols is not None:
            q = q[cols]
            want = want[cols]
        if case.get("elemwise"):
            # gives the reader a parent node, which is what enables multi-file fusion (_tune_up)
            if isinstance(want, pd.DataFrame):
                num = [c for c in want.columns if c != "s"]
                q, want = q[num] + 1, want[num] + 1
            elif want.dtype != object:
                q, want = q + 1, want + 1
        if case["kind"] == "len_part":
            o = q.optimize() if hasattr(q, "optimize") else q
            for P in case["Ps"]:
                if max(P) >= r.npartitions:
                    continue
                sub = r.partitions[P][case["col"]] if case.get("col") else r.partitions[P]
                got, want_n = len(sub), len(sub.compute())
                if got != want_n:
                    return f"len(partitions[{P}]{'.' + case['col'] if case.get('col') else ''}) = {got}, the computed object has {want_n} rows"
                sz, want_sz = int(sub.size.compute()) if hasattr(sub.size, "compute") else int(sub.size), int(sub.compute().size)
                if sz != want_sz:
                    return f".size of partitions[{P}] = {sz}, computed {want_sz}"
            return None
        if case["kind"] == "len":
            got = len(q)
            if got != len(want):
                return f"len() = {got}, data has {len(want)} rows"
            return None
        # without calculated divisions the arrow reader lists fragments "as the files are listed"
        # (documented: no ordering guarantee), and files with unsorted statistics have no defined order
        sort_rows = bool(case.get("shuffle_files")) or (case["fs"] == "arrow" and not case.get("calc_div"))
        if case["kind"] == "partitions":
            o = q.optimize()
            nparts = o.npartitions
            P = [p for p in case["P"] if p < nparts]
            if not P:
                return None
            full = e2e.compute_partitions(q)
            got = e2e.compute_partitions(q.partitions[P])
            if len(got) != len(P):
                return f"partitions[{P}] computed {len(got)} partitions"
            fullu = e2e.compute_partitions(q, optimize=False)
            if len(fullu) == len(full):
                for g_, p in zip(got, P):
                    if not e2e.same(g_, full[p]):
                        return f"partitions[{P}]: partition {p} differs from the fully computed collection"
            return None
        got = q.compute()
        if not e2e.same(got, want, sort_rows=sort_rows):
            return f"result differs from in-memory evaluation: got {len(got)} rows {e2e.describe(got, 5)} want {len(want)} rows {e2e.describe(want, 5)}"
        # divisions truthful after optimize (fused reads recompute them)
        o = q.optimize()
        if o.known_divisions:
            divs = o.divisions
            parts = e2e.compute_partitions(q)
            if len(parts) != len(divs) - 1:
                return f"{len(parts)} partitions computed, divisions have {len(divs)} entries"
            if list(divs) != sorted(divs):
                return f"divisions not sorted after optimize: {divs}"
            for i, p in enumerate(parts):
                if len(p) == 0:
                    continue
                lo, hi = p.index.min(), p.index.max()
                last = i == len(parts) - 1
                if lo < divs[i] or hi > divs[i + 1] or (hi == divs[i + 1] and not last):
                    return f"partition {i} holds index [{lo}, {hi}] outside divisions {divs[i]}..{divs[i+1]} ({divs})"
        return None
    finally:
        shutil.rmtree(tmp, ignore_errors=True)


# ----- datasets with a prescribed file layout (statistics → divisions, both readers) ------------------------------

LAYOUTS = {
    # disjoint ranges, files written in every order
    "sorted3": [[0, 1, 2], [3, 4, 5], [6, 7]],
    "perm3_021": [[0, 1, 2], [6, 7], [3, 4, 5]],
    "perm3_102": [[3, 4, 5], [0, 1, 2], [6, 7]],
    "perm3_120": [[3, 4, 5], [6, 7], [0, 1, 2]],
    "perm3_201": [[6, 7], [0, 1, 2], [3, 4, 5]],
    "reversed3": [[6, 7], [3, 4, 5], [0, 1, 2]],
    "rot4": [[10, 11], [20, 25, 29], [30], [0, 3, 5, 9]],
    "single": [[3, 1, 2]],
    "unsorted_inside": [[2, 0, 1], [5, 3, 4]],
    "gaps": [[0, 1], [10, 11], [100, 101]],
    # touching boundaries: max of a file = min of another
    "touch2": [[0, 5, 10], [10, 12, 15]],
    "touch2_rev": [[10, 12, 15], [0, 5, 10]],
    "touch3": [[0, 2], [2, 4], [4, 6]],
    "touch_dups": [[1, 1], [1, 1], [1, 2]],
    "touch_const": [[1, 2], [2, 2], [2, 3]],
    # overlapping ranges
    "overlap2": [[0, 5, 10], [5, 7, 15]],
    "overlap2_rev": [[5, 7, 15], [0, 5, 10]],
    "contained": [[0, 5, 10], [2, 3]],
    "overlap3": [[0, 4], [3, 8], [9, 12]],
    # null index values
    "null_tail": [[0, 1, None], [3, 4, 5]],
    "null_mid": [[0, 1, 2], [3, None, 5]],
    "null_rev": [[3, None, 5], [0, 1, 2]],
    # a file whose index is entirely null / constant with nulls (statistics without min/max, "dangerous" statistics)
    "nullfile_last": [[0, 1, 2], [None, None]],
    "nullfile_first": [[None, None], [3, 4, 5]],
    "nullconst_first": [[1, 1, None], [3, 4, 5]],
    "nullconst_last": [[3, 4, 5], [7, 7, None]],
}


def _layout_class(files):
    """decidable classification of a layout by its per-file statistics (used in failure signatures)"""
    mm = []
    anynull = False
    for f in files:
        vals = [v for v in f if v is not None]
        anynull = anynull or len(vals) != len(f)
        if not vals:
            return "null_file"
        mm.append((min(vals), max(vals), len(vals) != len(f)))
    if any(a == b and n for a, b, n in mm):
        return "null_const"
    cls = "disjoint"
    for i in range(len(mm)):
        for j in range(len(mm)):
            if i < j:
                a, b = mm[i], mm[j]
                if a[1] < b[0] or b[1] < a[0]:
                    continue
                if a[1] == b[0] or b[1] == a[0]:
                    if cls == "disjoint":
                        cls = "touching"
                else:
                    cls = "overlap"
    if cls == "disjoint" and anynull:
        return "null_index"
    return cls


def _write_layout(files, path):
    os.makedirs(path, exist_ok=True)
    pdfs = []
    row = 0
    for j, idx in enumerate(files):
        n = len(idx)
        dt = "Int64" if any(v is None for v in idx) else "int64"
        pdf = pd.DataFrame(
            {"a": np.arange(row, row + n, dtype="int64"), "b": np.arange(row, row + n, dtype="int64") % 3,
             "c": [f"s{(row + k) % 4}" for k in range(n)]},
            index=pd.Index(pd.array(idx, dtype=dt), name="idx"),
        )
        row += n
        pdf.to_parquet(os.path.join(path, f"part.{j}.parquet"))
        pdfs.append(pdf)
    return pdfs


def _idx_values(p):
    ix = p.index if not isinstance(p, pd.Index) else p
    return [None if pd.isna(v) else int(v) for v in ix]


def _check_divisions(coll, what):
    """C06 truthfulness of the divisions of the optimized collection against its computed partitions"""
    o = coll.optimize()
    if not o.known_divisions:
        return None
    divs = list(o.divisions)
    parts = e2e.compute_partitions(coll)
    if len(parts) != len(divs) - 1:
        return f"{what}: {len(parts)} partitions computed, divisions have {len(divs)} entries"
    if divs != sorted(divs):
        return f"{what}: divisions not sorted: {divs}"
    for i, p in enumerate(parts):
        vals = _idx_values(p)
        last = i == len(parts) - 1
        for v in vals:
            if v is None:
                return f"{what}: partition {i} holds a null index value although divisions {tuple(divs)} are reported"
            if v < divs[i] or v > divs[i + 1] or (v == divs[i + 1] and not last):
                return f"{what}: partition {i} holds index {v} outside [{divs[i]}, {divs[i+1]}{']' if last else ')'} (divisions {tuple(divs)})"
    return None


def run_layout_case(case):
    import dask_expr as dx

    files = case["files"]
    tmp = tempfile.mkdtemp(prefix="vc18_")
    try:
        path = os.path.join(tmp, "ds")
        pdfs = _write_layout(files, path)
        full = pd.concat(pdfs)
        kw = {"calculate_divisions": bool(case.get("calc_div"))}
        if case["fs"] == "arrow":
            kw["filesystem"] = "arrow"
        r = dx.read_parquet(path, **kw)
        q, want = r, full
        if case["query"] == "fused":
            q, want = r[["a"]] + 1, full[["a"]] + 1
        elif case["query"] == "series":
            q, want = r.b, full.b
        if case["query"] == "len":
            got = len(r)
            if got != len(full):
                return "rows", f"len() = {got}, the files hold {len(full)} rows"
            whole = [len(x) for x in e2e.compute_partitions(r, optimize=False)]
            for P in case.get("Ps", []):
                if max(P) >= r.npartitions:
                    continue
                sub = r.partitions[P]
                if len(sub) != sum(whole[i] for i in P):
                    return "rows", f"len(partitions[{P}]) = {len(sub)}, those partitions hold {sum(whole[i] for i in P)} rows"
                if len(sub.a) != len(sub.a.compute()):
                    return "rows", f"len(partitions[{P}].a) = {len(sub.a)}, computed {len(sub.a.compute())} rows"
                from dask_expr._expr import Lengths, Literal

                le = Lengths(sub.expr).simplify()
                if isinstance(le, Literal) and tuple(le.operand("value")) != tuple(whole[i] for i in P):
                    return "rows", (f"Lengths(partitions[{P}]) simplifies to {tuple(le.operand('value'))}, "
                                    f"the partitions hold {tuple(whole[i] for i in P)} rows")
            return None
        got = q.compute()
        if not e2e.same(got, want, sort_rows=True):
            return "rows", f"rows differ from the files' content: got {len(got)} rows {e2e.describe(got, 5)} want {len(want)} rows"
        msg = _check_divisions(q, case["query"])
        if msg:
            extra = ""
            if "null index" in msg:
                o = r.optimize()
                try:
                    rp = r.repartition(divisions=[o.divisions[0], o.divisions[-1]]).compute()
                    extra = f"; repartition(divisions=[{o.divisions[0]}, {o.divisions[-1]}]) returns {len(rp)} of {len(full)} rows"
                except Exception as ex:  # noqa: BLE001
                    extra = f"; repartition raised {type(ex).__name__}"
            else:
                # observable consequence: label lookup only visits the partition the divisions name
                for b in sorted({v for f in files for v in f if v is not None}):
                    try:
                        g = r.loc[b].compute()
                        w = full.loc[[b]]
                        if not e2e.same(g, w, sort_rows=True):
                            extra = f"; loc[{b}] returns {len(g)} of {len(w)} rows"
                            break
                    except KeyError:
                        extra = f"; loc[{b}] raises KeyError for an existing label"
                        break
            return "divisions", msg + extra
        if r.known_divisions and case["query"] == "roundtrip":
            # (the row order inside a file is not derivable from statistics and is not checked; across partitions
            # sortedness follows from truthful divisions — theorem C18_*_divisions_*: SortedAcross)
            for b in sorted({v for f in files for v in f if v is not None}):
                g = r.loc[b].compute()
                w = full.loc[[b]]
                if not e2e.same(g, w, sort_rows=True):
                    return "loc", f"loc[{b}] returns {len(g)} rows, pandas {len(w)} (divisions {r.divisions})"
        if _layout_class(files) == "overlap" and r.known_divisions:
            return "divisions", f"divisions {r.divisions} reported although the index ranges of the files overlap"
        if not case.get("calc_div") and r.known_divisions:
            return "divisions", f"divisions {r.divisions} reported without calculate_divisions"
        return None
    finally:
        shutil.rmtree(tmp, ignore_errors=True)


def _layout_cases(ctx):
    cases = []
    for name, files in LAYOUTS.items():
        for fs in ("fsspec", "arrow"):
            for query in ("roundtrip", "fused", "series"):
                cases.append({"kind": "layout", "layout": name, "files": files, "fs": fs, "calc_div": True, "query": query})
            cases.append({"kind": "layout", "layout": name, "files": files, "fs": fs, "calc_div": True, "query": "len",
                          "Ps": [[0], [1], [1, 0], [0, 0], [2, 1]]})
            cases.append({"kind": "layout", "layout": name, "files": files, "fs": fs, "calc_div": False, "query": "roundtrip"})
    return cases


def run_guard_case(case):
    import dask_expr as dx

    pdf = _tables()["named"]
    tmp = tempfile.mkdtemp(prefix="vc18_")
    try:
        rd = os.path.join(tmp, *case["read"])
        wr = os.path.join(tmp, *case["write"])
        dx.from_pandas(pdf, npartitions=2).to_parquet(rd)
        os.makedirs(wr, exist_ok=True)
        r = dx.read_parquet(rd)
        must_refuse = case["write"] == case["read"][: len(case["write"])]
        shape = case.get("shape", "full")
        if shape == "proj_arith":
            r = r[["a", "b"]] * 2
        elif shape == "filter_proj":
            r = r[r.b > 0][["a", "c"]]
        elif shape == "assign":
            r = r.assign(z=r.c + 1)
        if case.get("fs") == "arrow":
            import dask_expr as dx2

            base = dx2.read_parquet(rd, filesystem="arrow")
            r = base[["a", "b"]] * 2 if shape == "proj_arith" else base
        try:
            r.to_parquet(wr, overwrite=True)
            refused = False
        except ValueError as ex:
            refused = "overwrite" in str(ex).lower()
        if must_refuse and not refused:
            return f"overwriting {case['write']} while reading {case['read']} was not refused"
        if not must_refuse and refused:
            return f"writing to {case['write']} was refused although {case['read']} is not inside it"
        if must_refuse and not os.path.exists(os.path.join(rd)):
            return "the dataset being read was deleted"
        if not must_refuse and shape == "full":
            back = dx.read_parquet(wr).compute()
            if not e2e.same(back, pdf):
                return "data written next to the source differs"
        return None
    finally:
        shutil.rmtree(tmp, ignore_errors=True)


def _cases(ctx, broken):
    cases = []
    for table in ("named", "unnamed"):
        for fs in ("fsspec", "arrow"):
            for nfiles in (1, 3, 4):
                for calc in (False, True):
                    cases.append({"kind": "roundtrip", "table": table, "fs": fs, "nfiles": nfiles, "calc_div": calc})
                    for cols in COLS[1:]:
                        cases.append({"kind": "proj", "table": table, "fs": fs, "nfiles": nfiles, "calc_div": calc, "cols": cols})
                        cases.append({"kind": "proj", "table": table, "fs": fs, "nfiles": nfiles, "calc_div": calc, "cols": cols, "elemwise": True})
                    for pred in PREDS:
                        for cols in (None, ["c", "a"], "c"):
                            for uf in (False, True):
                                cases.append({"kind": "filter", "table": table, "fs": fs, "nfiles": nfiles, "calc_div": calc,
                                              "pred": pred, "cols": cols, "user_filters": uf})
                    for P in ([0], [1, 2], [2, 0], [3]):
                        cases.append({"kind": "partitions", "table": table, "fs": fs, "nfiles": nfiles, "calc_div": calc, "P": P, "cols": ["a"]})
                        cases.append({"kind": "partitions", "table": table, "fs": fs, "nfiles": nfiles, "calc_div": calc, "P": P, "cols": ["a"], "elemwise": True})
                    cases.append({"kind": "len", "table": table, "fs": fs, "nfiles": nfiles, "calc_div": calc})
                    cases.append({"kind": "len", "table": table, "fs": fs, "nfiles": nfiles, "calc_div": calc, "cols": ["a"]})
                    cases.append({"kind": "len", "table": table, "fs": fs, "nfiles": nfiles, "calc_div": calc, "pred": "b_le"})
                    cases.append({"kind": "len", "table": table, "fs": fs, "nfiles": nfiles, "calc_div": calc, "user_filters": True})
    lenparts = []
    for fs in ("fsspec", "arrow"):
        for calc in (False, True):
            for shuf in (False, True):
                lenparts.append({"kind": "len_part", "table": "named", "fs": fs, "nfiles": 4, "calc_div": calc, "shuffle_files": shuf,
                                 "col": "a", "Ps": [[0], [1], [3], [1, 2], [2, 0], [0, 0]]})
                lenparts.append({"kind": "len_part", "table": "named", "fs": fs, "nfiles": 4, "calc_div": calc, "shuffle_files": shuf,
                                 "col": None, "Ps": [[0], [2], [1, 3]]})
    for fs in ("fsspec", "arrow"):
        for calc in (False, True):
            cases.append({"kind": "roundtrip", "table": "named", "fs": fs, "nfiles": 4, "calc_div": calc, "shuffle_files": True})
            cases.append({"kind": "proj", "table": "named", "fs": fs, "nfiles": 4, "calc_div": calc, "shuffle_files": True, "cols": ["a"], "elemwise": True})
            cases.append({"kind": "filter", "table": "named", "fs": fs, "nfiles": 4, "calc_div": calc, "shuffle_files": True, "pred": "c_ge", "cols": None})
    guards = [
        {"kind": "guard", "read": ["d", "a"], "write": ["d", "a"], "shape": "proj_arith"},
        {"kind": "guard", "read": ["d", "a"], "write": ["d", "a"], "shape": "filter_proj"},
        {"kind": "guard", "read": ["d", "a"], "write": ["d", "a"], "shape": "assign"},
        {"kind": "guard", "read": ["d", "a"], "write": ["d", "a"], "shape": "proj_arith", "fs": "arrow"},
        {"kind": "guard", "read": ["d", "a"], "write": ["d"], "shape": "proj_arith"},
        {"kind": "guard", "read": ["d", "a"], "write": ["d", "a"]},
        {"kind": "guard", "read": ["d", "a"], "write": ["d"]},
        {"kind": "guard", "read": ["d", "ab"], "write": ["d", "a"]},
        {"kind": "guard", "read": ["d", "a"], "write": ["d", "ab"]},
        {"kind": "guard", "read": ["d", "a"], "write": ["e"]},
    ]
    layouts = _layout_cases(ctx)
    steered = []
    for b in broken or []:
        # a disagreeing statistics list of a correspondence family becomes a real dataset with exactly those per-file
        # [min, max] (files in the same listing order), read back by both readers
        inp = (b.get("first") or {}).get("input") if isinstance(b, dict) else None
        enc = (inp or {}).get("files") or (inp or {}).get("stats") if isinstance(inp, dict) else None
        if not enc:
            continue
        import re as _re

        files = []
        for ent in str(enc).split(";"):
            mm = _re.findall(r"(-?\d+)_(-?\d+)", ent)
            if mm:
                lo, hi = min(int(a) for a, _ in mm), max(int(z) for _, z in mm)
                files.append(sorted({lo, (lo + hi) // 2, hi}))
            elif ":N" in ent or "N." in ent:
                files.append([None, None])
        files = [f for f in files if f]
        if files and len(files) <= 12:
            for fs in ("fsspec", "arrow"):
                for query in ("roundtrip", "fused", "len"):
                    steered.append({"kind": "layout", "layout": "steered", "files": files, "fs": fs, "calc_div": True, "query": query,
                                    "Ps": [[0], [len(files) - 1, 0], [0, 0]]})
    # regression of fixed finding D91 (arrow reader reported divisions for overlapping files): these layouts run first in
    # every tier; they must give unknown divisions and all rows
    layouts = steered + sorted(layouts, key=lambda c: _layout_class(c["files"]) != "overlap")
    if broken and any("statistics" in str(b.get("family", "")) or "fsspec_plan" in str(b.get("family", ""))
                      or "ParquetStats" in str(b.get("module", "")) or "C18" in str(b.get("module", "")) for b in broken):
        # a statistics obligation broke: run every layout first, whatever the tier
        return layouts + guards + lenparts
    ctx.rng.shuffle(cases)
    if ctx.quick:
        must = [c for c in cases if c.get("elemwise") and c["kind"] == "proj" and c["fs"] == "arrow" and c["nfiles"] == 4][:6]
        must += [c for c in cases if c.get("pred") in ("a_ne", "or_ne") and c["fs"] == "arrow"][:6]
        cases = must + cases[:100]
    return guards + lenparts + layouts + cases


def _sig(case, what=None):
    if case["kind"] == "layout":
        cls = _layout_class(case["files"])
        if cls == "null_const" and what == "divisions":
            cls = "null_index"  # same defect: known divisions although a partition holds null index values
        return {"kind": "layout", "fs": case["fs"], "stats": cls, "what": what, "calc_div": bool(case.get("calc_div"))}
    return {"kind": case["kind"], "fs": case.get("fs"), "pred": case.get("pred"), "nulls_ne": case.get("pred") in ("a_ne", "or_ne")}


def _run_any(case):
    """-> (what, message) | None"""
    if case["kind"] == "guard":
        msg = run_guard_case(case)
    elif case["kind"] == "layout":
        res = run_layout_case(case)
        return res
    else:
        msg = run_case(case)
    return (None, msg) if msg else None


def support(ctx, broken):
    sup = Support()
    seen_sigs = set()
    for case in _cases(ctx, broken):
        try:
            res = _run_any(case)
        except Exception as ex:  # noqa: BLE001
            res = (f"raised:{type(ex).__name__}", f"raised {type(ex).__name__}: {str(ex)[:200]}")
        sup.executed += 1
        sup.count(f"{case['kind']}/{case.get('fs', '-')}" + (f"/{_layout_class(case['files'])}" if case["kind"] == "layout" else ""))
        if len(sup.samples) < 3:
            sup.samples.append(case)
        if res:
            what, msg = res
            sig = _sig(case, what)
            key = repr(sorted(sig.items(), key=repr))
            if case["kind"] == "layout" and key in seen_sigs:
                continue  # one witness per signature is enough (the others are the same defect on another layout)
            seen_sigs.add(key)
            sup.failures.append(Failure(sig=sig, case=case, detail=msg))
            if len(sup.failures) >= 16:
                break
    return sup


def replay(case):
    res = _run_any(case)
    return Failure(sig=_sig(case, res[0]), case=case, detail=res[1]) if res else None
