"""C18 — parquet reads with pushed-down work equal reading everything into memory."""
from __future__ import annotations

import ast
import inspect
import itertools
import os
import shutil
import tempfile
import textwrap

import numpy as np
import pandas as pd

from harness import e2e
from harness.core import Failure, Family, Support, drive

LEAN_MODULES = ["DxModel.Props.C18"]
GENERATED = []
TRUSTED = [
    "pyarrow / fsspec readers and writers (everything inside them is exercised, not modelled); the reader's row filter is "
    "assumed to be Kleene evaluation with 'keep iff true' (validated by the end-to-end search on data with nulls)",
    "Lean model of _DNF / extract_pq_filters shared with C03 (tied there by exact correspondence)",
    "the overwrite guard is modelled on path components; the string expression in to_parquet is compared with it on generated path pairs",
]
PARTIAL = [
    "statistics handling (_divisions_from_statistics, fragment sorting) and the fusion step size (float arithmetic) are not "
    "modelled: their results are checked end-to-end (divisions truthful, rows equal) and the step only has to be >= 1",
]
EXPLANATION = (
    "Theorems: fused multi-file buckets are an ordered partition of the selected files (any step >= 1) and fusion changes "
    "granularity only; pushed filters keep exactly pandas' rows for negation-free null-compatible predicates (instance of "
    "C03_reader_pushdown) with the '!=' counterexample; overwrite guard = component-wise path prefix. Tie: _fusion_buckets, "
    "FusedIO._divisions and the guard expression vs the model. Support: write/read-back of small datasets (nulls, named/"
    "unnamed index, 1..4 files, unsorted statistics) x fsspec/arrow filesystem x calculate_divisions x projections x filter "
    "trees x partition subsets x user filters x lengths, against the in-memory frame."
)


# --------------------------------------------------------------------------- T2 families


class _StubRead:
    """stands in for the wrapped reader of FusedIO: only what _fusion_buckets/_divisions touch"""


def fam_fusion_buckets(ctx):
    from dask_expr.io.io import FusedIO

    f = Family("fusion_buckets_and_divisions[FusedIO._fusion_buckets/_divisions]")

    class Wrapped:
        def __init__(self, parts, factor, divs):
            self._partitions = parts
            self._fusion_compression_factor = factor
            self._divs = divs
            self._name = "stub"
            self._funcname = "stub"

        def _divisions(self):
            return self._divs

    reqs, code, inputs = [], [], []
    rng = ctx.rng
    for _ in range(300 if ctx.quick else 3000):
        ntot = rng.randint(1, 60)
        k = rng.randint(1, ntot)
        parts = sorted(rng.sample(range(ntot), k))
        factor = rng.choice([1, 0.9, 0.5, 0.34, 0.25, 0.1, 0.01, 0.001])
        divs = tuple(range(0, 10 * (ntot + 1), 10))
        w = Wrapped(parts, factor, divs)
        fused = object.__new__(FusedIO)
        fused.operands = [w]
        buckets = FusedIO._fusion_buckets.func(fused)
        step = max(len(b) for b in buckets)
        # the float-derived step is not modelled: it is read off the real buckets and must be >= 1
        code.append("|".join(",".join(map(str, b)) for b in buckets))
        reqs.append(f"parquet buckets step={step} parts={','.join(map(str, parts))}")
        inputs.append({"parts": parts, "factor": factor, "step": step})
        fused.__dict__["_fusion_buckets"] = buckets
        got = FusedIO._divisions(fused)
        code.append(",".join(str(int(x)) for x in got))
        reqs.append(f"parquet fuseddiv divs={','.join(map(str, divs))} step={step} parts={','.join(map(str, parts))}")
        inputs.append({"divisions_of": parts, "step": step})
    f.compare(inputs, code, drive(reqs))
    return f


_GUARD = None


def _guard_fn():
    """The guard expression exactly as written in dask_expr.io.parquet.to_parquet (extracted from its source)."""
    global _GUARD
    if _GUARD is None:
        from dask_expr.io import parquet

        tree = ast.parse(textwrap.dedent(inspect.getsource(parquet.to_parquet)))
        stmts = []
        for node in ast.walk(tree):
            if isinstance(node, ast.For) and "find_operations" in ast.unparse(node.iter):
                for st in node.body:
                    if isinstance(st, ast.Assign):
                        stmts.append(ast.unparse(st))
                    if isinstance(st, ast.If):
                        stmts.append("return bool(" + ast.unparse(st.test) + ")")
        if not stmts or not stmts[-1].startswith("return"):
            raise RuntimeError("cannot locate the overwrite guard in to_parquet")
        src = "def guard(read_op, path):\n" + textwrap.indent("\n".join(stmts), "    ") + "\n"
        ns = {}
        exec(src, ns)
        _GUARD = ns["guard"]
    return _GUARD


def fam_guard(ctx):
    f = Family("overwrite_guard_expression[to_parquet]")
    g = _guard_fn()

    class R:
        def __init__(self, p):
            self.path = p

    comps = ["data", "a", "ab", "b", "a.parquet", "x"]
    paths = set()
    for r in range(1, 4):
        for c in itertools.product(comps, repeat=r):
            paths.add("/" + "/".join(c))
    paths = sorted(paths)
    if ctx.quick:
        ctx.rng.shuffle(paths)
        paths = paths[:60]
    reqs, code, inputs = [], [], []
    for rp in paths:
        for wp in paths:
            for rs, ws in (("", ""), ("/", ""), ("", "/")):
                code.append("1" if g(R(rp + rs), wp + ws) else "0")
                reqs.append(f"parquet guard r={rp + rs} w={wp + ws}")
                inputs.append((rp + rs, wp + ws))
    f.compare(inputs, code, drive(reqs), [c == "1" for c in code])
    return f


def families(ctx):
    return [fam_fusion_buckets, fam_guard]


# --------------------------------------------------------------------------- end-to-end


def _tables():
    n = 24
    t1 = pd.DataFrame(
        {
            "a": pd.array([None if i % 5 == 0 else float(i % 7) for i in range(n)], dtype="float64"),
            "b": np.arange(n, dtype="int64") % 4,
            "s": pd.array([None if i % 6 == 1 else "s%d" % (i % 3) for i in range(n)], dtype="object"),
            "c": np.arange(n, dtype="int64") * 10,
        },
        index=pd.Index(np.arange(100, 100 + n, dtype="int64"), name="idx"),
    )
    t2 = t1.copy()
    t2.index = pd.Index(np.arange(n, dtype="int64"))  # unnamed index
    return {"named": t1, "unnamed": t2}


PREDS = {
    "a_gt": lambda d: d.a > 2,
    "a_ne": lambda d: d.a != 2.0,
    "a_eq": lambda d: d.a == 3.0,
    "b_le": lambda d: d.b <= 1,
    "s_eq": lambda d: d.s == "s1",
    "and": lambda d: (d.a > 1) & (d.b < 3),
    "or": lambda d: (d.a < 2) | (d.b == 3),
    "and_or": lambda d: ((d.a > 1) & (d.b == 1)) | ((d.a > 1) & (d.c > 100)),
    "or_ne": lambda d: (d.a != 1.0) | (d.b == 0),
    "c_ge": lambda d: d.c >= 120,
}

COLS = [None, ["a"], ["c", "a"], ["b", "s"], "c"]


def _write(pdf, path, nfiles, shuffle_files):
    import dask_expr as dx

    if shuffle_files:
        # unsorted file statistics: write the partitions in a different order than the index order
        n = len(pdf)
        # files of different sizes (statistics-based lengths must follow the partition order)
        sizes = [3 + 2 * i for i in range(nfiles)]
        sizes[-1] = n - sum(sizes[:-1])
        bounds = [0]
        for sz in sizes:
            bounds.append(bounds[-1] + sz)
        chunks = [pdf.iloc[bounds[i] : bounds[i + 1]] for i in range(nfiles)]
        order = list(range(len(chunks)))
        order = order[1:] + order[:1]
        os.makedirs(path, exist_ok=True)
        for j, ci in enumerate(order):
            chunks[ci].to_parquet(os.path.join(path, f"part.{j}.parquet"))
        return len(chunks)
    df = dx.from_pandas(pdf, npartitions=nfiles)
    df.to_parquet(path)
    return df.npartitions


def run_case(case):
    import dask_expr as dx

    pdf = _tables()[case["table"]]
    tmp = tempfile.mkdtemp(prefix="vc18_")
    try:
        path = os.path.join(tmp, "ds")
        _write(pdf, path, case["nfiles"], case.get("shuffle_files", False))
        kw = {}
        if case["fs"] == "arrow":
            kw["filesystem"] = "arrow"
        if case.get("calc_div"):
            kw["calculate_divisions"] = True
        if case.get("user_filters"):
            kw["filters"] = [("c", ">=", 40)]
        r = dx.read_parquet(path, **kw)
        base = pdf
        if case.get("user_filters"):
            base = pdf[pdf.c >= 40]
        want = base
        q = r
        if case["kind"] == "roundtrip":
            pass
        if case.get("pred"):
            q = q[PREDS[case["pred"]](q)]
            want = want[PREDS[case["pred"]](want)]
        cols = case.get("cols")
        if cols is not None:
            q = q[cols]
            want = want[cols]
        if case.get("elemwise"):
            # gives the reader a parent node, which is what enables multi-file fusion (_tune_up)
            if isinstance(want, pd.DataFrame):
                num = [c for c in want.columns if c != "s"]
                q, want = q[num] + 1, want[num] + 1
            elif want.dtype != object:
                q, want = q + 1, want + 1
        if case["kind"] == "len_part":
            o = q.optimize() if hasattr(q, "optimize") else q
            for P in case["Ps"]:
                if max(P) >= r.npartitions:
                    continue
                sub = r.partitions[P][case["col"]] if case.get("col") else r.partitions[P]
                got, want_n = len(sub), len(sub.compute())
                if got != want_n:
                    return f"len(partitions[{P}]{'.' + case['col'] if case.get('col') else ''}) = {got}, the computed object has {want_n} rows"
                sz, want_sz = int(sub.size.compute()) if hasattr(sub.size, "compute") else int(sub.size), int(sub.compute().size)
                if sz != want_sz:
                    return f".size of partitions[{P}] = {sz}, computed {want_sz}"
            return None
        if case["kind"] == "len":
            got = len(q)
            if got != len(want):
                return f"len() = {got}, data has {len(want)} rows"
            return None
        # without calculated divisions the arrow reader lists fragments "as the files are listed"
        # (documented: no ordering guarantee), and files with unsorted statistics have no defined order
        sort_rows = bool(case.get("shuffle_files")) or (case["fs"] == "arrow" and not case.get("calc_div"))
        if case["kind"] == "partitions":
            o = q.optimize()
            nparts = o.npartitions
            P = [p for p in case["P"] if p < nparts]
            if not P:
                return None
            full = e2e.compute_partitions(q)
            got = e2e.compute_partitions(q.partitions[P])
            if len(got) != len(P):
                return f"partitions[{P}] computed {len(got)} partitions"
            fullu = e2e.compute_partitions(q, optimize=False)
            if len(fullu) == len(full):
                for g_, p in zip(got, P):
                    if not e2e.same(g_, full[p]):
                        return f"partitions[{P}]: partition {p} differs from the fully computed collection"
            return None
        got = q.compute()
        if not e2e.same(got, want, sort_rows=sort_rows):
            return f"result differs from in-memory evaluation: got {len(got)} rows {e2e.describe(got, 5)} want {len(want)} rows {e2e.describe(want, 5)}"
        # divisions truthful after optimize (fused reads recompute them)
        o = q.optimize()
        if o.known_divisions:
            divs = o.divisions
            parts = e2e.compute_partitions(q)
            if len(parts) != len(divs) - 1:
                return f"{len(parts)} partitions computed, divisions have {len(divs)} entries"
            if list(divs) != sorted(divs):
                return f"divisions not sorted after optimize: {divs}"
            for i, p in enumerate(parts):
                if len(p) == 0:
                    continue
                lo, hi = p.index.min(), p.index.max()
                last = i == len(parts) - 1
                if lo < divs[i] or hi > divs[i + 1] or (hi == divs[i + 1] and not last):
                    return f"partition {i} holds index [{lo}, {hi}] outside divisions {divs[i]}..{divs[i+1]} ({divs})"
        return None
    finally:
        shutil.rmtree(tmp, ignore_errors=True)


def run_guard_case(case):
    import dask_expr as dx

    pdf = _tables()["named"]
    tmp = tempfile.mkdtemp(prefix="vc18_")
    try:
        rd = os.path.join(tmp, *case["read"])
        wr = os.path.join(tmp, *case["write"])
        dx.from_pandas(pdf, npartitions=2).to_parquet(rd)
        os.makedirs(wr, exist_ok=True)
        r = dx.read_parquet(rd)
        must_refuse = case["write"] == case["read"][: len(case["write"])]
        shape = case.get("shape", "full")
        if shape == "proj_arith":
            r = r[["a", "b"]] * 2
        elif shape == "filter_proj":
            r = r[r.b > 0][["a", "c"]]
        elif shape == "assign":
            r = r.assign(z=r.c + 1)
        if case.get("fs") == "arrow":
            import dask_expr as dx2

            base = dx2.read_parquet(rd, filesystem="arrow")
            r = base[["a", "b"]] * 2 if shape == "proj_arith" else base
        try:
            r.to_parquet(wr, overwrite=True)
            refused = False
        except ValueError as ex:
            refused = "overwrite" in str(ex).lower()
        if must_refuse and not refused:
            return f"overwriting {case['write']} while reading {case['read']} was not refused"
        if not must_refuse and refused:
            return f"writing to {case['write']} was refused although {case['read']} is not inside it"
        if must_refuse and not os.path.exists(os.path.join(rd)):
            return "the dataset being read was deleted"
        if not must_refuse and shape == "full":
            back = dx.read_parquet(wr).compute()
            if not e2e.same(back, pdf):
                return "data written next to the source differs"
        return None
    finally:
        shutil.rmtree(tmp, ignore_errors=True)


def _cases(ctx, broken):
    cases = []
    for table in ("named", "unnamed"):
        for fs in ("fsspec", "arrow"):
            for nfiles in (1, 3, 4):
                for calc in (False, True):
                    cases.append({"kind": "roundtrip", "table": table, "fs": fs, "nfiles": nfiles, "calc_div": calc})
                    for cols in COLS[1:]:
                        cases.append({"kind": "proj", "table": table, "fs": fs, "nfiles": nfiles, "calc_div": calc, "cols": cols})
                        cases.append({"kind": "proj", "table": table, "fs": fs, "nfiles": nfiles, "calc_div": calc, "cols": cols, "elemwise": True})
                    for pred in PREDS:
                        for cols in (None, ["c", "a"], "c"):
                            for uf in (False, True):
                                cases.append({"kind": "filter", "table": table, "fs": fs, "nfiles": nfiles, "calc_div": calc,
                                              "pred": pred, "cols": cols, "user_filters": uf})
                    for P in ([0], [1, 2], [2, 0], [3]):
                        cases.append({"kind": "partitions", "table": table, "fs": fs, "nfiles": nfiles, "calc_div": calc, "P": P, "cols": ["a"]})
                        cases.append({"kind": "partitions", "table": table, "fs": fs, "nfiles": nfiles, "calc_div": calc, "P": P, "cols": ["a"], "elemwise": True})
                    cases.append({"kind": "len", "table": table, "fs": fs, "nfiles": nfiles, "calc_div": calc})
                    cases.append({"kind": "len", "table": table, "fs": fs, "nfiles": nfiles, "calc_div": calc, "cols": ["a"]})
                    cases.append({"kind": "len", "table": table, "fs": fs, "nfiles": nfiles, "calc_div": calc, "pred": "b_le"})
                    cases.append({"kind": "len", "table": table, "fs": fs, "nfiles": nfiles, "calc_div": calc, "user_filters": True})
    lenparts = []
    for fs in ("fsspec", "arrow"):
        for calc in (False, True):
            for shuf in (False, True):
                lenparts.append({"kind": "len_part", "table": "named", "fs": fs, "nfiles": 4, "calc_div": calc, "shuffle_files": shuf,
                                 "col": "a", "Ps": [[0], [1], [3], [1, 2], [2, 0], [0, 0]]})
                lenparts.append({"kind": "len_part", "table": "named", "fs": fs, "nfiles": 4, "calc_div": calc, "shuffle_files": shuf,
                                 "col": None, "Ps": [[0], [2], [1, 3]]})
    for fs in ("fsspec", "arrow"):
        for calc in (False, True):
            cases.append({"kind": "roundtrip", "table": "named", "fs": fs, "nfiles": 4, "calc_div": calc, "shuffle_files": True})
            cases.append({"kind": "proj", "table": "named", "fs": fs, "nfiles": 4, "calc_div": calc, "shuffle_files": True, "cols": ["a"], "elemwise": True})
            cases.append({"kind": "filter", "table": "named", "fs": fs, "nfiles": 4, "calc_div": calc, "shuffle_files": True, "pred": "c_ge", "cols": None})
    guards = [
        {"kind": "guard", "read": ["d", "a"], "write": ["d", "a"], "shape": "proj_arith"},
        {"kind": "guard", "read": ["d", "a"], "write": ["d", "a"], "shape": "filter_proj"},
        {"kind": "guard", "read": ["d", "a"], "write": ["d", "a"], "shape": "assign"},
        {"kind": "guard", "read": ["d", "a"], "write": ["d", "a"], "shape": "proj_arith", "fs": "arrow"},
        {"kind": "guard", "read": ["d", "a"], "write": ["d"], "shape": "proj_arith"},
        {"kind": "guard", "read": ["d", "a"], "write": ["d", "a"]},
        {"kind": "guard", "read": ["d", "a"], "write": ["d"]},
        {"kind": "guard", "read": ["d", "ab"], "write": ["d", "a"]},
        {"kind": "guard", "read": ["d", "a"], "write": ["d", "ab"]},
        {"kind": "guard", "read": ["d", "a"], "write": ["e"]},
    ]
    ctx.rng.shuffle(cases)
    if ctx.quick:
        must = [c for c in cases if c.get("elemwise") and c["kind"] == "proj" and c["fs"] == "arrow" and c["nfiles"] == 4][:6]
        must += [c for c in cases if c.get("pred") in ("a_ne", "or_ne") and c["fs"] == "arrow"][:6]
        cases = must + cases[:100]
    return guards + lenparts + cases


def _sig(case):
    return {"kind": case["kind"], "fs": case.get("fs"), "pred": case.get("pred"), "nulls_ne": case.get("pred") in ("a_ne", "or_ne")}


def support(ctx, broken):
    sup = Support()
    for case in _cases(ctx, broken):
        try:
            msg = run_guard_case(case) if case["kind"] == "guard" else run_case(case)
        except Exception as ex:  # noqa: BLE001
            msg = f"raised {type(ex).__name__}: {str(ex)[:200]}"
        sup.executed += 1
        sup.count(f"{case['kind']}/{case.get('fs', '-')}")
        if len(sup.samples) < 3:
            sup.samples.append(case)
        if msg:
            sup.failures.append(Failure(sig=_sig(case), case=case, detail=msg))
            if len(sup.failures) >= 10:
                break
    return sup


def replay(case):
    msg = run_guard_case(case) if case["kind"] == "guard" else run_case(case)
    return Failure(sig={}, case=case, detail=msg) if msg else None
