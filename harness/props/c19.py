"""C19 — optimization terminates, is deterministic and idempotent.

Correspondence between /repo `Expr.simplify`, `Expr.lower_once`, `Expr.lower_completely` and the Lean
models of lean/DxModel/Termination.lean (stub rule classes), run-time validation of the generated
class-level "may construct" table of the `_lower` methods (Generated/Lowers.lean, T1 + T3), the tie of
the SIMPLIFY-stage rewrite system of lean/DxModel/SimplifyMeasure.lean (trees of node kind + number of
columns, relation `Step`, lexicographic measure `msr`) to every rule firing and every pass observed while
optimizing the program space (T3), and the end-to-end search: step counts of every optimizer stage, no
"Optimizer does not converge", plan names stable across repetitions and across fresh processes with
different PYTHONHASHSEED, optimize∘optimize.
"""
from __future__ import annotations

import collections
import contextlib
import json
import os
import re
import subprocess
import sys

import dask
import numpy as np
import pandas as pd

from harness import e2e
from harness.core import ROOT, Family, Failure, Support, drive, first_diff

LEAN_MODULES = ["DxModel.Props.C19"]
GENERATED = ["Lowers"]
TRUSTED = [
    "abstraction of a real expression to the tree model (c19.abstract_tree): class -> node kind (Projection/Index, Filter, "
    "Head/Tail/Partitions/Len/Lengths, everything else an operator), width = len(expr.columns), operands = dependencies(); shared "
    "sub-expressions are unfolded (a rewrite of a shared node is several Steps)",
    "the tracer sees every rule firing: it wraps `_simplify_down` / `_simplify_up` of every live class and `simplify_once` "
    "(cross-checked: every changing pass made only of in-fragment firings must decrease the measure as a whole)",
    "harness/extractors.py `Lowers`: ast scan of the `_lower` bodies (over-approximation; what it resolves is listed "
    "in the generator); validated by family lowers_observed on every `_lower` call made while lowering the program space",
    "abstraction of a `_lower` method as `Respects`: its result consists of new nodes of listed classes and copies of "
    "subterms of the operands (validated by the same family on every observed call)",
    "expressions are identified with their names (C08) in the simplify model",
]
PARTIAL = [
    "termination of the SIMPLIFY stage is proven for the modelled fragment of rule shapes (C19_simplify_fragment_terminates: no "
    "infinite sequence of firings; C19_simplify_converges: the loop returns a fixpoint and never reports non-convergence when every "
    "changing pass decreases the measure) and tied to the code by checking that hypothesis on every observed firing and pass; it is "
    "NOT a proof about the Python rule methods: for firings outside the fragment, and for queries outside the program space, that "
    "simplify_once never revisits an expression is checked by the search only",
    "no explicit numeric bound on the number of firings is proven (the measure is a lexicographic quadruple, order type ω⁴: a filter "
    "pushed into both join inputs copies its predicate, so lower components may grow when a higher one drops)",
    "rule shapes OUTSIDE the fragment — counts from one thorough run: 7316 programs of the vetted space, 18548 firings, of which 17667 "
    "(58 rules: every `_simplify_up(Projection|Index)`, Projection/Assign/Head/Tail/Partitions/Len/Lengths/GroupbyAggregation "
    "`_simplify_down`, filter pushdown through Elemwise/AsType/ResetIndex/Repartition/Shuffle/SetIndex/SortValues/Merge/ReadParquet, the "
    "Filter/Filter squash, shuffles dropped below reductions, Head(SortValues), Len of IO) are Step instances with a smaller measure: "
    "(1) or-factoring of a Filter predicate by `rewrite_filters`, any parent class: 425 firings, the measure decreases on all of them "
    "and 361 happen to be Step shapes after abstraction (C03 owns the predicate algebra); (2) `Len(x)` -> `Len(Index(x))`: 304, measure not "
    "decreasing (a Projection-like node appears; its inverse `Len(Index(x))` -> `Len(x)` is guarded by `_is_length_preserving`, which the tree "
    "model does not carry); (3) `Merge._simplify_up(Filter)` splitting an And predicate, Filter(m, p & q) -> Filter(Filter(m, p), q'): 23, not "
    "decreasing — the inverse of the Filter/Filter squash, the two shapes form a cycle in the model (C19Frag example), the real rules "
    "are kept apart by their dependents guards only; both fire in one optimize() of `m[(m.a>1)&(m.d>20)&(m.b>1)]` (2 splits, 2 squashes, "
    "7 passes) without looping; (4) `SetIndex._simplify_up(Head|Tail)` -> SetIndex(NFirst|NLast): 6, a new operator appears; "
    "(5) `SortValues._simplify_up(Repartition)`: 19, swaps two operators, measure unchanged; (6) `Len(Concat)` -> sum of Len (new Add nodes; "
    "not met in this run). For these, "
    "and for passes containing them (560 of 13561 passes, 176 of them with a non-decreasing measure), convergence is covered by the search only",
    "redundant firings of rules that are otherwise inside the fragment: Assign / AddPrefix / AddSuffix / SetIndexBlockwise / "
    "DropDuplicates `_simplify_up(Projection)` insert a Projection that does not narrow its input when a dependent reports a column "
    "name the frame does not have (or the same columns in another order) — 104 firings; not Steps (the measure grows by the new node), "
    "`Projection._simplify_down` removes or squashes the Projection again in the same pass, so every such PASS still decreases the measure "
    "(checked: all 13001 passes made of in-fragment and redundant firings); convergence here relies on the pass-level name comparison of "
    "`Expr.simplify`, wasted work but no loop",
    "termination of lower_completely is proven for every family of `_lower` methods that respects the generated table; "
    "that the real methods do is an ast over-approximation validated on the program space, not a proof about Python",
    "determinism across processes is established by search (names for different PYTHONHASHSEED), not by proof",
]
EXPLANATION = (
    "Theorems: fusion passes strictly decrease a measure (loop stops); the generated may-construct relation of `_lower` "
    "has a kernel-checked decreasing rank, hence lower_completely reaches a fixpoint from every tree for every rule family "
    "respecting the table (strong normalization, copies and guards allowed); simplify returns a fixpoint on normal exit, "
    "reports non-convergence only on a revisit, and stops on finite orbits. The simplify stage as a rewrite system: 19 rule shapes "
    "(projection below / into an operator incl. duplication into several inputs with the parent kept, filter pushdown with the "
    "predicate substituted incl. both join inputs, Projection/Filter/operator squashing, absorption by IO nodes, Head/Tail/Partitions/Len "
    "through blockwise operators) applied anywhere in a tree of (node kind, number of columns); every shape strictly decreases the "
    "lexicographic measure (filter potential, column flow, projection potential, Head-like potential), hence no infinite firing sequence, "
    "no revisit, and the simplify loop returns an idempotent fixpoint without ever reporting non-convergence. Tie: real simplify / "
    "lower_once / lower_completely on stub rule classes vs the models; observed (class, new class) pairs of every real `_lower` call "
    "inside the table; every real rule firing and pass while optimizing the program space abstracted to the tree model and checked by the "
    "driver (recogniser proven sound) to be a Step with a smaller measure. Search: per-stage step counts, name stability in-process and "
    "across PYTHONHASHSEED, optimize twice."
)

# --------------------------------------------------------------------------- stub classes

_STUBS = None


def stubs():
    global _STUBS
    if _STUBS is not None:
        return _STUBS
    from dask_expr._expr import Expr

    meta = pd.DataFrame({"a": [1]}).iloc[:0]

    class C19State(Expr):
        """`_simplify_down` follows a finite table: state i -> table[i]"""

        _parameters = ["i", "table"]

        @property
        def _meta(self):
            return meta

        def _divisions(self):
            return (None, None)

        def _simplify_down(self):
            t = self.operand("table")
            i = self.operand("i")
            j = t[i] if i < len(t) else i
            if j != i:
                return C19State(j, t)

    class C19Node(Expr):
        """`_lower` instantiates the pattern the rule table gives for the node's class"""

        _parameters = ["c", "rules"]

        @property
        def _meta(self):
            return meta

        def _divisions(self):
            return (None, None)

        def _lower(self):
            rules = dict(r.split(":") for r in self.operand("rules").split(";")) if self.operand("rules") != "-" else {}
            pat = rules.get(str(self.operand("c")))
            if pat is None:
                return None
            toks = pat.split(",")
            kids = self.dependencies()
            try:
                out, rest = _inst(toks, kids, self.operand("rules"))
            except IndexError:
                return None
            return out

    def _inst(toks, kids, rules):
        t, rest = toks[0], toks[1:]
        if t[0] == "K":
            return kids[int(t[1:])], rest
        if t[0] == "S":
            i, j = t[1:].split(".")
            return kids[int(i)].dependencies()[int(j)], rest
        c, n = t[1:].split("/")
        args = []
        for _ in range(int(n)):
            a, rest = _inst(rest, kids, rules)
            args.append(a)
        return C19Node(int(c), rules, *args), rest

    _STUBS = {"State": C19State, "Node": C19Node}
    return _STUBS


def build_tree(toks, rules):
    Node = stubs()["Node"]

    def rec(toks):
        c, n = toks[0].split("/")
        rest = toks[1:]
        kids = []
        for _ in range(int(n)):
            k, rest = rec(rest)
            kids.append(k)
        return Node(int(c), rules, *kids), rest

    t, rest = rec(toks)
    assert not rest
    return t


def render_tree(e):
    ks = e.dependencies()
    return ",".join([f"{e.operand('c')}/{len(ks)}"] + [render_tree(k) for k in ks])


# --------------------------------------------------------------------------- families


def fam_simplify_loop(ctx):
    """T2: Expr.simplify (seen set, RuntimeError) on a stub whose _simplify_down follows a finite table."""
    f = Family("simplify_loop[Expr.simplify + simplify_once on a table-driven stub]")
    State = stubs()["State"]
    rng = ctx.rng
    tables = []
    import itertools

    for n in (1, 2, 3, 4):
        for t in itertools.product(range(n), repeat=n):
            tables.append(list(t))
    for _ in range(300 if ctx.quick else 5000):
        n = rng.randint(5, 9)
        tables.append([rng.randrange(n) for _ in range(n)])
    reqs, code, inputs, nontriv = [], [], [], []
    for t in tables:
        for start in range(len(t)):
            try:
                r = State(start, tuple(t)).simplify()
                code.append(f"OK {r.operand('i')}")
            except RuntimeError as ex:
                m = re.search(r"C19State\(i=(\d+).*?\) simplified to C19State\(i=(\d+)", str(ex))
                code.append(f"NOCONV {m.group(1)} {m.group(2)}" if m and "does not converge" in str(ex) else f"ERR {ex}")
            reqs.append(f"c19 simplify table={','.join(map(str, t))} start={start} fuel={len(t) + 3}")
            inputs.append({"table": t, "start": start})
            nontriv.append(t[start] != start)
    model = drive(reqs)
    f.compare(inputs, code, model, nontriv)
    f.exhaustive = True
    f.note = f"all functions on <= 4 states x all starts, {len(tables)} tables; non-convergent cases={sum(1 for c in code if c.startswith('NOCONV'))}"
    return f


def _random_rules(rng, ncls):
    """a rule system whose may-construct relation is acyclic (class c only constructs smaller classes)
    or — with small probability — deliberately cyclic (then a pass budget applies)"""
    rules = {}
    for c in range(1, ncls):
        if rng.random() < 0.75:
            rules[c] = _random_pat(rng, c, 0)
    return rules


def _random_pat(rng, c, depth):
    r = rng.random()
    if depth >= 2 or r < 0.3:
        return rng.choice(["K0", "K1", "K0", "S0.0", "S1.0", "K2"])
    n = rng.choice([0, 1, 1, 2, 2, 3])
    c2 = rng.randrange(c)
    return ",".join([f"N{c2}/{n}"] + [_random_pat(rng, c, depth + 1) for _ in range(n)])


def _random_tree(rng, ncls, depth=0):
    n = 0 if depth >= 3 else rng.choice([0, 1, 1, 2, 2, 3])
    return ",".join([f"{rng.randrange(ncls)}/{n}"] + [_random_tree(rng, ncls, depth + 1) for _ in range(n)])


def fam_lower_loop(ctx):
    """T2: Expr.lower_once / lower_completely with stub rule classes vs the model."""
    f = Family("lower_loop[Expr.lower_once / lower_completely on pattern-driven stub classes]")
    from dask_expr import _core

    rng = ctx.rng
    reqs, code, inputs, nontriv = [], [], [], []
    for _ in range(3000 if ctx.quick else 40000):
        ncls = rng.randint(2, 5)
        rules = _random_rules(rng, ncls)
        rtext = ";".join(f"{c}:{p}" for c, p in sorted(rules.items())) or "-"
        ttext = _random_tree(rng, ncls)
        tree = build_tree(ttext.split(","), rtext)
        once = tree.lower_once()
        reqs.append(f"c19 once rules={rtext} tree={ttext} fuel=60")
        code.append("T " + render_tree(once))
        inputs.append({"rules": rtext, "tree": ttext, "what": "lower_once"})
        nontriv.append(once._name != tree._name)
        calls = [0]
        orig = _core.Expr.lower_once
        depth = [0]

        def counted(self):
            if depth[0] == 0:
                calls[0] += 1
            depth[0] += 1
            try:
                return orig(self)
            finally:
                depth[0] -= 1

        _core.Expr.lower_once = counted
        try:
            full = tree.lower_completely()
        finally:
            _core.Expr.lower_once = orig
        reqs.append(f"c19 lower rules={rtext} tree={ttext} fuel=60")
        code.append(f"L passes={calls[0]} {render_tree(full)}")
        inputs.append({"rules": rtext, "tree": ttext, "what": "lower_completely"})
        nontriv.append(calls[0] > 1)
    model = drive(reqs)
    f.compare(inputs, code, model, nontriv)
    for d in f.disagreements:
        if d:
            d["diff"] = first_diff(d["code"], d["model"])
    f.note = f"random acyclic rule systems on <= 5 classes (copies, nested new nodes, operand-of-operand), trees of depth <= 3; max passes={max(int(c.split()[1][7:]) for c in code if c.startswith('L '))}"
    return f


@contextlib.contextmanager
def observed_lowers(store):
    """wrap every `_lower` defined by a live class; records (class, class of newly created node) pairs,
    self-embedding results, and results containing nodes that are neither new nor subterms of the operands"""
    from dask_expr._core import Expr as CoreExpr

    from harness.extractors import live_expr_classes

    patched = []

    def wrap(cls):
        orig = cls.__dict__["_lower"]

        def _lower(self):
            res = orig(self)
            if res is not None and isinstance(res, CoreExpr) and res._name != self._name:
                old = {e._name for e in self.walk()}
                names = set()
                for e in res.walk():
                    names.add(e._name)
                    if e._name not in old:
                        store[(type(self), type(e))] += 1
                if self._name in names:
                    store[(type(self), "SELF")] += 1
            return res

        cls._lower = _lower
        patched.append((cls, orig))

    for c in live_expr_classes():
        if "_lower" in c.__dict__:
            wrap(c)
    try:
        yield store
    finally:
        for cls, orig in patched:
            cls._lower = orig


def _program_slice(ctx, n_quick, depth=2):
    from harness import programs

    progs = programs.valid_programs(depth)
    idx = list(range(len(progs)))
    if ctx.quick:
        ctx.rng.shuffle(idx)
        idx = sorted(idx[:n_quick])
    return progs, idx


def _every(idx, k):
    return idx[::k]


def fam_lowers_observed(ctx):
    """T3: every (class, newly created class) pair observed in a real `_lower` call is in the generated
    table; no `_lower` result embeds the expression being lowered."""
    f = Family("lowers_observed[every real _lower call while optimizing the program space vs Generated/Lowers]")
    from harness import programs
    from harness.extractors import lowers_table

    names, table, ranks, notes = lowers_table()
    idx_of = {n: i for i, n in enumerate(names)}
    store = collections.Counter()
    progs, idx = _program_slice(ctx, 150)
    if not ctx.quick:
        idx = _every(idx, 4)
    nprog = 0
    with observed_lowers(store):
        for i in idx:
            p = progs[i]
            try:
                r = p.fn(programs.dask_env())
                if hasattr(r, "expr"):
                    r.expr.optimize()
                    nprog += 1
            except Exception:  # noqa: BLE001
                continue
        from harness.props import c14

        for name, fn in c14.real_queries():
            if ctx.quick and "/n3" not in name:
                continue
            try:
                fn().expr.optimize()
            except Exception:  # noqa: BLE001
                continue
    inputs, code, model = [], [], []
    for (a, b), k in sorted(store.items(), key=lambda kv: str(kv[0])):
        an = f"{a.__module__}.{a.__qualname__}"
        if b == "SELF":
            inputs.append({"class": an, "pair": "result embeds the expression itself", "calls": k})
            code.append("embeds self")
            model.append("never")
            continue
        bn = f"{b.__module__}.{b.__qualname__}"
        inputs.append({"class": an, "constructs": bn, "calls": k})
        code.append("observed")
        ok = an in idx_of and idx_of[an] in table and bn in idx_of and idx_of[bn] in table[idx_of[an]]
        model.append("observed" if ok else "not in table")
    f.compare(inputs, code, model)
    f.note = f"{nprog} programs + fusion corpus; {len(store)} distinct pairs; table: {len(table)} lowering classes, max rank {max(ranks)}" + (
        f"; notes: {notes}" if notes else "")
    return f


def fam_fusion_passes(ctx):
    """T2/T3: the measure of C19_fusion_terminates is the number of reachable valid blockwise expressions
    of the real plan, it strictly decreases with every real pass, so the real pass count is below it."""
    f = Family("fusion_passes[real optimize_blockwise_fusion: measure decreases per pass, pass count <= measure]")
    from harness.props import c14

    reqs, inputs, want = [], [], []
    for label, expr in c14._real_plans(ctx)[: (250 if ctx.quick else 100000)]:
        try:
            out, calls = c14._fuse_real(expr)
        except Exception:  # noqa: BLE001
            continue
        seq = [before for before, _ in calls] + [out]
        ms = []
        for e in seq:
            p = c14.Plan(e)
            m = c14._count_blockwise(e)
            ms.append(m)
            reqs.append(f"fusion measure dag={p.text} root={p.root}")
            want.append(str(m))
            inputs.append({"query": label, "what": "measure"})
        if any(b >= a for a, b in zip(ms, ms[1:])) or len(calls) > ms[0]:
            f.disagreements.append({"input": label, "code": f"measures along the passes {ms}", "model": "strictly decreasing"})
    model = drive(reqs)
    f.compare(inputs, want, model)
    return f


# --------------------------------------------------------------------------- WP-N: the SIMPLIFY fragment measure (T3)

# Head-like nodes of the tree model (DxModel/SimplifyMeasure.lean `Tr.blind`): one expression operand, no rule
# depends on the width of their input, they are pushed below projections and blockwise operators
BLIND_CLASSES = ("Head", "Tail", "Partitions", "Len", "Lengths")

# Rules (method, defining class, parent class) every firing of which has to be an instance of a `Step` shape with a
# strictly smaller measure.  "*" matches every class.  Everything not listed is observed, measured and reported
# (family note, PARTIAL) but not required to be inside the fragment.
FRAGMENT_RULES = [
    ("_simplify_up", "*", "Projection"),  # (a) column projection below / into an operator, every class
    ("_simplify_up", "*", "Index"),
    ("_simplify_down", "Projection", ""),  # (c)/(d) Projection squash, identity Projection
    ("_simplify_down", "GroupbyAggregationBase", ""),  # (a) without a Projection parent
    ("_simplify_down", "Assign", ""),  # (c)
    ("_simplify_down", "Head", ""),  # (e), (c)
    ("_simplify_down", "Tail", ""),
    ("_simplify_down", "Partitions", ""),  # (e), (d)
    ("_simplify_down", "Lengths", ""),  # (d)
    ("_simplify_down", "Len", ""),  # (d) Len through length-preserving operators (variants to-index / concat-sum are outside)
    ("_simplify_up", "Filter", "Filter"),  # (c) Filter/Filter squash (variant or-factoring is outside)
    ("_simplify_up", "Merge", "Filter"),  # (b) into one or both join inputs (variant and-split is outside)
    ("_simplify_up", "Elemwise", "Filter"),  # (b) filter pushdown
    ("_simplify_up", "AsType", "Filter"),
    ("_simplify_up", "ResetIndex", "Filter"),
    ("_simplify_up", "Repartition", "Filter"),
    ("_simplify_up", "ShuffleBase", "Filter"),
    ("_simplify_up", "SetIndex", "Filter"),
    ("_simplify_up", "SortValues", "Filter"),
    ("_simplify_up", "ReadParquet", "Filter"),  # (d) predicate absorbed by the reader
    ("_simplify_up", "SortValues", "Head"),  # (d) Head(SortValues) -> NFirst
    ("_simplify_up", "SortValues", "Tail"),
    ("_simplify_up", "FromPandas", "Len"),  # (d) Len -> Literal
    ("_simplify_up", "FromPandas", "Lengths"),
    ("_simplify_up", "ReadParquet", "Len"),
    ("_simplify_up", "ReadParquet", "Lengths"),
    ("_simplify_up", "Head", "Repartition"),  # (d) Repartition(Head(x), 1) -> Head(x)
    ("_simplify_up", "Tail", "Repartition"),
]
# `ShuffleBase._simplify_up` under a reduction drops the shuffle: (c) opSquash / lenPass, any of these parents
_SHUFFLE_DROP_PARENTS = ("Unique", "DropDuplicates", "Sum", "Prod", "Max", "Any", "All", "Min", "Len", "Size", "NBytes", "Mean",
                         "Count", "Mode", "NLargest", "NSmallest", "ValueCounts", "MemoryUsage")
FRAGMENT_RULES += [("_simplify_up", "ShuffleBase", p) for p in _SHUFFLE_DROP_PARENTS]


# Variants of a rule method that are NOT claimed to be inside the fragment (recognised on the real objects):
#   or-factoring  Filter._simplify_up, any parent: `rewrite_filters` pulls common AND-components out of an OR (C03's predicate
#                 algebra; the predicate gets smaller, which the measure sees, but the shape is not one of `Step`)
#   and-split     Merge._simplify_up(Filter) with an And predicate: Filter(m, p & q) -> Filter(Filter(m, p), q') — the inverse of the
#                 Filter/Filter squash; no measure decreases along both, the real rules are kept apart by their guards only
#   to-index      Len(x) -> Len(Index(x)) for a frame that is not length preserving (its inverse Len(Index(x)) -> Len(x) needs
#                 `_is_length_preserving`; the tree model has no such flag)
#   concat-sum    Len(Concat(a, b)) -> Len(a) + Len(b): new Add nodes
def rule_variant(method, self, parent, out):
    import dask_expr._expr as E
    from dask_expr._merge import Merge
    from dask_expr._reductions import Len

    if method == "_simplify_up" and isinstance(self, E.Filter):
        if isinstance(self.predicate, E.Or) and E.rewrite_filters(self.predicate)._name != self.predicate._name:
            return "or-factoring"
    if method == "_simplify_up" and isinstance(self, Merge) and isinstance(parent, E.Filter) and isinstance(parent.predicate, E.And):
        return "and-split"
    if method == "_simplify_down" and type(self) is Len:
        if not isinstance(out, Len):
            return "concat-sum"
        if isinstance(out.frame, E.Index) and not isinstance(self.frame, E.Index):
            return "to-index"
    return ""


def fmt_rule(key):
    from harness.props import c01

    return c01._fmt_key(key[:4]) + (f" ({key[4]})" if key[4] else "")


def in_fragment(key):
    method, defcls, _selfcls, parentcls, variant = key
    return variant == "" and any(m == method and d in ("*", defcls) and p == parentcls for m, d, p in FRAGMENT_RULES)


def _width(e):
    try:
        return len(e.columns)
    except Exception:  # noqa: BLE001
        return 0


def abstract_tree(e, memo):
    """real expression -> preorder tokens of the Lean tree model: node kind + number of columns only"""
    k = e._name
    if k in memo:
        return memo[k]
    deps = e.dependencies()
    n = type(e).__name__
    w = _width(e)
    if n in ("Projection", "Index") and len(deps) == 1:
        r = (f"P{w}",) + abstract_tree(deps[0], memo)
    elif n == "Filter" and len(deps) == 2:
        r = (f"F{w}",) + abstract_tree(deps[0], memo) + abstract_tree(deps[1], memo)
    elif n in BLIND_CLASSES and len(deps) == 1:
        r = (f"B{w}",) + abstract_tree(deps[0], memo)
    else:
        r = (f"O{w}/{len(deps)}",)
        for d in deps:
            r += abstract_tree(d, memo)
    memo[k] = r
    return r


class SimplifyTracer:
    """wraps `_simplify_down` / `_simplify_up` of every live class (the class list of c01.FiringTracer) and
    `Expr.simplify_once`: records every outermost firing as (rule key, expression before, expression after) and every
    top-level pass that changes the expression, with the firings that happened inside it"""

    def __init__(self):
        self.firings = []  # (key, before, after)
        self.passes = []  # (before, after, [indices into firings])
        self._saved = []
        self._depth = 0
        self._sdepth = 0
        self._pass_start = 0

    def __enter__(self):
        from dask_expr import _core

        from harness.props import c01

        tr = self
        for cls in c01.all_expr_classes():
            for m in ("_simplify_down", "_simplify_up"):
                if m not in cls.__dict__:
                    continue
                orig = cls.__dict__[m]

                def wrapper(self, *args, _orig=orig, _m=m, _def=cls.__name__):
                    tr._depth += 1
                    try:
                        out = _orig(self, *args)
                    finally:
                        tr._depth -= 1
                    if tr._depth == 0:
                        parent = args[0] if _m.endswith("_up") else None
                        ref = parent if parent is not None else self
                        if isinstance(out, _core.Expr) and out._name != ref._name:
                            key = (_m, _def, type(self).__name__, type(parent).__name__ if parent is not None else "",
                                   rule_variant(_m, self, parent, out))
                            tr.firings.append((key, ref, out))
                    return out

                self._saved.append((cls, m, orig))
                setattr(cls, m, wrapper)
        orig_s = _core.Expr.simplify_once

        def s_once(self, dependents, simplified):
            if tr._sdepth == 0:
                tr._pass_start = len(tr.firings)
            tr._sdepth += 1
            try:
                out = orig_s(self, dependents=dependents, simplified=simplified)
            finally:
                tr._sdepth -= 1
            if tr._sdepth == 0 and tr._depth == 0 and isinstance(out, _core.Expr) and out._name != self._name:
                tr.passes.append((self, out, list(range(tr._pass_start, len(tr.firings)))))
            return out

        self._saved.append((_core.Expr, "simplify_once", orig_s))
        _core.Expr.simplify_once = s_once
        return self

    def __exit__(self, *a):
        for cls, m, orig in self._saved:
            setattr(cls, m, orig)
        self._saved = []


def _interaction_programs(ctx):
    """filters over joins: And predicates (Merge._simplify_up splits them — the inverse of the Filter/Filter squash), predicates on
    the join key (pushed into both inputs), conjuncts shared between two consumers, filters of filters"""
    import dask_expr as dx

    from harness import programs

    def shapes(m):
        return {
            "and2": lambda: m[(m.a > 1) & (m.d > 20)],
            "and3": lambda: m[(m.a > 1) & (m.d > 20) & (m.b > 1)],
            "key_both_sides": lambda: m[m.b > 1],
            "key_and_left": lambda: m[(m.b > 1) & (m.a > 1)],
            "shared_conjunct": lambda: dx.concat([m[m.a > 1], m[(m.a > 1) & (m.d > 20)]]),
            "shared_conjunct_sum": lambda: m[m.a > 1].a.sum() + m[(m.a > 1) & (m.d > 20)].d.sum(),
            "filter_of_filter": lambda: (lambda f: f[(f.d > 20) & (f.b > 1)])(m[m.a > 1]),
            "cross_predicate": lambda: m[(m.a > 1) & (m.a + m.d > 20)],
            "filter_proj_shared": lambda: m[(m.a > 1) & (m.d > 20)][["a"]].a + m[m.a > 1].a,
            # the FIRST conjunct cannot be pushed into an input (other side of a left join / reads both inputs), the last can
            "right_col_and_left_col": lambda: m[(m.d > 20) & (m.a > 1)],
            "both_sides_and_left": lambda: m[(m.a < m.d) & (m.a > 1)],
        }

    out = []
    for how in (("inner", "left") if ctx.quick else ("inner", "left", "right", "outer")):
        t = programs.dask_env()
        m = t["L"].merge(t["R"], on="b", how=how)
        out += [(f"j:{how}/{k}", fn) for k, fn in shapes(m).items()]
    return out


def _measure_programs(ctx):
    """[(label, thunk -> collection)]: a seeded slice of the vetted program space (all of it, strided, in the thorough
    tier), c01's must-run programs (shapes of fixed defects, rule interactions, parquet), the fusion corpus"""
    from harness import programs
    from harness.props import c01, c14

    progs, idx = _program_slice(ctx, 150)
    if not ctx.quick:
        idx = sorted(ctx.rng.sample(idx, min(len(idx), 7000)))  # (a stride would only ever meet some of the terminals)
    out = [(progs[i].name, (lambda p=progs[i]: p.fn(programs.dask_env()))) for i in idx]
    out += [(p.name, (lambda p=p: p.fn(programs.dask_env()))) for p in c01.extra_programs()]
    out += [("q:" + name, fn) for name, fn in c14.real_queries() if (not ctx.quick) or "/n3" in name]
    return out + _interaction_programs(ctx)


def fam_simplify_measure(ctx):
    """T3 for C19_simplify_step_decreases / C19_simplify_converges: every rule firing and every pass observed while
    simplifying the program space, abstracted to the tree model (kind + width), is sent to the driver: is it an instance of
    a `Step` shape (`stepB`, proven sound), does `msr` strictly decrease (`ltQ`)."""
    from harness.props import c01

    f = Family("simplify_measure[every _simplify_up/_simplify_down firing and every simplify_once pass: Step shape + measure decreases]")
    uniq = {}  # (kind, rule, before, after) -> [count, first program]
    pass_firings = {}
    nprog = 0
    todo = _measure_programs(ctx)
    with SimplifyTracer() as tr:
        for label, thunk in todo:
            tr.firings, tr.passes = [], []
            tr._depth = tr._sdepth = 0
            try:
                r = thunk()  # (`len`, `head` … optimize and compute eagerly: their firings are traced as well)
                if hasattr(r, "expr"):
                    r.expr.optimize(fuse=False)
                nprog += 1
            except Exception:  # noqa: BLE001  refusals are not this property's business
                continue
            memo = {}
            fkeys = []
            for key, ref, out in tr.firings:
                k = ("firing", key, ",".join(abstract_tree(ref, memo)), ",".join(abstract_tree(out, memo)))
                fkeys.append(k)
                ent = uniq.setdefault(k, [0, label])
                ent[0] += 1
            for before, after, idxs in tr.passes:
                k = ("pass", None, ",".join(abstract_tree(before, memo)), ",".join(abstract_tree(after, memo)))
                ent = uniq.setdefault(k, [0, label])
                ent[0] += 1
                pass_firings.setdefault(k, set()).update(fkeys[i] for i in idxs)
    keys = list(uniq)
    answers = drive([f"c19 step before={k[2]} after={k[3]}" for k in keys])
    parsed = {}
    for k, a in zip(keys, answers):
        m = re.fullmatch(r"STEP (\S+) DEC ([01]) NOOP ([01])", a)
        parsed[k] = (m.group(1), m.group(2) == "1", m.group(3) == "1") if m else ("BAD:" + a, False, False)
    inside = collections.Counter()  # rule -> firings that are Step instances
    shapes = collections.Counter()
    noop = collections.Counter()
    outside = collections.defaultdict(collections.Counter)  # rule -> {"step"/"dec"/"nondec": n}
    nondec_examples = {}
    inputs, code, model = [], [], []
    ok_firing = {}
    for k in keys:
        if k[0] != "firing":
            continue
        rule = fmt_rule(k[1])
        why, dec, isnoop = parsed[k]
        n, label = uniq[k]
        step = why != "none" and not why.startswith("BAD")
        ok_firing[k] = (step and dec) or isnoop
        if step:
            shapes[why.split("@")[0]] += n
        if in_fragment(k[1]):
            if isnoop and not step:
                noop[rule] += n
            else:
                inside[rule] += n
            inputs.append({"rule": rule, "before": k[2], "after": k[3], "program": label, "firings": n})
            code.append("fragment step, measure decreases" if not isnoop or step else "redundant projection (undone by Projection._simplify_down)")
            model.append(code[-1] if ok_firing[k] else f"STEP {why} DEC {int(dec)}")
        else:
            outside[rule]["step" if step and dec else ("dec" if dec else "nondec")] += n
            if not dec:
                nondec_examples.setdefault(rule, {"program": label, "before": k[2], "after": k[3]})
    npass = collections.Counter()
    for k in keys:
        if k[0] != "pass":
            continue
        why, dec, _ = parsed[k]
        n, label = uniq[k]
        if all(ok_firing[fk] for fk in pass_firings.get(k, ())):
            npass["inside"] += n
            inputs.append({"pass": "simplify_once", "before": k[2], "after": k[3], "program": label, "passes": n})
            code.append("measure decreases over the pass")
            model.append(code[-1] if dec else f"DEC 0 ({why})")
        else:
            npass["with_outside_rules_dec" if dec else "with_outside_rules_nondec"] += n
    f.compare(inputs, code, model)
    f.inside, f.outside, f.noop, f.nondec_examples = inside, outside, noop, nondec_examples
    out_txt = "; ".join(f"{r}: " + "/".join(f"{v} {c}" for c, v in sorted(cs.items())) for r, cs in sorted(outside.items()))
    f.note = (f"{nprog} programs, {sum(n for k, (n, _) in uniq.items() if k[0] == 'firing')} firings ({sum(1 for k in keys if k[0] == 'firing')} distinct "
              f"shapes); inside the fragment: {sum(inside.values())} firings of {len(inside)} rules, Step shapes hit: {dict(shapes)}; redundant "
              f"non-narrowing projections inserted (not Steps, measure grows, removed again by Projection._simplify_down): {dict(noop)}; "
              f"rules outside the fragment (firings: step = is a Step shape anyway, dec = measure decreases, nondec = does not): {out_txt}; "
              f"passes: {dict(npass)}")
    return f


def families(ctx):
    return [fam_simplify_loop, fam_lower_loop, fam_lowers_observed, fam_fusion_passes, fam_simplify_measure]


# --------------------------------------------------------------------------- end-to-end support / search

BUDGET = {"simplify_once": 60, "lower_once": 40, "fusion_pass": 80}


class BudgetExceeded(Exception):
    pass


@contextlib.contextmanager
def counted_stages(counts):
    """count top-level simplify_once / lower_once calls and successful fusion passes; abort beyond the budget"""
    import dask_expr._expr as E
    from dask_expr import _core

    orig_s, orig_l, orig_sub = _core.Expr.simplify_once, _core.Expr.lower_once, _core.Expr.substitute
    depth = {"s": 0, "l": 0}

    def s_once(self, dependents, simplified):
        if depth["s"] == 0:
            counts["simplify_once"] += 1
            if counts["simplify_once"] > BUDGET["simplify_once"] * 4:
                raise BudgetExceeded("simplify_once")
        depth["s"] += 1
        try:
            return orig_s(self, dependents=dependents, simplified=simplified)
        finally:
            depth["s"] -= 1

    def l_once(self):
        if depth["l"] == 0:
            counts["lower_once"] += 1
            if counts["lower_once"] > BUDGET["lower_once"] * 4:
                raise BudgetExceeded("lower_once")
        depth["l"] += 1
        try:
            return orig_l(self)
        finally:
            depth["l"] -= 1

    def sub(self, old, new):
        if isinstance(new, E.Fused):
            counts["fusion_pass"] += 1
            if counts["fusion_pass"] > BUDGET["fusion_pass"] * 4:
                raise BudgetExceeded("fusion_pass")
        return orig_sub(self, old, new)

    _core.Expr.simplify_once, _core.Expr.lower_once, _core.Expr.substitute = s_once, l_once, sub
    try:
        yield counts
    finally:
        _core.Expr.simplify_once, _core.Expr.lower_once, _core.Expr.substitute = orig_s, orig_l, orig_sub


class _AllJoins:
    quick = False


def _build(case):
    from harness import programs

    if case.get("kind") == "interaction":
        thunk = dict(_interaction_programs(_AllJoins))[case["program"]]
        r = thunk()
        return programs.Program(case["program"], None, True, ("interaction",), 2, True, False, True), (r if hasattr(r, "expr") else None)
    progs = {p.name: p for p in programs.valid_programs(case["depth"])}
    p = progs[case["program"]]
    env = programs.dask_env(case.get("cutsL"), case.get("cutsR"), case.get("known", True))
    r = p.fn(env)
    return p, (r if hasattr(r, "expr") else None)


def run_program_case(case):
    """-> (message or None, stats)"""
    try:
        p, coll = _build(case)
    except Exception:  # noqa: BLE001
        return None, None
    if coll is None:
        return None, None
    counts = collections.Counter()
    try:
        with counted_stages(counts):
            o1 = coll.expr.optimize()
    except BudgetExceeded as ex:
        return f"optimize() exceeded the step budget in stage {ex} ({dict(counts)})", dict(counts)
    except RuntimeError as ex:
        if "does not converge" in str(ex):
            return f"optimize() raised: {str(ex)[:200]}", dict(counts)
        return None, None  # other refusals are not this property's business
    except Exception:  # noqa: BLE001
        return None, None
    stats = dict(counts)
    for k, b in BUDGET.items():
        if counts[k] > b:
            return f"{k} ran {counts[k]} times (budget {b})", stats
    # repetition in the same process
    try:
        _, coll2 = _build(case)
        o1b = coll2.expr.optimize()
    except Exception as ex:  # noqa: BLE001
        return f"second optimize() of the same query raised {type(ex).__name__}: {str(ex)[:100]}", stats
    if coll2.expr._name == coll.expr._name and o1b._name != o1._name:
        return f"optimize(q)._name differs between two runs in one process: {o1._name} vs {o1b._name}", stats
    # optimize twice
    try:
        o2 = o1.optimize()
    except Exception as ex:  # noqa: BLE001
        return f"optimize(optimize(q)) raised {type(ex).__name__}: {str(ex)[:150]}", stats
    stats["same_name_twice"] = int(o2._name == o1._name)
    r1 = e2e.run_or_err(lambda: list(dask.get(dict(o1.__dask_graph__()), o1.__dask_keys__())))
    r2 = e2e.run_or_err(lambda: list(dask.get(dict(o2.__dask_graph__()), o2.__dask_keys__())))
    if r1[0] == "err" and r2[0] == "err":
        return None, stats
    if r1[0] != r2[0]:
        return f"only {'optimize(q)' if r1[0] == 'err' else 'optimize(optimize(q))'} fails at execution: {(r1 if r1[0] == 'err' else r2)[1:]}", stats
    if len(r1[1]) != len(r2[1]):
        return f"optimize(optimize(q)) has {len(r2[1])} partitions, optimize(q) {len(r1[1])}", stats
    unordered = p.unordered or any(type(e).__name__ in ("DiskShuffle", "P2PShuffle") for e in o1.walk())
    noindex = p.noindex
    def whole(parts):
        # the collection as a whole (which rows land in which partition is not part of the result, and is
        # unspecified after a disk shuffle followed by a positional repartition)
        parts = [p.to_series().reset_index(drop=True) if isinstance(p, pd.Index) else p for p in parts]
        return pd.concat(parts) if parts and all(isinstance(x, (pd.DataFrame, pd.Series)) for x in parts) else parts

    index_result = bool(r1[1]) and all(isinstance(x, pd.Index) for x in r1[1])
    noindex = noindex or index_result
    a, b = whole(r1[1]), whole(r2[1])
    if isinstance(a, list):
        same = all(e2e.same(x, y, sort_rows=unordered, drop_index=noindex) for x, y in zip(a, b))
    else:
        same = e2e.same(a, b, sort_rows=unordered, drop_index=noindex)
    if not same:
        return f"optimize(optimize(q)) computes something else: {e2e.describe(b, 6)!r:.200} vs {e2e.describe(a, 6)!r:.200}", stats
    return None, stats


_CHILD = r"""
import sys, json
sys.path.append({root!r})
import warnings; warnings.filterwarnings("ignore")
import dask; dask.config.set(scheduler="sync")
from harness import programs
cases = json.loads(sys.stdin.read())
progs = {{p.name: p for p in programs.valid_programs(2)}}
out = {{}}
for c in cases:
    try:
        if c.get("query"):
            from harness.props import c14
            r = dict(c14.real_queries())[c["query"]]()
            key = c["query"]
        else:
            p = progs[c["program"]]
            r = p.fn(programs.dask_env(c.get("cutsL"), c.get("cutsR"), c.get("known", True)))
            key = c["program"]
        if hasattr(r, "expr"):
            out[key] = [r.expr._name, r.expr.optimize(fuse=False)._name, r.expr.optimize()._name]
    except Exception as e:
        out[c.get("query") or c["program"]] = ["ERR", type(e).__name__, ""]
print(json.dumps(out))
"""


def _spawn(cases, hashseed):
    env = dict(os.environ)
    env["PYTHONHASHSEED"] = str(hashseed)
    # keep the parent's PYTHONPATH (a DX_REPO scratch copy of dask-expr comes first there)
    env["PYTHONPATH"] = os.pathsep.join([p for p in [os.environ.get("PYTHONPATH", ""), str(ROOT)] if p])
    p = subprocess.Popen([sys.executable, "-W", "ignore", "-c", _CHILD.format(root=str(ROOT))], stdin=subprocess.PIPE,
                         stdout=subprocess.PIPE, stderr=subprocess.PIPE, text=True, env=env)
    p.stdin.write(json.dumps(cases))
    p.stdin.close()
    return p


def names_in_fresh_processes(cases, seeds):
    """the children run concurrently"""
    procs = [_spawn(cases, s) for s in seeds]
    outs = []
    for p in procs:
        out = p.stdout.read()
        err = p.stderr.read()
        p.wait(timeout=1800)
        if p.returncode != 0:
            raise RuntimeError(f"child failed: {err[-400:]}")
        outs.append(json.loads(out.strip().splitlines()[-1]))
    return outs


def cross_process_failures(cases, seeds=(1, 2)):
    """names of the same query in fresh interpreters with different PYTHONHASHSEED:
    -> ([(case, stage, message)], number of queries compared)"""
    runs = names_in_fresh_processes(cases, seeds)
    fails = []
    compared = 0
    for c in cases:
        nm = c.get("query") or c["program"]
        vals = [r.get(nm) for r in runs]
        if any(v is None or v[0] == "ERR" for v in vals):
            continue
        if len({v[0] for v in vals}) != 1:
            continue  # the query itself has no process-independent name (a user function without a stable token)
        compared += 1
        if len({v[1] for v in vals}) != 1:
            fails.append((c, "simplified-physical", "optimize(q, fuse=False)._name depends on PYTHONHASHSEED: " + " vs ".join(
                f"seed {s}: {v[1]}" for s, v in zip(seeds, vals))))
        elif len({v[2] for v in vals}) != 1:
            fails.append((c, "fused", "optimize(q)._name depends on PYTHONHASHSEED (the unfused plan's name does not): " + " vs ".join(
                f"seed {s}: {v[2]}" for s, v in zip(seeds, vals))))
    return fails, compared


def run_case(case):
    if case["kind"] == "xproc":
        fails, _ = cross_process_failures([case["case"]], tuple(case.get("seeds", (1, 2, 3))))
        return (fails[0][2] if fails else None), None
    return run_program_case(case)


def _cases(ctx, broken):
    inter = [{"kind": "interaction", "program": lab} for lab, _ in _interaction_programs(ctx)]
    return inter + _program_cases(ctx, broken)


def _program_cases(ctx, broken):
    progs, idx = _program_slice(ctx, 200)
    layouts = [([0, 3, 6, 8], [0, 2, 6]), ([0, 8], [0, 6]), ([0, 2, 4, 6, 8], [0, 2, 4, 6])]
    cases = []
    for j, i in enumerate(idx):
        cl, cr = layouts[j % len(layouts)]
        cases.append({"kind": "program", "program": progs[i].name, "depth": 2, "cutsL": cl, "cutsR": cr, "known": j % 4 != 0})
    return cases


def _safe_program_case(case):
    try:
        return run_program_case(case)
    except Exception as e:  # noqa: BLE001
        return f"harness could not run the case: {type(e).__name__}: {str(e)[:200]}", None


def support(ctx, broken):
    sup = Support()
    cases = _cases(ctx, broken)
    hist = {k: collections.Counter() for k in BUDGET}
    same_twice = collections.Counter()
    per_sig = {}
    if ctx.quick:
        results = ((c, _safe_program_case(c)) for c in cases)
        pool = None
    else:
        import multiprocessing as mp

        pool = mp.get_context("fork").Pool(min(14, os.cpu_count() or 4))
        results = zip(cases, pool.imap(_safe_program_case, cases, chunksize=16))
    try:
        for case, (msg, stats) in results:
            sup.executed += 1
            if stats:
                for k in BUDGET:
                    hist[k][stats.get(k, 0)] += 1
                if "same_name_twice" in stats:
                    same_twice[stats["same_name_twice"]] += 1
            if len(sup.samples) < 3:
                sup.samples.append(case)
            if msg:
                sig = {"kind": "program", "what": msg.split(":")[0][:50]}
                k = json.dumps(sig, sort_keys=True)
                per_sig[k] = per_sig.get(k, 0) + 1
                if per_sig[k] <= 2:
                    sup.failures.append(Failure(sig=sig, case=case, detail=msg))
    finally:
        if pool is not None:
            pool.terminate()
    # cross-process names (one batch per seed): a slice of the programs plus the fusion corpus
    from harness.props import c14

    xcases = [c for c in cases if c.get("cutsL") == [0, 3, 6, 8]][: (60 if ctx.quick else 2500)]
    xcases += [{"kind": "query", "query": name} for name, _ in c14.real_queries() if "/n2/" in name or not ctx.quick]
    try:
        fails, n = cross_process_failures(xcases)
        sup.executed += n
        sup.distribution["cross_process_queries_compared"] = n
        sup.distribution["cross_process_name_differs"] = len(fails)
        seen_stage = set()
        for c, stage, msg in fails:
            if stage in seen_stage:
                continue
            seen_stage.add(stage)
            sup.failures.append(Failure(sig={"kind": "xproc", "what": "optimize(q)._name depends on PYTHONHASHSEED", "stage": stage},
                                        case={"kind": "xproc", "case": c}, detail=msg))
    except Exception as e:  # noqa: BLE001
        sup.failures.append(Failure(sig={"kind": "xproc", "what": "child process failed"}, case={"kind": "xproc", "case": xcases[0]},
                                    detail=str(e)[:300]))
    for k in BUDGET:
        sup.distribution[f"{k}_max"] = max(hist[k]) if hist[k] else 0
        sup.distribution[f"{k}_hist"] = {str(a): b for a, b in sorted(hist[k].items())}
    sup.distribution["optimize_twice_same_name"] = {str(a): b for a, b in same_twice.items()}
    return sup


def replay(case):
    msg, _ = run_case(case)
    return Failure(sig={}, case=case, detail=msg) if msg else None
