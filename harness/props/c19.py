"""C19 — optimization terminates, is deterministic and idempotent.

Correspondence between /repo `Expr.simplify`, `Expr.lower_once`, `Expr.lower_completely` and the Lean
models of lean/DxModel/Termination.lean (stub rule classes), run-time validation of the generated
class-level "may construct" table of the `_lower` methods (Generated/Lowers.lean, T1 + T3), and the
end-to-end search: step counts of every optimizer stage, no "Optimizer does not converge", plan names
stable across repetitions and across fresh processes with different PYTHONHASHSEED, optimize∘optimize.
"""
from __future__ import annotations

import collections
import contextlib
import json
import os
import re
import subprocess
import sys

import dask
import numpy as np
import pandas as pd

from harness import e2e
from harness.core import ROOT, Family, Failure, Support, drive, first_diff

LEAN_MODULES = ["DxModel.Props.C19"]
GENERATED = ["Lowers"]
TRUSTED = [
    "harness/extractors.py `Lowers`: ast scan of the `_lower` bodies (over-approximation; what it resolves is listed "
    "in the generator); validated by family lowers_observed on every `_lower` call made while lowering the program space",
    "abstraction of a `_lower` method as `Respects`: its result consists of new nodes of listed classes and copies of "
    "subterms of the operands (validated by the same family on every observed call)",
    "expressions are identified with their names (C08) in the simplify model",
]
PARTIAL = [
    "that simplify_once never revisits an expression on real queries (no 'Optimizer does not converge') is not proven; "
    "it is checked by the search over the vetted program space only (C19_fragment_measure of the design is not attempted)",
    "termination of lower_completely is proven for every family of `_lower` methods that respects the generated table; "
    "that the real methods do is an ast over-approximation validated on the program space, not a proof about Python",
    "determinism across processes is established by search (names for different PYTHONHASHSEED), not by proof",
]
EXPLANATION = (
    "Theorems: fusion passes strictly decrease a measure (loop stops); the generated may-construct relation of `_lower` "
    "has a kernel-checked decreasing rank, hence lower_completely reaches a fixpoint from every tree for every rule family "
    "respecting the table (strong normalization, copies and guards allowed); simplify returns a fixpoint on normal exit, "
    "reports non-convergence only on a revisit, and stops on finite orbits. Tie: real simplify / lower_once / "
    "lower_completely on stub rule classes vs the models; observed (class, new class) pairs of every real `_lower` call "
    "inside the table. Search: per-stage step counts, name stability in-process and across PYTHONHASHSEED, optimize twice."
)

# --------------------------------------------------------------------------- stub classes

_STUBS = None


def stubs():
    global _STUBS
    if _STUBS is not None:
        return _STUBS
    from dask_expr._expr import Expr

    meta = pd.DataFrame({"a": [1]}).iloc[:0]

    class C19State(Expr):
        """`_simplify_down` follows a finite table: state i -> table[i]"""

        _parameters = ["i", "table"]

        @property
        def _meta(self):
            return meta

        def _divisions(self):
            return (None, None)

        def _simplify_down(self):
            t = self.operand("table")
            i = self.operand("i")
            j = t[i] if i < len(t) else i
            if j != i:
                return C19State(j, t)

    class C19Node(Expr):
        """`_lower` instantiates the pattern the rule table gives for the node's class"""

        _parameters = ["c", "rules"]

        @property
        def _meta(self):
            return meta

        def _divisions(self):
            return (None, None)

        def _lower(self):
            rules = dict(r.split(":") for r in self.operand("rules").split(";")) if self.operand("rules") != "-" else {}
            pat = rules.get(str(self.operand("c")))
            if pat is None:
                return None
            toks = pat.split(",")
            kids = self.dependencies()
            try:
                out, rest = _inst(toks, kids, self.operand("rules"))
            except IndexError:
                return None
            return out

    def _inst(toks, kids, rules):
        t, rest = toks[0], toks[1:]
        if t[0] == "K":
            return kids[int(t[1:])], rest
        if t[0] == "S":
            i, j = t[1:].split(".")
            return kids[int(i)].dependencies()[int(j)], rest
        c, n = t[1:].split("/")
        args = []
        for _ in range(int(n)):
            a, rest = _inst(rest, kids, rules)
            args.append(a)
        return C19Node(int(c), rules, *args), rest

    _STUBS = {"State": C19State, "Node": C19Node}
    return _STUBS


def build_tree(toks, rules):
    Node = stubs()["Node"]

    def rec(toks):
        c, n = toks[0].split("/")
        rest = toks[1:]
        kids = []
        for _ in range(int(n)):
            k, rest = rec(rest)
            kids.append(k)
        return Node(int(c), rules, *kids), rest

    t, rest = rec(toks)
    assert not rest
    return t


def render_tree(e):
    ks = e.dependencies()
    return ",".join([f"{e.operand('c')}/{len(ks)}"] + [render_tree(k) for k in ks])


# --------------------------------------------------------------------------- families


def fam_simplify_loop(ctx):
    """T2: Expr.simplify (seen set, RuntimeError) on a stub whose _simplify_down follows a finite table."""
    f = Family("simplify_loop[Expr.simplify + simplify_once on a table-driven stub]")
    State = stubs()["State"]
    rng = ctx.rng
    tables = []
    import itertools

    for n in (1, 2, 3, 4):
        for t in itertools.product(range(n), repeat=n):
            tables.append(list(t))
    for _ in range(300 if ctx.quick else 5000):
        n = rng.randint(5, 9)
        tables.append([rng.randrange(n) for _ in range(n)])
    reqs, code, inputs, nontriv = [], [], [], []
    for t in tables:
        for start in range(len(t)):
            try:
                r = State(start, tuple(t)).simplify()
                code.append(f"OK {r.operand('i')}")
            except RuntimeError as ex:
                m = re.search(r"C19State\(i=(\d+).*?\) simplified to C19State\(i=(\d+)", str(ex))
                code.append(f"NOCONV {m.group(1)} {m.group(2)}" if m and "does not converge" in str(ex) else f"ERR {ex}")
            reqs.append(f"c19 simplify table={','.join(map(str, t))} start={start} fuel={len(t) + 3}")
            inputs.append({"table": t, "start": start})
            nontriv.append(t[start] != start)
    model = drive(reqs)
    f.compare(inputs, code, model, nontriv)
    f.exhaustive = True
    f.note = f"all functions on <= 4 states x all starts, {len(tables)} tables; non-convergent cases={sum(1 for c in code if c.startswith('NOCONV'))}"
    return f


def _random_rules(rng, ncls):
    """a rule system whose may-construct relation is acyclic (class c only constructs smaller classes)
    or — with small probability — deliberately cyclic (then a pass budget applies)"""
    rules = {}
    for c in range(1, ncls):
        if rng.random() < 0.75:
            rules[c] = _random_pat(rng, c, 0)
    return rules


def _random_pat(rng, c, depth):
    r = rng.random()
    if depth >= 2 or r < 0.3:
        return rng.choice(["K0", "K1", "K0", "S0.0", "S1.0", "K2"])
    n = rng.choice([0, 1, 1, 2, 2, 3])
    c2 = rng.randrange(c)
    return ",".join([f"N{c2}/{n}"] + [_random_pat(rng, c, depth + 1) for _ in range(n)])


def _random_tree(rng, ncls, depth=0):
    n = 0 if depth >= 3 else rng.choice([0, 1, 1, 2, 2, 3])
    return ",".join([f"{rng.randrange(ncls)}/{n}"] + [_random_tree(rng, ncls, depth + 1) for _ in range(n)])


def fam_lower_loop(ctx):
    """T2: Expr.lower_once / lower_completely with stub rule classes vs the model."""
    f = Family("lower_loop[Expr.lower_once / lower_completely on pattern-driven stub classes]")
    from dask_expr import _core

    rng = ctx.rng
    reqs, code, inputs, nontriv = [], [], [], []
    for _ in range(3000 if ctx.quick else 40000):
        ncls = rng.randint(2, 5)
        rules = _random_rules(rng, ncls)
        rtext = ";".join(f"{c}:{p}" for c, p in sorted(rules.items())) or "-"
        ttext = _random_tree(rng, ncls)
        tree = build_tree(ttext.split(","), rtext)
        once = tree.lower_once()
        reqs.append(f"c19 once rules={rtext} tree={ttext} fuel=60")
        code.append("T " + render_tree(once))
        inputs.append({"rules": rtext, "tree": ttext, "what": "lower_once"})
        nontriv.append(once._name != tree._name)
        calls = [0]
        orig = _core.Expr.lower_once
        depth = [0]

        def counted(self):
            if depth[0] == 0:
                calls[0] += 1
            depth[0] += 1
            try:
                return orig(self)
            finally:
                depth[0] -= 1

        _core.Expr.lower_once = counted
        try:
            full = tree.lower_completely()
        finally:
            _core.Expr.lower_once = orig
        reqs.append(f"c19 lower rules={rtext} tree={ttext} fuel=60")
        code.append(f"L passes={calls[0]} {render_tree(full)}")
        inputs.append({"rules": rtext, "tree": ttext, "what": "lower_completely"})
        nontriv.append(calls[0] > 1)
    model = drive(reqs)
    f.compare(inputs, code, model, nontriv)
    for d in f.disagreements:
        if d:
            d["diff"] = first_diff(d["code"], d["model"])
    f.note = f"random acyclic rule systems on <= 5 classes (copies, nested new nodes, operand-of-operand), trees of depth <= 3; max passes={max(int(c.split()[1][7:]) for c in code if c.startswith('L '))}"
    return f


@contextlib.contextmanager
def observed_lowers(store):
    """wrap every `_lower` defined by a live class; records (class, class of newly created node) pairs,
    self-embedding results, and results containing nodes that are neither new nor subterms of the operands"""
    from dask_expr._core import Expr as CoreExpr

    from harness.extractors import live_expr_classes

    patched = []

    def wrap(cls):
        orig = cls.__dict__["_lower"]

        def _lower(self):
            res = orig(self)
            if res is not None and isinstance(res, CoreExpr) and res._name != self._name:
                old = {e._name for e in self.walk()}
                names = set()
                for e in res.walk():
                    names.add(e._name)
                    if e._name not in old:
                        store[(type(self), type(e))] += 1
                if self._name in names:
                    store[(type(self), "SELF")] += 1
            return res

        cls._lower = _lower
        patched.append((cls, orig))

    for c in live_expr_classes():
        if "_lower" in c.__dict__:
            wrap(c)
    try:
        yield store
    finally:
        for cls, orig in patched:
            cls._lower = orig


def _program_slice(ctx, n_quick, depth=2):
    from harness import programs

    progs = programs.valid_programs(depth)
    idx = list(range(len(progs)))
    if ctx.quick:
        ctx.rng.shuffle(idx)
        idx = sorted(idx[:n_quick])
    return progs, idx


def _every(idx, k):
    return idx[::k]


def fam_lowers_observed(ctx):
    """T3: every (class, newly created class) pair observed in a real `_lower` call is in the generated
    table; no `_lower` result embeds the expression being lowered."""
    f = Family("lowers_observed[every real _lower call while optimizing the program space vs Generated/Lowers]")
    from harness import programs
    from harness.extractors import lowers_table

    names, table, ranks, notes = lowers_table()
    idx_of = {n: i for i, n in enumerate(names)}
    store = collections.Counter()
    progs, idx = _program_slice(ctx, 150)
    if not ctx.quick:
        idx = _every(idx, 4)
    nprog = 0
    with observed_lowers(store):
        for i in idx:
            p = progs[i]
            try:
                r = p.fn(programs.dask_env())
                if hasattr(r, "expr"):
                    r.expr.optimize()
                    nprog += 1
            except Exception:  # noqa: BLE001
                continue
        from harness.props import c14

        for name, fn in c14.real_queries():
            if ctx.quick and "/n3" not in name:
                continue
            try:
                fn().expr.optimize()
            except Exception:  # noqa: BLE001
                continue
    inputs, code, model = [], [], []
    for (a, b), k in sorted(store.items(), key=lambda kv: str(kv[0])):
        an = f"{a.__module__}.{a.__qualname__}"
        if b == "SELF":
            inputs.append({"class": an, "pair": "result embeds the expression itself", "calls": k})
            code.append("embeds self")
            model.append("never")
            continue
        bn = f"{b.__module__}.{b.__qualname__}"
        inputs.append({"class": an, "constructs": bn, "calls": k})
        code.append("observed")
        ok = an in idx_of and idx_of[an] in table and bn in idx_of and idx_of[bn] in table[idx_of[an]]
        model.append("observed" if ok else "not in table")
    f.compare(inputs, code, model)
    f.note = f"{nprog} programs + fusion corpus; {len(store)} distinct pairs; table: {len(table)} lowering classes, max rank {max(ranks)}" + (
        f"; notes: {notes}" if notes else "")
    return f


def fam_fusion_passes(ctx):
    """T2/T3: the measure of C19_fusion_terminates is the number of reachable valid blockwise expressions
    of the real plan, it strictly decreases with every real pass, so the real pass count is below it."""
    f = Family("fusion_passes[real optimize_blockwise_fusion: measure decreases per pass, pass count <= measure]")
    from harness.props import c14

    reqs, inputs, want = [], [], []
    for label, expr in c14._real_plans(ctx)[: (250 if ctx.quick else 100000)]:
        try:
            out, calls = c14._fuse_real(expr)
        except Exception:  # noqa: BLE001
            continue
        seq = [before for before, _ in calls] + [out]
        ms = []
        for e in seq:
            p = c14.Plan(e)
            m = c14._count_blockwise(e)
            ms.append(m)
            reqs.append(f"fusion measure dag={p.text} root={p.root}")
            want.append(str(m))
            inputs.append({"query": label, "what": "measure"})
        if any(b >= a for a, b in zip(ms, ms[1:])) or len(calls) > ms[0]:
            f.disagreements.append({"input": label, "code": f"measures along the passes {ms}", "model": "strictly decreasing"})
    model = drive(reqs)
    f.compare(inputs, want, model)
    return f


def families(ctx):
    return [fam_simplify_loop, fam_lower_loop, fam_lowers_observed, fam_fusion_passes]


# --------------------------------------------------------------------------- end-to-end support / search

BUDGET = {"simplify_once": 60, "lower_once": 40, "fusion_pass": 80}


class BudgetExceeded(Exception):
    pass


@contextlib.contextmanager
def counted_stages(counts):
    """count top-level simplify_once / lower_once calls and successful fusion passes; abort beyond the budget"""
    import dask_expr._expr as E
    from dask_expr import _core

    orig_s, orig_l, orig_sub = _core.Expr.simplify_once, _core.Expr.lower_once, _core.Expr.substitute
    depth = {"s": 0, "l": 0}

    def s_once(self, dependents, simplified):
        if depth["s"] == 0:
            counts["simplify_once"] += 1
            if counts["simplify_once"] > BUDGET["simplify_once"] * 4:
                raise BudgetExceeded("simplify_once")
        depth["s"] += 1
        try:
            return orig_s(self, dependents=dependents, simplified=simplified)
        finally:
            depth["s"] -= 1

    def l_once(self):
        if depth["l"] == 0:
            counts["lower_once"] += 1
            if counts["lower_once"] > BUDGET["lower_once"] * 4:
                raise BudgetExceeded("lower_once")
        depth["l"] += 1
        try:
            return orig_l(self)
        finally:
            depth["l"] -= 1

    def sub(self, old, new):
        if isinstance(new, E.Fused):
            counts["fusion_pass"] += 1
            if counts["fusion_pass"] > BUDGET["fusion_pass"] * 4:
                raise BudgetExceeded("fusion_pass")
        return orig_sub(self, old, new)

    _core.Expr.simplify_once, _core.Expr.lower_once, _core.Expr.substitute = s_once, l_once, sub
    try:
        yield counts
    finally:
        _core.Expr.simplify_once, _core.Expr.lower_once, _core.Expr.substitute = orig_s, orig_l, orig_sub


def _build(case):
    from harness import programs

    progs = {p.name: p for p in programs.valid_programs(case["depth"])}
    p = progs[case["program"]]
    env = programs.dask_env(case.get("cutsL"), case.get("cutsR"), case.get("known", True))
    r = p.fn(env)
    return p, (r if hasattr(r, "expr") else None)


def run_program_case(case):
    """-> (message or None, stats)"""
    try:
        p, coll = _build(case)
    except Exception:  # noqa: BLE001
        return None, None
    if coll is None:
        return None, None
    counts = collections.Counter()
    try:
        with counted_stages(counts):
            o1 = coll.expr.optimize()
    except BudgetExceeded as ex:
        return f"optimize() exceeded the step budget in stage {ex} ({dict(counts)})", dict(counts)
    except RuntimeError as ex:
        if "does not converge" in str(ex):
            return f"optimize() raised: {str(ex)[:200]}", dict(counts)
        return None, None  # other refusals are not this property's business
    except Exception:  # noqa: BLE001
        return None, None
    stats = dict(counts)
    for k, b in BUDGET.items():
        if counts[k] > b:
            return f"{k} ran {counts[k]} times (budget {b})", stats
    # repetition in the same process
    try:
        _, coll2 = _build(case)
        o1b = coll2.expr.optimize()
    except Exception as ex:  # noqa: BLE001
        return f"second optimize() of the same query raised {type(ex).__name__}: {str(ex)[:100]}", stats
    if coll2.expr._name == coll.expr._name and o1b._name != o1._name:
        return f"optimize(q)._name differs between two runs in one process: {o1._name} vs {o1b._name}", stats
    # optimize twice
    try:
        o2 = o1.optimize()
    except Exception as ex:  # noqa: BLE001
        return f"optimize(optimize(q)) raised {type(ex).__name__}: {str(ex)[:150]}", stats
    stats["same_name_twice"] = int(o2._name == o1._name)
    r1 = e2e.run_or_err(lambda: list(dask.get(dict(o1.__dask_graph__()), o1.__dask_keys__())))
    r2 = e2e.run_or_err(lambda: list(dask.get(dict(o2.__dask_graph__()), o2.__dask_keys__())))
    if r1[0] == "err" and r2[0] == "err":
        return None, stats
    if r1[0] != r2[0]:
        return f"only {'optimize(q)' if r1[0] == 'err' else 'optimize(optimize(q))'} fails at execution: {(r1 if r1[0] == 'err' else r2)[1:]}", stats
    if len(r1[1]) != len(r2[1]):
        return f"optimize(optimize(q)) has {len(r2[1])} partitions, optimize(q) {len(r1[1])}", stats
    unordered = p.unordered or any(type(e).__name__ in ("DiskShuffle", "P2PShuffle") for e in o1.walk())
    noindex = p.noindex
    def whole(parts):
        # the collection as a whole (which rows land in which partition is not part of the result, and is
        # unspecified after a disk shuffle followed by a positional repartition)
        parts = [p.to_series().reset_index(drop=True) if isinstance(p, pd.Index) else p for p in parts]
        return pd.concat(parts) if parts and all(isinstance(x, (pd.DataFrame, pd.Series)) for x in parts) else parts

    index_result = bool(r1[1]) and all(isinstance(x, pd.Index) for x in r1[1])
    noindex = noindex or index_result
    a, b = whole(r1[1]), whole(r2[1])
    if isinstance(a, list):
        same = all(e2e.same(x, y, sort_rows=unordered, drop_index=noindex) for x, y in zip(a, b))
    else:
        same = e2e.same(a, b, sort_rows=unordered, drop_index=noindex)
    if not same:
        return f"optimize(optimize(q)) computes something else: {e2e.describe(b, 6)!r:.200} vs {e2e.describe(a, 6)!r:.200}", stats
    return None, stats


_CHILD = r"""
import sys, json
sys.path.append({root!r})
import warnings; warnings.filterwarnings("ignore")
import dask; dask.config.set(scheduler="sync")
from harness import programs
cases = json.loads(sys.stdin.read())
progs = {{p.name: p for p in programs.valid_programs(2)}}
out = {{}}
for c in cases:
    try:
        if c.get("query"):
            from harness.props import c14
            r = dict(c14.real_queries())[c["query"]]()
            key = c["query"]
        else:
            p = progs[c["program"]]
            r = p.fn(programs.dask_env(c.get("cutsL"), c.get("cutsR"), c.get("known", True)))
            key = c["program"]
        if hasattr(r, "expr"):
            out[key] = [r.expr._name, r.expr.optimize(fuse=False)._name, r.expr.optimize()._name]
    except Exception as e:
        out[c.get("query") or c["program"]] = ["ERR", type(e).__name__, ""]
print(json.dumps(out))
"""


def _spawn(cases, hashseed):
    env = dict(os.environ)
    env["PYTHONHASHSEED"] = str(hashseed)
    # keep the parent's PYTHONPATH (a DX_REPO scratch copy of dask-expr comes first there)
    env["PYTHONPATH"] = os.pathsep.join([p for p in [os.environ.get("PYTHONPATH", ""), str(ROOT)] if p])
    p = subprocess.Popen([sys.executable, "-W", "ignore", "-c", _CHILD.format(root=str(ROOT))], stdin=subprocess.PIPE,
                         stdout=subprocess.PIPE, stderr=subprocess.PIPE, text=True, env=env)
    p.stdin.write(json.dumps(cases))
    p.stdin.close()
    return p


def names_in_fresh_processes(cases, seeds):
    """the children run concurrently"""
    procs = [_spawn(cases, s) for s in seeds]
    outs = []
    for p in procs:
        out = p.stdout.read()
        err = p.stderr.read()
        p.wait(timeout=1800)
        if p.returncode != 0:
            raise RuntimeError(f"child failed: {err[-400:]}")
        outs.append(json.loads(out.strip().splitlines()[-1]))
    return outs


def cross_process_failures(cases, seeds=(1, 2)):
    """names of the same query in fresh interpreters with different PYTHONHASHSEED:
    -> ([(case, stage, message)], number of queries compared)"""
    runs = names_in_fresh_processes(cases, seeds)
    fails = []
    compared = 0
    for c in cases:
        nm = c.get("query") or c["program"]
        vals = [r.get(nm) for r in runs]
        if any(v is None or v[0] == "ERR" for v in vals):
            continue
        if len({v[0] for v in vals}) != 1:
            continue  # the query itself has no process-independent name (a user function without a stable token)
        compared += 1
        if len({v[1] for v in vals}) != 1:
            fails.append((c, "simplified-physical", "optimize(q, fuse=False)._name depends on PYTHONHASHSEED: " + " vs ".join(
                f"seed {s}: {v[1]}" for s, v in zip(seeds, vals))))
        elif len({v[2] for v in vals}) != 1:
            fails.append((c, "fused", "optimize(q)._name depends on PYTHONHASHSEED (the unfused plan's name does not): " + " vs ".join(
                f"seed {s}: {v[2]}" for s, v in zip(seeds, vals))))
    return fails, compared


def run_case(case):
    if case["kind"] == "xproc":
        fails, _ = cross_process_failures([case["case"]], tuple(case.get("seeds", (1, 2, 3))))
        return (fails[0][2] if fails else None), None
    return run_program_case(case)


def _cases(ctx, broken):
    progs, idx = _program_slice(ctx, 200)
    layouts = [([0, 3, 6, 8], [0, 2, 6]), ([0, 8], [0, 6]), ([0, 2, 4, 6, 8], [0, 2, 4, 6])]
    cases = []
    for j, i in enumerate(idx):
        cl, cr = layouts[j % len(layouts)]
        cases.append({"kind": "program", "program": progs[i].name, "depth": 2, "cutsL": cl, "cutsR": cr, "known": j % 4 != 0})
    return cases


def _safe_program_case(case):
    try:
        return run_program_case(case)
    except Exception as e:  # noqa: BLE001
        return f"harness could not run the case: {type(e).__name__}: {str(e)[:200]}", None


def support(ctx, broken):
    sup = Support()
    cases = _cases(ctx, broken)
    hist = {k: collections.Counter() for k in BUDGET}
    same_twice = collections.Counter()
    per_sig = {}
    if ctx.quick:
        results = ((c, _safe_program_case(c)) for c in cases)
        pool = None
    else:
        import multiprocessing as mp

        pool = mp.get_context("fork").Pool(min(14, os.cpu_count() or 4))
        results = zip(cases, pool.imap(_safe_program_case, cases, chunksize=16))
    try:
        for case, (msg, stats) in results:
            sup.executed += 1
            if stats:
                for k in BUDGET:
                    hist[k][stats.get(k, 0)] += 1
                if "same_name_twice" in stats:
                    same_twice[stats["same_name_twice"]] += 1
            if len(sup.samples) < 3:
                sup.samples.append(case)
            if msg:
                sig = {"kind": "program", "what": msg.split(":")[0][:50]}
                k = json.dumps(sig, sort_keys=True)
                per_sig[k] = per_sig.get(k, 0) + 1
                if per_sig[k] <= 2:
                    sup.failures.append(Failure(sig=sig, case=case, detail=msg))
    finally:
        if pool is not None:
            pool.terminate()
    # cross-process names (one batch per seed): a slice of the programs plus the fusion corpus
    from harness.props import c14

    xcases = [c for c in cases if c["cutsL"] == [0, 3, 6, 8]][: (60 if ctx.quick else 2500)]
    xcases += [{"kind": "query", "query": name} for name, _ in c14.real_queries() if "/n2/" in name or not ctx.quick]
    try:
        fails, n = cross_process_failures(xcases)
        sup.executed += n
        sup.distribution["cross_process_queries_compared"] = n
        sup.distribution["cross_process_name_differs"] = len(fails)
        seen_stage = set()
        for c, stage, msg in fails:
            if stage in seen_stage:
                continue
            seen_stage.add(stage)
            sup.failures.append(Failure(sig={"kind": "xproc", "what": "optimize(q)._name depends on PYTHONHASHSEED", "stage": stage},
                                        case={"kind": "xproc", "case": c}, detail=msg))
    except Exception as e:  # noqa: BLE001
        sup.failures.append(Failure(sig={"kind": "xproc", "what": "child process failed"}, case={"kind": "xproc", "case": xcases[0]},
                                    detail=str(e)[:300]))
    for k in BUDGET:
        sup.distribution[f"{k}_max"] = max(hist[k]) if hist[k] else 0
        sup.distribution[f"{k}_hist"] = {str(a): b for a, b in sorted(hist[k].items())}
    sup.distribution["optimize_twice_same_name"] = {str(a): b for a, b in same_twice.items()}
    return sup


def replay(case):
    msg, _ = run_case(case)
    return Failure(sig={}, case=case, detail=msg) if msg else None
