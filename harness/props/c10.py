"""C10 — execution knobs change performance only, never results."""
from __future__ import annotations

import itertools

import numpy as np
import pandas as pd

from harness import e2e
from harness.core import Failure, Family, Support
from harness.props import c12

LEAN_MODULES = ["DxModel.Props.C10"]
GENERATED = []
TRUSTED = [
    "the selection thresholds themselves (n_low < log2(n_high)*bias, npartitions > max_branch, split_out tuning) are deliberately "
    "not modelled: the theorems quantify over both outcomes of every choice, so the float arithmetic cannot affect the result",
    "reduction triples satisfy the homomorphism law assumed by C10_split_every_value (validated per reduction in C02's helper family)",
]
PARTIAL = [
    "join-strategy and sort-partition-count corollaries are covered by the knob-grid search only (the Lean corollaries cover "
    "split_every and the shuffle method / max_branch choice)",
]
EXPLANATION = (
    "Theorems: every TreeReduce depth (split_every False or >= 2) aggregates the same chunk values; the three shuffle "
    "implementations and every staged configuration satisfy one specification. Tie: the exact graph-equality families of the "
    "TreeReduce and shuffle layers. Support: the knob grid split_every x split_out x shuffle method x max_branch x broadcast x "
    "npartitions hints x fuse for reductions, groupby, merges, sorts, unique/drop_duplicates/value_counts with partition counts "
    "on both sides of every selection threshold; results equal the default configuration and pandas."
)


def _frames():
    n = 40
    left = pd.DataFrame(
        {
            "k": np.arange(n, dtype="int64") % 7,
            "g": pd.array(["g%d" % (i % 5) for i in range(n)], dtype="object"),
            "v": np.arange(n, dtype="int64"),
            "w": (np.arange(n, dtype="int64") * 7) % 11,
            "f": pd.array([None if i in (13, 29) else float(i % 9) + 1.0 for i in range(n)], dtype="float64"),
        }
    )
    right = pd.DataFrame({"k": np.array([0, 1, 2, 3, 5, 8, 9, 3], dtype="int64"), "r": np.arange(8, dtype="int64") * 100})
    return left, right


def _knob_queries():
    """(name, pandas fn, dask fn(df, knobs) , knob grid, unordered)"""
    q = []
    se = [None, False, 2, 3, 8]
    so = [None, 1, 2, 3, True]
    sm = [None, "tasks", "disk"]
    q.append(("sum", lambda L, R: L.v.sum(), lambda L, R, k: L.v.sum(**_kw(split_every=k["se"])), {"se": se}, False))
    q.append(("frame_max", lambda L, R: L[["v", "w"]].max(), lambda L, R, k: L[["v", "w"]].max(**_kw(split_every=k["se"])), {"se": se}, False))
    q.append(("nunique", lambda L, R: L.k.nunique(), lambda L, R, k: L.k.nunique(**_kw(split_every=k["se"])), {"se": se}, False))
    q.append(("count", lambda L, R: L.count(), lambda L, R, k: L.count(**_kw(split_every=k["se"])), {"se": se}, False))
    for red in ("sum", "prod", "mean", "max"):
        for skipna in (True, False):
            q.append((f"{red}_skipna{int(skipna)}", lambda L, R, red=red, skipna=skipna: getattr(L.f, red)(skipna=skipna),
                      lambda L, R, k, red=red, skipna=skipna: getattr(L.f, red)(skipna=skipna, **_kw(split_every=k["se"])), {"se": se}, False))
    q.append(("frame_sum_skipna0", lambda L, R: L[["f", "v"]].sum(skipna=False),
              lambda L, R, k: L[["f", "v"]].sum(skipna=False, **_kw(split_every=k["se"])), {"se": se}, False))
    # keys with different names on the two sides: the broadcast side must be hashed by ITS key
    for how in ("inner", "left", "right"):
        q.append((f"merge_lr_{how}", lambda L, R, how=how: L.merge(R.rename(columns={"k": "kr"}), left_on="k", right_on="kr", how=how),
                  lambda L, R, k, how=how: L.merge(R.rename(columns={"k": "kr"}), left_on="k", right_on="kr", how=how, broadcast=k["bc"],
                                                   **({"shuffle_method": k["sm"]} if k["sm"] else {})),
                  {"bc": [None, True, False, 0.5], "sm": ["tasks", "disk"]}, True))
        q.append((f"merge_rl_{how}", lambda L, R, how=how: R.rename(columns={"k": "kr"}).merge(L, left_on="kr", right_on="k", how=how),
                  lambda L, R, k, how=how: R.rename(columns={"k": "kr"}).merge(L, left_on="kr", right_on="k", how=how, broadcast=k["bc"],
                                                   **({"shuffle_method": k["sm"]} if k["sm"] else {})),
                  {"bc": [None, True, False, 0.5], "sm": ["tasks", "disk"]}, True))
    q.append(("gb_sum", lambda L, R: L.groupby("k")[["v", "w"]].sum(),
              lambda L, R, k: L.groupby("k")[["v", "w"]].sum(**_kw(split_every=k["se"], split_out=k["so"])), {"se": se, "so": so}, True))
    q.append(("gb_agg2", lambda L, R: L.groupby(["k", "g"]).agg({"v": "max", "w": "count"}),
              lambda L, R, k: L.groupby(["k", "g"]).agg({"v": "max", "w": "count"}, **_kw(split_every=k["se"], split_out=k["so"], shuffle_method=k["sm"])),
              {"se": [None, 2], "so": so, "sm": sm}, True))
    q.append(("value_counts", lambda L, R: L.k.value_counts(),
              lambda L, R, k: L.k.value_counts(**_kw(split_every=k["se"], split_out=k["so"])), {"se": [None, 2], "so": so}, True))
    q.append(("unique", lambda L, R: pd.Series(L.g.unique(), name="g"),
              lambda L, R, k: L.g.unique(**_kw(split_every=k["se"], split_out=k["so"])), {"se": [None, 2], "so": so}, True))
    q.append(("drop_duplicates", lambda L, R: L[["k", "g"]].drop_duplicates(),
              lambda L, R, k: L[["k", "g"]].drop_duplicates(**_kw(split_every=k["se"], split_out=k["so"])), {"se": [None, 2], "so": so}, True))
    for how in ("inner", "left", "right", "outer"):
        q.append((f"merge_{how}", lambda L, R, how=how: L.merge(R, on="k", how=how),
                  lambda L, R, k, how=how: L.merge(R, on="k", how=how, broadcast=k["bc"],
                                                   **({"shuffle_method": k["sm"]} if k["sm"] else {}),
                                                   **({"npartitions": k["np"]} if k["np"] else {})),
                  {"bc": [None, True, False, 0.5], "sm": sm, "np": [None, 2, 5]}, True))
    q.append(("sort_values", lambda L, R: L.sort_values(["w", "v"]),
              lambda L, R, k: L.sort_values(["w", "v"], **({"npartitions": k["np"]} if k["np"] else {}),
                                            **({"shuffle_method": k["sm"]} if k["sm"] else {})),
              {"np": [None, 1, 2, 7], "sm": sm}, False))
    q.append(("set_index", lambda L, R: L.set_index("v"),
              lambda L, R, k: L.set_index("v", **({"npartitions": k["np"]} if k["np"] else {}),
                                          **({"shuffle_method": k["sm"]} if k["sm"] else {}), **({"upsample": k["up"]} if k["up"] else {})),
              {"np": [None, 1, 3, 9], "sm": sm, "up": [None, 2.0]}, False))
    q.append(("shuffle", lambda L, R: L,
              lambda L, R, k: L.shuffle("k", **({"max_branch": k["mb"]} if k["mb"] else {}),
                                        **({"shuffle_method": k["sm"]} if k["sm"] else {}),
                                        **({"npartitions": k["np"]} if k["np"] else {})),
              {"mb": [None, 2, 3, 4, 8], "sm": sm, "np": [None, 3, 9]}, True))
    return q


def _kw(**kw):
    """keyword arguments with the None-valued knobs left out (None = do not pass the knob)"""
    return {k: v for k, v in kw.items() if v is not None}


def _grid(g):
    keys = sorted(g)
    for vals in itertools.product(*[g[k] for k in keys]):
        yield dict(zip(keys, vals))


def run_case(case):
    import dask_expr as dx

    qs = {q[0]: q for q in _knob_queries()}
    name, pfn, dfn, grid, unordered = qs[case["query"]]
    Lp, Rp = _frames()
    if case.get("cat_keys"):
        Lp = Lp.assign(k=pd.Categorical(Lp.k))
        Rp = Rp.assign(k=pd.Categorical(Rp.k, categories=Lp.k.cat.categories.union(pd.Index(Rp.k.unique()))))
        Lp = Lp.assign(k=Lp.k.cat.set_categories(Rp.k.cat.categories))
    L = dx.from_pandas(Lp, npartitions=case["nl"], sort=False)
    R = dx.from_pandas(Rp, npartitions=case["nr"], sort=False)
    want = pfn(Lp, Rp)
    knobs = case["knobs"]
    try:
        q = dfn(L, R, knobs)
    except (TypeError, ValueError, NotImplementedError) as ex:
        return None  # knob combination rejected up front by the API: an explicit refusal
    try:
        got = q.optimize(fuse=case.get("fuse", True)).compute() if hasattr(q, "optimize") else q
    except Exception as ex:  # noqa: BLE001
        return f"raised {type(ex).__name__}: {str(ex)[:200]}"
    drop_index = name.startswith("merge") or name in ("unique", "shuffle", "drop_duplicates") and False
    if name in ("unique",):
        ok = sorted(map(str, pd.Series(got).tolist())) == sorted(map(str, want.tolist()))
    else:
        ok = e2e.same(got, want, sort_rows=unordered, drop_index=name.startswith("merge"))
    if not ok:
        return f"knobs {knobs}: result differs from pandas: got {e2e.describe(got, 6)} want {e2e.describe(want, 6)}"
    return None


def run_presorted_case(case):
    """Presorted fast path of set_index / sort_values: a key column that is weakly sorted across partitions,
    with equal keys straddling a partition border, still has to end up globally sorted with truthful divisions."""
    pdf = pd.DataFrame({"s": np.array([0, 1, 2, 3, 3, 4, 5, 6], dtype="int64"), "y": np.array([5, 1, 7, 9, 1, 3, 0, 2], dtype="int64")})
    df = e2e.frame_from_cuts(pdf, case["cuts"], known_divisions=False)
    if case["op"] == "set_index":
        q = df.set_index("s", shuffle_method="tasks")
        parts = e2e.compute_partitions(q)
        got = pd.concat(parts)
        want = pdf.set_index("s").sort_index(kind="stable")
        if not e2e.same(got, want, sort_rows=True):
            return f"set_index rows differ: {e2e.describe(got)}"
        if not got.index.is_monotonic_increasing:
            return f"set_index result not sorted by the new index: {got.index.tolist()}"
        o = q.optimize()
        if o.known_divisions:
            divs = o.divisions
            for i, p in enumerate(parts):
                if len(p) and (p.index.min() < divs[i] or p.index.max() > divs[i + 1] or (p.index.max() == divs[i + 1] and i < len(parts) - 1)):
                    return f"partition {i} holds index [{p.index.min()}, {p.index.max()}] but divisions are {divs}"
        return None
    q = df.sort_values(["s", "y"], shuffle_method="tasks")
    got = pd.concat(e2e.compute_partitions(q))
    keys = list(zip(got.s.tolist(), got.y.tolist()))
    if keys != sorted(keys):
        return f"sort_values(['s','y']) not globally sorted across partitions: {keys}"
    if sorted(keys) != sorted(zip(pdf.s.tolist(), pdf.y.tolist())):
        return "sort_values lost or duplicated rows"
    return None


def _cases(ctx, broken):
    cases = []
    for name, _, _, grid, _ in _knob_queries():
        combos = list(_grid(grid))
        for nl, nr in ((1, 1), (2, 1), (5, 2), (9, 3), (3, 9)):
            for kn in combos:
                for fuse in (True, False):
                    cases.append({"query": name, "nl": nl, "nr": nr, "knobs": kn, "fuse": fuse})
    # mixed key dtype: categorical-of-int keys on both sides (broadcast vs hash join must agree)
    for bc in (None, True, False):
        for nl, nr in ((5, 2), (9, 1)):
            cases.append({"query": "merge_left", "nl": nl, "nr": nr, "knobs": {"bc": bc, "sm": "tasks", "np": None}, "fuse": True, "cat_keys": True})
            cases.append({"query": "merge_inner", "nl": nl, "nr": nr, "knobs": {"bc": bc, "sm": "tasks", "np": None}, "fuse": True, "cat_keys": True})
    presorted = [{"kind": "presorted", "op": op, "cuts": cuts, "query": "presorted", "knobs": {}}
                 for op in ("set_index", "sort_values") for cuts in e2e.all_cuts(8, kmax=4)
                 if ctx.rng.random() < (0.35 if ctx.quick else 1.0) or cuts == [0, 4, 8]]
    ctx.rng.shuffle(cases)
    must = [c for c in cases if c.get("cat_keys")] + presorted
    must += [c for c in cases if "skipna0" in c["query"] and c["nl"] == 9 and c["knobs"].get("se") in (2, 3) and c["fuse"]]
    must += [c for c in cases if c["query"] in ("merge_lr_right", "merge_rl_left", "merge_rl_right", "merge_lr_left") and c["knobs"].get("bc") is True
             and c["knobs"].get("sm") == "tasks" and (c["nl"], c["nr"]) in ((5, 2), (3, 9)) and c["fuse"]]
    # broadcast joins with an npartitions hint below the partition count of the large side (D81)
    must += [c for c in cases if c["query"] in ("merge_left", "merge_right", "merge_inner") and c["knobs"].get("bc") is True
             and c["knobs"].get("sm") == "tasks" and c["knobs"].get("np") == 2 and (c["nl"], c["nr"]) in ((9, 3), (3, 9)) and c["fuse"]]
    if ctx.quick:
        cases = must + cases[:200]
    else:
        cases = must + cases
    return cases


def families(ctx):
    fams = [c12.fam_graphs]
    try:
        from harness.props import c02

        for fn in c02.families(ctx):
            if "tree" in fn.__name__.lower():
                fams.append(fn)
    except Exception:  # noqa: BLE001
        pass
    return fams


def support(ctx, broken):
    sup = Support()
    for case in _cases(ctx, broken):
        msg = run_presorted_case(case) if case.get("kind") == "presorted" else run_case(case)
        sup.executed += 1
        sup.count(case["query"])
        if len(sup.samples) < 3:
            sup.samples.append(case)
        if msg:
            sig = {"kind": case.get("kind", "knob"), "query": case["query"], "broadcast": case["knobs"].get("bc"), "cat_keys": bool(case.get("cat_keys"))}
            sup.failures.append(Failure(sig=sig, case=case, detail=msg))
            if len(sup.failures) >= 8:
                break
    return sup


def replay(case):
    msg = run_presorted_case(case) if case.get("kind") == "presorted" else run_case(case)
    return Failure(sig={}, case=case, detail=msg) if msg else None
