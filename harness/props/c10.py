"""C10 — execution knobs change performance only, never results."""
from __future__ import annotations

import itertools

import numpy as np
import pandas as pd

from harness import e2e
from harness.core import Failure, Family, Support, drive, first_diff
from harness.props import c12
from harness.render import Names, rgraph, rkey

LEAN_MODULES = ["DxModel.Props.C10"]
GENERATED = []
TRUSTED = [
    "the selection thresholds themselves (n_low < log2(n_high)*bias, npartitions > max_branch, split_out tuning) are deliberately "
    "not modelled: the theorems quantify over both outcomes of every choice, so the float arithmetic cannot affect the result "
    "(family plan_choice evaluates the float test in the harness and hands its outcome to the decision model)",
    "reduction triples satisfy the homomorphism law assumed by C10_split_every_value (validated per reduction in C02's helper family); "
    "C10_split_out is stated on the partial results (chunks): that aggregating the chunk rows of a group equals aggregating its original rows is that same law",
    "merge_chunk on one pair of frames is the abstract join `joinSpec` (inner/left/right/outer/leftsemi on key equality, null-free keys); "
    "pandas' own merge is not modelled",
    "the hash function: RearrangeByColumn and _split_partition_like_shuffle are `h(key) % m` for ONE function h (hypothesis of "
    "C10_join_broadcast_spec; validated on real frames of mixed key dtypes by family bucket_function_hypothesis)",
    "the per-partition sort kernel (pandas sort_values / sort_index) returns a permutation in the requested order (hypotheses hperm/hsorted of the C10_sort_* theorems)",
    "numpy searchsorted(side='right') on a sorted divisions vector = number of entries <= key (helper_spec[set_partitions_pre] compares the whole helper)",
    "harness/render.py + Driver/Knobs.lean canonical text of the BroadcastJoin graph",
]
PARTIAL = [
    "HashJoinP2P (needs `distributed`, not installed) is covered only as 'a hash join into n partitions'; its own layer is not transliterated",
    "joins on the index with known divisions on both sides (the fully-indexed Repartition path of Merge._lower) and merge_asof are not modelled; "
    "the join theorems are about keys without nulls",
    "sort theorems: integer keys without nulls, one sort key (the first `by` column decides the partition; further columns only matter inside the "
    "per-partition sort); the quantile SAMPLING is not modelled — its output is checked against the theorem's hypothesis (T3) on every run; "
    "user-supplied divisions that start above the smallest key are outside the hypothesis (C10_sort_below_first_division_counterexample shows what the code does then)",
    "split_out: `_adjust_split_out_for_group_keys` and the Repartition to split_out after the aggregation are not modelled (the theorem holds for every partition count; "
    "Repartition is C13's subject)",
    "fuse on/off is C14's theorem; C10 only samples it in the knob grid",
]
EXPLANATION = (
    "Theorems (Props/C10.lean): every TreeReduce depth aggregates the same chunk values; the three shuffle implementations and every staged "
    "configuration satisfy one specification; JOIN STRATEGY: the hash plan (any n, any how) and the BroadcastJoin plan (transliterated _layer graph; any "
    "partitioning and partition counts of both sides, with/without the npartitions-hint Repartition) both equal the join of the concatenated inputs for "
    "exactly the how x broadcast-side pairs in `allowed`, every other pair is refuted by a proven witness, and the decision code of Merge._lower "
    "(single-partition broadcast, is_broadcast_join for BOTH outcomes of the float threshold, broadcast=True/False/float, npartitions hint, method) is proven to pick "
    "only legal plans; SORT: partition assignment by set_partitions_pre (searchsorted + clamps) followed by a per-partition sort returns, for ANY divisions vector "
    "(any npartitions / upsample), a permutation of the input, and for every divisions vector whose first entry is not above the data the same sorted key sequence; "
    "SPLIT_OUT: hashing group keys into any n >= 1 partitions and aggregating group-wise per partition gives the groups of the tree reduction (also through the "
    "SimpleShuffle graph). Tie: exact graph equality of BroadcastJoin._layer, TreeReduce and shuffle layers; the plan read off the real Merge._lower over the whole "
    "knob grid = the decision model (and legal); set_partitions_pre helper conformance; the real divisions satisfy the sort theorem's hypothesis and the real "
    "partition layout equals the model pipeline's; bucket numbers of the two sides of a BroadcastJoin are one function of the key; ShuffleReduce's partition count. "
    "Support: the knob grid split_every x split_out x shuffle method x max_branch x broadcast x npartitions hints x fuse for reductions, groupby, merges (incl. "
    "leftsemi), sorts (asc/desc), unique/drop_duplicates/value_counts with partition counts on both sides of every selection threshold; results equal pandas."
)

def _frames():
    n = 40
    left = pd.DataFrame(
        {
            "k": np.arange(n, dtype="int64") % 7,
            "g": pd.array(["g%d" % (i % 5) for i in range(n)], dtype="object"),
            "v": np.arange(n, dtype="int64"),
            "w": (np.arange(n, dtype="int64") * 7) % 11,
            "f": pd.array([None if i in (13, 29) else float(i % 9) + 1.0 for i in range(n)], dtype="float64"),
        }
    )
    right = pd.DataFrame({"k": np.array([0, 1, 2, 3, 5, 8, 9, 3], dtype="int64"), "r": np.arange(8, dtype="int64") * 100})
    return left, right


def _knob_queries():
    """(name, pandas fn, dask fn(df, knobs) , knob grid, unordered)"""
    q = []
    se = [None, False, 2, 3, 8]
    so = [None, 1, 2, 3, True]
    sm = [None, "tasks", "disk"]
    q.append(("sum", lambda L, R: L.v.sum(), lambda L, R, k: L.v.sum(**_kw(split_every=k["se"])), {"se": se}, False))
    q.append(("frame_max", lambda L, R: L[["v", "w"]].max(), lambda L, R, k: L[["v", "w"]].max(**_kw(split_every=k["se"])), {"se": se}, False))
    q.append(("nunique", lambda L, R: L.k.nunique(), lambda L, R, k: L.k.nunique(**_kw(split_every=k["se"])), {"se": se}, False))
    q.append(("count", lambda L, R: L.count(), lambda L, R, k: L.count(**_kw(split_every=k["se"])), {"se": se}, False))
    for red in ("sum", "prod", "mean", "max"):
        for skipna in (True, False):
            q.append((f"{red}_skipna{int(skipna)}", lambda L, R, red=red, skipna=skipna: getattr(L.f, red)(skipna=skipna),
                      lambda L, R, k, red=red, skipna=skipna: getattr(L.f, red)(skipna=skipna, **_kw(split_every=k["se"])), {"se": se}, False))
    q.append(("frame_sum_skipna0", lambda L, R: L[["f", "v"]].sum(skipna=False),
              lambda L, R, k: L[["f", "v"]].sum(skipna=False, **_kw(split_every=k["se"])), {"se": se}, False))
    # keys with different names on the two sides: the broadcast side must be hashed by ITS key
    for how in ("inner", "left", "right"):
        q.append((f"merge_lr_{how}", lambda L, R, how=how: L.merge(R.rename(columns={"k": "kr"}), left_on="k", right_on="kr", how=how),
                  lambda L, R, k, how=how: L.merge(R.rename(columns={"k": "kr"}), left_on="k", right_on="kr", how=how, broadcast=k["bc"],
                                                   **({"shuffle_method": k["sm"]} if k["sm"] else {})),
                  {"bc": [None, True, False, 0.5], "sm": ["tasks", "disk"]}, True))
        q.append((f"merge_rl_{how}", lambda L, R, how=how: R.rename(columns={"k": "kr"}).merge(L, left_on="kr", right_on="k", how=how),
                  lambda L, R, k, how=how: R.rename(columns={"k": "kr"}).merge(L, left_on="kr", right_on="k", how=how, broadcast=k["bc"],
                                                   **({"shuffle_method": k["sm"]} if k["sm"] else {})),
                  {"bc": [None, True, False, 0.5], "sm": ["tasks", "disk"]}, True))
    q.append(("gb_sum", lambda L, R: L.groupby("k")[["v", "w"]].sum(),
              lambda L, R, k: L.groupby("k")[["v", "w"]].sum(**_kw(split_every=k["se"], split_out=k["so"])), {"se": se, "so": so}, True))
    q.append(("gb_agg2", lambda L, R: L.groupby(["k", "g"]).agg({"v": "max", "w": "count"}),
              lambda L, R, k: L.groupby(["k", "g"]).agg({"v": "max", "w": "count"}, **_kw(split_every=k["se"], split_out=k["so"], shuffle_method=k["sm"])),
              {"se": [None, 2], "so": so, "sm": sm}, True))
    q.append(("value_counts", lambda L, R: L.k.value_counts(),
              lambda L, R, k: L.k.value_counts(**_kw(split_every=k["se"], split_out=k["so"])), {"se": [None, 2], "so": so}, True))
    q.append(("unique", lambda L, R: pd.Series(L.g.unique(), name="g"),
              lambda L, R, k: L.g.unique(**_kw(split_every=k["se"], split_out=k["so"])), {"se": [None, 2], "so": so}, True))
    q.append(("drop_duplicates", lambda L, R: L[["k", "g"]].drop_duplicates(),
              lambda L, R, k: L[["k", "g"]].drop_duplicates(**_kw(split_every=k["se"], split_out=k["so"])), {"se": [None, 2], "so": so}, True))
    for how in ("inner", "left", "right", "outer"):
        q.append((f"merge_{how}", lambda L, R, how=how: L.merge(R, on="k", how=how),
                  lambda L, R, k, how=how: L.merge(R, on="k", how=how, broadcast=k["bc"],
                                                   **({"shuffle_method": k["sm"]} if k["sm"] else {}),
                                                   **({"npartitions": k["np"]} if k["np"] else {})),
                  {"bc": [None, True, False, 0.5], "sm": sm, "np": [None, 2, 5]}, True))
    # leftsemi: every left row with a partner exactly once (D87: never broadcast the left side)
    q.append(("merge_leftsemi", lambda L, R: L[L.k.isin(R.k)],
              lambda L, R, k: L.merge(R[["k"]], on="k", how="leftsemi", broadcast=k["bc"],
                                      **({"shuffle_method": k["sm"]} if k["sm"] else {}),
                                      **({"npartitions": k["np"]} if k["np"] else {})),
              {"bc": [None, True, False, 0.5], "sm": ["tasks", "disk"], "np": [None, 2]}, True))
    q.append(("sort_values", lambda L, R: L.sort_values(["w", "v"]),
              lambda L, R, k: L.sort_values(["w", "v"], **({"npartitions": k["np"]} if k["np"] else {}),
                                            **({"shuffle_method": k["sm"]} if k["sm"] else {})),
              {"np": [None, 1, 2, 7], "sm": sm}, False))
    q.append(("sort_values_desc", lambda L, R: L.sort_values(["w", "v"], ascending=False),
              lambda L, R, k: L.sort_values(["w", "v"], ascending=False, **({"npartitions": k["np"]} if k["np"] else {}),
                                            **({"upsample": k["up"]} if k["up"] else {}), shuffle_method="tasks"),
              {"np": [None, 2, 7], "up": [None, 3.0]}, False))
    q.append(("set_index", lambda L, R: L.set_index("v"),
              lambda L, R, k: L.set_index("v", **({"npartitions": k["np"]} if k["np"] else {}),
                                          **({"shuffle_method": k["sm"]} if k["sm"] else {}), **({"upsample": k["up"]} if k["up"] else {})),
              {"np": [None, 1, 3, 9], "sm": sm, "up": [None, 2.0]}, False))
    q.append(("shuffle", lambda L, R: L,
              lambda L, R, k: L.shuffle("k", **({"max_branch": k["mb"]} if k["mb"] else {}),
                                        **({"shuffle_method": k["sm"]} if k["sm"] else {}),
                                        **({"npartitions": k["np"]} if k["np"] else {})),
              {"mb": [None, 2, 3, 4, 8], "sm": sm, "np": [None, 3, 9]}, True))
    return q


def _kw(**kw):
    """keyword arguments with the None-valued knobs left out (None = do not pass the knob)"""
    return {k: v for k, v in kw.items() if v is not None}


def _grid(g):
    keys = sorted(g)
    for vals in itertools.product(*[g[k] for k in keys]):
        yield dict(zip(keys, vals))


def run_case(case):
    import dask_expr as dx

    qs = {q[0]: q for q in _knob_queries()}
    name, pfn, dfn, grid, unordered = qs[case["query"]]
    Lp, Rp = _frames()
    if case.get("cat_keys"):
        Lp = Lp.assign(k=pd.Categorical(Lp.k))
        Rp = Rp.assign(k=pd.Categorical(Rp.k, categories=Lp.k.cat.categories.union(pd.Index(Rp.k.unique()))))
        Lp = Lp.assign(k=Lp.k.cat.set_categories(Rp.k.cat.categories))
    L = dx.from_pandas(Lp, npartitions=case["nl"], sort=False)
    R = dx.from_pandas(Rp, npartitions=case["nr"], sort=False)
    want = pfn(Lp, Rp)
    knobs = case["knobs"]
    try:
        q = dfn(L, R, knobs)
    except (TypeError, ValueError, NotImplementedError) as ex:
        return None  # knob combination rejected up front by the API: an explicit refusal
    try:
        got = q.optimize(fuse=case.get("fuse", True)).compute() if hasattr(q, "optimize") else q
    except Exception as ex:  # noqa: BLE001
        return f"raised {type(ex).__name__}: {str(ex)[:200]}"
    drop_index = name.startswith("merge") or name in ("unique", "shuffle", "drop_duplicates") and False
    if name in ("unique",):
        ok = sorted(map(str, pd.Series(got).tolist())) == sorted(map(str, want.tolist()))
    else:
        ok = e2e.same(got, want, sort_rows=unordered, drop_index=name.startswith("merge"))
    if not ok:
        return f"knobs {knobs}: result differs from pandas: got {e2e.describe(got, 6)} want {e2e.describe(want, 6)}"
    return None


def run_presorted_case(case):
    """Presorted fast path of set_index / sort_values: a key column that is weakly sorted across partitions,
    with equal keys straddling a partition border, still has to end up globally sorted with truthful divisions."""
    pdf = pd.DataFrame({"s": np.array([0, 1, 2, 3, 3, 4, 5, 6], dtype="int64"), "y": np.array([5, 1, 7, 9, 1, 3, 0, 2], dtype="int64")})
    df = e2e.frame_from_cuts(pdf, case["cuts"], known_divisions=False)
    if case["op"] == "set_index":
        q = df.set_index("s", shuffle_method="tasks")
        parts = e2e.compute_partitions(q)
        got = pd.concat(parts)
        want = pdf.set_index("s").sort_index(kind="stable")
        if not e2e.same(got, want, sort_rows=True):
            return f"set_index rows differ: {e2e.describe(got)}"
        if not got.index.is_monotonic_increasing:
            return f"set_index result not sorted by the new index: {got.index.tolist()}"
        o = q.optimize()
        if o.known_divisions:
            divs = o.divisions
            for i, p in enumerate(parts):
                if len(p) and (p.index.min() < divs[i] or p.index.max() > divs[i + 1] or (p.index.max() == divs[i + 1] and i < len(parts) - 1)):
                    return f"partition {i} holds index [{p.index.min()}, {p.index.max()}] but divisions are {divs}"
        return None
    if case["op"] == "sort_values_desc":
        # staggered newest-first chunks: per-partition minima and maxima both decrease but neighbouring ranges may overlap
        pdf = pd.DataFrame({"s": np.array([30, 25, 20, 25, 20, 15, 20, 15, 10], dtype="int64"), "y": np.arange(9, dtype="int64")})
        df = e2e.frame_from_cuts(pdf, case["cuts"], known_divisions=False)
        got = pd.concat(e2e.compute_partitions(df.sort_values("s", ascending=False, shuffle_method="tasks")))
        if got.s.tolist() != sorted(pdf.s.tolist(), reverse=True):
            return f"sort_values('s', ascending=False) not globally sorted (descending): {got.s.tolist()}"
        if sorted(got.y.tolist()) != pdf.y.tolist():
            return "sort_values(ascending=False) lost or duplicated rows"
        return None
    q = df.sort_values(["s", "y"], shuffle_method="tasks")
    got = pd.concat(e2e.compute_partitions(q))
    keys = list(zip(got.s.tolist(), got.y.tolist()))
    if keys != sorted(keys):
        return f"sort_values(['s','y']) not globally sorted across partitions: {keys}"
    if sorted(keys) != sorted(zip(pdf.s.tolist(), pdf.y.tolist())):
        return "sort_values lost or duplicated rows"
    return None


def _cases(ctx, broken):
    cases = []
    for name, _, _, grid, _ in _knob_queries():
        combos = list(_grid(grid))
        for nl, nr in ((1, 1), (2, 1), (5, 2), (9, 3), (3, 9)):
            for kn in combos:
                for fuse in (True, False):
                    cases.append({"query": name, "nl": nl, "nr": nr, "knobs": kn, "fuse": fuse})
    # leftsemi with (far) fewer left than right partitions: the automatic broadcast threshold is met for (1, 8)
    semi = []
    for nl, nr in ((1, 8), (2, 4), (2, 8)):
        for kn in _grid({"bc": [None, True, False], "sm": ["tasks"], "np": [None, 2]}):
            semi.append({"query": "merge_leftsemi", "nl": nl, "nr": nr, "knobs": kn, "fuse": True})
    cases += semi
    # mixed key dtype: categorical-of-int keys on both sides (broadcast vs hash join must agree)
    for bc in (None, True, False):
        for nl, nr in ((5, 2), (9, 1)):
            cases.append({"query": "merge_left", "nl": nl, "nr": nr, "knobs": {"bc": bc, "sm": "tasks", "np": None}, "fuse": True, "cat_keys": True})
            cases.append({"query": "merge_inner", "nl": nl, "nr": nr, "knobs": {"bc": bc, "sm": "tasks", "np": None}, "fuse": True, "cat_keys": True})
    presorted = [{"kind": "presorted", "op": op, "cuts": cuts, "query": "presorted", "knobs": {}}
                 for op in ("set_index", "sort_values") for cuts in e2e.all_cuts(8, kmax=4)
                 if ctx.rng.random() < (0.35 if ctx.quick else 1.0) or cuts == [0, 4, 8]]
    presorted += [{"kind": "presorted", "op": "sort_values_desc", "cuts": cuts, "query": "presorted", "knobs": {}}
                  for cuts in e2e.all_cuts(9, kmax=4) if ctx.rng.random() < (0.3 if ctx.quick else 1.0) or cuts == [0, 3, 6, 9]]
    ctx.rng.shuffle(cases)
    must = [c for c in cases if c.get("cat_keys")] + presorted
    # D87 regression: leftsemi must never broadcast its left side (automatic pick at 1 vs 8 partitions, forced at 2 vs 4)
    must += [c for c in semi if c["knobs"]["np"] is None and c["knobs"]["bc"] in (None, True) and (c["nl"], c["nr"]) in ((1, 8), (2, 4))]
    must += [c for c in cases if "skipna0" in c["query"] and c["nl"] == 9 and c["knobs"].get("se") in (2, 3) and c["fuse"]]
    must += [c for c in cases if c["query"] in ("merge_lr_right", "merge_rl_left", "merge_rl_right", "merge_lr_left") and c["knobs"].get("bc") is True
             and c["knobs"].get("sm") == "tasks" and (c["nl"], c["nr"]) in ((5, 2), (3, 9)) and c["fuse"]]
    # broadcast joins with an npartitions hint below the partition count of the large side (D81)
    must += [c for c in cases if c["query"] in ("merge_left", "merge_right", "merge_inner") and c["knobs"].get("bc") is True
             and c["knobs"].get("sm") == "tasks" and c["knobs"].get("np") == 2 and (c["nl"], c["nr"]) in ((9, 3), (3, 9)) and c["fuse"]]
    # steer the search by what broke (families / theorems about joins, sorts, split_out)
    txt = " ".join(str(b.get("family", "")) + " " + str(b.get("theorem", "")) + " " + str(b.get("module", "")) for b in (broken or []))
    steer = []
    if any(w in txt for w in ("Merge._lower", "BroadcastJoin", "bucket_function", "C10_join")):
        steer += [c for c in cases if c["query"].startswith("merge")]
    if any(w in txt for w in ("set_partitions_pre", "sort_divisions", "pipeline_layout", "presorted", "C10_sort")):
        steer += [c for c in cases if c["query"].startswith(("sort_values", "set_index"))]
    if any(w in txt for w in ("shuffle_npartitions", "C10_split_out")):
        steer += [c for c in cases if c["query"] in ("gb_sum", "gb_agg2", "value_counts", "unique", "drop_duplicates")]
    if ctx.quick:
        cases = must + steer[:400] + cases[:200]
    else:
        cases = must + steer + cases
    return cases


# --------------------------------------------------------------------------- T2: BroadcastJoin._layer


def _join_frames(nl, nr):
    import dask_expr as dx

    Lp = pd.DataFrame({"kl": np.arange(12, dtype="int64") % 5, "v": np.arange(12, dtype="int64")})
    Rp = pd.DataFrame({"kr": np.arange(12, dtype="int64") % 3, "r": np.arange(12, dtype="int64")})
    return dx.from_pandas(Lp, npartitions=nl, sort=False), dx.from_pandas(Rp, npartitions=nr, sort=False)


def _bj_special():
    import operator

    from dask.dataframe.multi import _concat_wrapper, _merge_chunk_wrapper
    from dask.utils import apply

    from dask_expr._merge import _split_partition_like_shuffle

    def r_split(t, names):
        _, key, on, n = t
        on = {"kl": "left_on", "kr": "right_on"}.get(on, repr(on))
        return f"split_like_shuffle({rkey(key, names)},on={on},n={n})"

    def r_arg(a, names):
        if isinstance(a, tuple) and a and a[0] is operator.getitem:
            return f"getitem({rkey(a[1], names)},{a[2]})"
        return rkey(a, names)

    def r_apply(t, names):
        _, fn, args, kw = t
        if fn is not _merge_chunk_wrapper or len(args) != 2:
            return "apply:?"
        return f"merge_chunk({r_arg(args[0], names)},{r_arg(args[1], names)},how={kw['how']})"

    def r_concat(t, names):
        return f"concat([{','.join(rkey(k, names) for k in t[1])}])"

    return {_split_partition_like_shuffle: r_split, apply: r_apply, _concat_wrapper: r_concat}


def fam_broadcast_layer(ctx):
    """T2: exact equality of the dict returned by BroadcastJoin._layer() with the model's listing."""
    from dask_expr._merge import BroadcastJoin

    f = Family("graph_equality[BroadcastJoin._layer]")
    nmax = 4 if ctx.quick else 6
    reqs, code, inputs, nontriv = [], [], [], []
    special = _bj_special()
    for how in ("inner", "left", "right", "leftsemi"):
        for side in ("left", "right"):
            for nl in range(1, nmax + 1):
                for nr in range(1, nmax + 1):
                    nother = nr if side == "left" else nl
                    bsize = nl if side == "left" else nr
                    subsets = [None]
                    if nother >= 2:
                        subsets += [[nother - 1, 0], [1]]
                    if nother >= 3 and not ctx.quick:
                        subsets += [[2, 0, 1], [0, 2]]
                    for parts in subsets:
                        L, R = _join_frames(nl, nr)
                        e = BroadcastJoin(L.expr, R.expr, how, "kl", "kr", False, False, ("_x", "_y"), False, parts, side)
                        try:
                            text = "G " + rgraph(e._layer(), Names(e._name, [L.expr._name, R.expr._name]), special)
                        except Exception as ex:  # noqa: BLE001
                            text = f"ERR {type(ex).__name__}"
                        eff = parts if parts is not None else list(range(nother))
                        reqs.append(f"knob layer how={how} side={side} parts={','.join(map(str, eff)) or '-'} bsize={bsize}")
                        code.append(text)
                        inputs.append({"how": how, "side": side, "nl": nl, "nr": nr, "parts": parts})
                        nontriv.append(how != "inner" or parts is not None or bsize > 1)
    model = drive(reqs)
    f.compare(inputs, code, model, nontriv)
    for d in f.disagreements:
        if d:
            d["diff"] = first_diff(d["code"], d["model"])
    f.exhaustive = True
    f.note = f"how in inner/left/right/leftsemi x broadcast side x nl,nr<= {nmax} x partition selections"
    return f


# --------------------------------------------------------------------------- T1/T2: the plan Merge._lower picks

_HOWS = ("inner", "left", "right", "outer", "leftsemi")
_PAIRS = [(1, 1), (1, 3), (3, 1), (1, 9), (9, 1), (2, 2), (3, 3), (2, 5), (5, 2), (2, 9), (9, 2), (4, 12), (12, 4), (3, 12), (12, 3), (7, 8)]
_BCASTS = [None, True, False, 0.1, 0.5, 1.0, 2.5, 6.0]
_HINTS = [None, 1, 2, 6, 20]
_METHODS = ["tasks", "disk", None, "p2p"]


def real_plan(how, nl, nr, bc, hint, method):
    """The physical join plan read off `Merge._lower()` of the real expression."""
    import dask_expr as dx
    from dask_expr._merge import BlockwiseMerge, BroadcastJoin, HashJoinP2P
    from dask_expr._repartition import Repartition
    from dask_expr._shuffle import RearrangeByColumn

    n = 12
    Lp = pd.DataFrame({"k": np.arange(n, dtype="int64") % 5, "v": np.arange(n, dtype="int64")})
    Rp = pd.DataFrame({"k": np.arange(n, dtype="int64") % 3, "r": np.arange(n, dtype="int64")})
    L = dx.from_pandas(Lp, npartitions=nl, sort=False)
    R = dx.from_pandas(Rp, npartitions=nr, sort=False)
    assert L.npartitions == nl and R.npartitions == nr
    kw = {}
    if method is not None:
        kw["shuffle_method"] = method
    m = L.merge(R, on="k", how=how, broadcast=bc, npartitions=hint, **kw).expr
    lo = m._lower()
    left0, right0 = m.left._name, m.right._name  # (leftsemi: merge() projects/renames the right frame first)

    def strip(e):
        """(is it one of the original frames possibly behind a Repartition, npartitions)"""
        while isinstance(e, Repartition):
            e = e.frame
        return e._name in (left0, right0)

    if isinstance(lo, BroadcastJoin):
        side = lo.broadcast_side
        other, bcast = (lo.left, lo.right) if side == "right" else (lo.right, lo.left)
        shuffled = isinstance(bcast, RearrangeByColumn)
        if shuffled and bcast.npartitions_out != bcast.frame.npartitions:
            return "broadcast with a broadcast side shuffled to another partition count"
        if isinstance(other, RearrangeByColumn) or not strip(other):
            return "broadcast with a shuffled other side"
        if lo.how != how:
            return f"broadcast with how={lo.how}"
        # the requested partition count of the other side (a Repartition to the hint; 12 rows cannot always be cut into 20 pieces)
        nother = other.operand("new_partitions") if isinstance(other, Repartition) else other.npartitions
        return f"broadcast side={side} nother={nother} bsize={bcast.npartitions} shuffled={int(shuffled)}"
    if isinstance(lo, HashJoinP2P):
        return f"hash n={lo.npartitions} p2p=1"
    if isinstance(lo, BlockwiseMerge):
        l, r = lo.left, lo.right
        if l._name == left0 and r._name == right0:
            return "single"
        if isinstance(l, RearrangeByColumn) and isinstance(r, RearrangeByColumn) and l.npartitions_out == r.npartitions_out:
            return f"hash n={l.npartitions_out} p2p=0"
        return f"blockwise of {type(l).__name__}/{type(r).__name__}"
    return type(lo).__name__


def fam_merge_lower(ctx):
    """T1/T2: the plan chosen by the real Merge._lower (read off the lowered expression) equals the model's
    decision for the same knobs, and that plan is legal for `how` (Lean `planLegal`, proven for the model by
    C10_join_lower_legal).  The float threshold test is evaluated by the harness and handed to the model."""
    import math

    from dask.utils import get_default_shuffle_method

    f = Family("plan_choice[Merge._lower: how x partitions x broadcast x npartitions hint x method]")
    grid = [(h, p, b, hint, m) for h in _HOWS for p in _PAIRS for b in _BCASTS for hint in _HINTS for m in _METHODS]
    if ctx.quick:
        must = [g for g in grid if g[0] == "leftsemi" and g[1] in ((1, 9), (2, 5), (3, 12)) and g[2] in (None, True) and g[4] == "tasks"]
        must += [g for g in grid if g[0] in ("left", "right") and g[2] is True and g[3] in (None, 2) and g[4] == "tasks" and g[1] in ((2, 5), (5, 2), (12, 3), (3, 12))]
        rest = [g for g in grid if g not in set(must)]
        ctx.rng.shuffle(rest)
        grid = must + rest[:1100]
    default = get_default_shuffle_method()
    reqs, code, inputs, nontriv = [], [], [], []
    for how, (nl, nr), bc, hint, method in grid:
        try:
            plan = real_plan(how, nl, nr, bc, hint, method)
        except Exception as ex:  # noqa: BLE001
            plan = f"ERR {type(ex).__name__}: {str(ex)[:80]}"
        bias = bc if isinstance(bc, float) else 0.5
        n_low, n_high = min(nl, nr), max(nl, nr)
        thr = n_low < math.log2(n_high) * bias
        bcs = "bias" if isinstance(bc, float) else {None: "none", True: "yes", False: "no"}[bc]
        meth = method or default
        reqs.append(f"knob mergelower how={how} nl={nl} nr={nr} bcast={bcs} method={meth} hint={hint if hint is not None else '-'} thr={int(thr)}")
        code.append(plan + " legal=1")
        inputs.append({"how": how, "nl": nl, "nr": nr, "broadcast": bc, "npartitions": hint, "shuffle_method": method, "thr": thr})
        nontriv.append(not plan.startswith("single"))
    model = drive(reqs)
    f.compare(inputs, code, model, nontriv)
    f.exhaustive = not ctx.quick
    f.note = (f"{len(_HOWS)} how x {len(_PAIRS)} partition pairs (both sides of n_low < log2(n_high)*bias) x {len(_BCASTS)} broadcast values x "
              f"{len(_HINTS)} hints x {len(_METHODS)} methods; default method here = {default}; plans seen: "
              + ",".join(sorted({c.split()[0] + ("-" + c.split()[1] if c.startswith("broadcast") else "") for c in code})))
    return f


# --------------------------------------------------------------------------- T3: both sides of a BroadcastJoin use one bucket function


def fam_bucket_function(ctx):
    """T3: hypothesis of C10_join_broadcast_spec for how != inner — the hash-shuffled broadcast side
    (`RearrangeByColumn(npartitions_out=m)`) and `_split_partition_like_shuffle(other, on, m)` put a key into
    the same bucket number (< m), i.e. both are `h(key) % m` for ONE function h; checked by the driver."""
    import dask_expr as dx
    from dask_expr._merge import _split_partition_like_shuffle
    from dask_expr._shuffle import RearrangeByColumn

    f = Family("bucket_function_hypothesis[RearrangeByColumn vs _split_partition_like_shuffle]")
    rng = ctx.rng
    reqs, inputs = [], []
    dtypes = ["int64", "float64", "int32", "cat", "str"]
    for it in range(40 if ctx.quick else 400):
        m = rng.randint(1, 5)
        nb = rng.randint(4, 14)
        no = rng.randint(1, 12)
        dt_b = rng.choice(dtypes)
        dt_o = dt_b if dt_b in ("cat", "str") or rng.random() < 0.5 else rng.choice(["int64", "float64", "int32"])
        kb = [rng.randint(0, 7) for _ in range(nb)]
        ko = [rng.randint(0, 9) for _ in range(no)]

        def col(vals, dt):
            if dt == "cat":
                return pd.Categorical(vals, categories=list(range(10)))
            if dt == "str":
                return pd.array(["s%d" % v for v in vals], dtype="object")
            return np.array(vals, dtype=dt)

        B = pd.DataFrame({"kb": col(kb, dt_b), "x": np.arange(nb)})
        O = pd.DataFrame({"ko": col(ko, dt_o), "y": np.arange(no)})
        bexpr = dx.from_pandas(B, npartitions=m, sort=False).expr
        if bexpr.npartitions != m:
            continue
        parts = e2e.compute_partitions(dx.new_collection(RearrangeByColumn(bexpr, "kb", npartitions_out=m)), optimize=True)
        if len(parts) != m:
            continue
        pieces = _split_partition_like_shuffle(O, "ko", m)
        keys, buckets = [], []

        def code_of(v):
            return int(str(v)[1:]) if isinstance(v, str) else int(v)

        for j, pj in enumerate(parts):
            for v in pj["kb"].tolist():
                keys.append(code_of(v)); buckets.append(j)
        for j in range(m):
            for v in pieces[j]["ko"].tolist():
                keys.append(code_of(v)); buckets.append(j)
        if len(keys) != nb + no:
            reqs.append("knob bucketfn m=0 keys=0 buckets=0")  # rows lost: reported as FAIL
        else:
            reqs.append(f"knob bucketfn m={m} keys={','.join(map(str, keys))} buckets={','.join(map(str, buckets))}")
        inputs.append({"m": m, "dtype_bcast": dt_b, "dtype_other": dt_o, "keys_bcast": kb, "keys_other": ko})
    model = drive(reqs)
    f.compare(inputs, ["OK"] * len(reqs), model, [i["m"] > 1 for i in inputs])
    f.note = "key dtypes int64/int32/float64 (mixed across the sides), categorical-of-int, object strings; m in 1..5"
    return f


# --------------------------------------------------------------------------- T4: set_partitions_pre


def fam_set_partitions_pre(ctx):
    """T4: dask's set_partitions_pre (searchsorted side=right, the two clamps) agrees with the Lean model."""
    from dask.dataframe.shuffle import set_partitions_pre

    f = Family("helper_spec[set_partitions_pre]")
    reqs, code, inputs = [], [], []
    vals = list(range(0, 5))
    divs = [list(c) for n in (2, 3, 4) for c in itertools.combinations_with_replacement(vals, n)]
    rng = ctx.rng
    for _ in range(60 if ctx.quick else 600):
        n = rng.randint(2, 8)
        divs.append(sorted(rng.randint(-20, 20) for _ in range(n)))
    keys_small = list(range(-1, 6))
    for d in divs:
        small = max(d) <= 4 and min(d) >= 0
        keys = keys_small if small else [rng.randint(-25, 25) for _ in range(10)]
        for asc in (True, False):
            got = set_partitions_pre(pd.Series(np.array(keys, dtype="int64")), pd.Series(np.array(d, dtype="int64")), ascending=asc)
            code.append(",".join(str(int(x)) for x in got))
            reqs.append(f"knob setpartitionspre d={','.join(map(str, d))} asc={int(asc)} keys={','.join(map(str, keys))}")
            inputs.append({"divisions": d, "ascending": asc, "keys": keys})
    model = drive(reqs)
    f.compare(inputs, code, model)
    f.exhaustive = True
    f.note = "all sorted divisions over {0..4} of length 2..4 (duplicates included) x keys -1..5 (below the first / above the last division) x ascending/descending; random wider vectors"
    return f


# --------------------------------------------------------------------------- T3 + T2: the sort pipeline on real queries


def _sort_runs(ctx):
    """Real sort_values / set_index queries: (inputs, divisions handed to set_partitions_pre, keys per output partition)."""
    cached = getattr(ctx, "_c10_sort_runs", None)
    if cached is not None:
        return cached
    import dask_expr as dx
    from dask_expr._shuffle import _SetPartitionsPreSetIndex

    rng = random_for(ctx)
    runs = []
    n_cases = 36 if ctx.quick else 400
    for it in range(n_cases):
        n = rng.randint(6, 40)
        hi = rng.choice([4, 12, 1000])
        keys = [rng.randint(-3, hi) for _ in range(n)]
        pdf = pd.DataFrame({"a": np.array(keys, dtype="int64"), "b": np.arange(n, dtype="int64")})
        nin = rng.randint(2, 7)
        op = rng.choice(["sort_values", "sort_values", "set_index"])
        asc = True if op == "set_index" else rng.random() < 0.6
        npart = rng.choice([None, None, 2, 3, 5, 9])
        up = rng.choice([None, 1.0, 2.0, 5.0])
        method = rng.choice(["tasks", "disk"])
        df = dx.from_pandas(pdf, npartitions=nin, sort=False)
        kw = {"shuffle_method": method}
        if npart:
            kw["npartitions"] = npart
        if up:
            kw["upsample"] = up
        case = {"op": op, "keys": keys, "nin": nin, "ascending": asc, "npartitions": npart, "upsample": up, "shuffle_method": method}
        try:
            q = df.sort_values("a", ascending=asc, **kw) if op == "sort_values" else df.set_index("a", **kw)
            lowered = q.expr.lower_completely()
            pres = list(lowered.find_operations(_SetPartitionsPreSetIndex))
            if not pres:
                runs.append((case, None, None))  # single partition or presorted fast path: no division assignment
                continue
            d = [int(x) for x in pres[0].operand("new_divisions").tolist()]
            parts = e2e.compute_partitions(q, optimize=False)
            got = [(p.index if op == "set_index" else p["a"]).tolist() for p in parts]
            runs.append((case, d, got))
        except Exception as ex:  # noqa: BLE001
            runs.append((case, "ERR", f"{type(ex).__name__}: {str(ex)[:120]}"))
    ctx._c10_sort_runs = runs
    return runs


def random_for(ctx):
    import random

    return random.Random(ctx.seed * 7919 + 10)


def fam_sort_divisions(ctx):
    """T3: the divisions vector the real planner hands to set_partitions_pre satisfies the hypothesis of
    C10_sort_sorted / C10_sort_npartitions (`divsOK`: ascending, >= 2 entries, first entry <= every key)."""
    f = Family("sort_divisions_hypothesis[_calculate_divisions -> _SetPartitionsPreSetIndex.new_divisions]")
    reqs, inputs, nontriv = [], [], []
    for case, d, got in _sort_runs(ctx):
        if d is None:
            continue
        if d == "ERR":
            reqs.append("knob sortdivs d=- keys=0")
        else:
            reqs.append(f"knob sortdivs d={','.join(map(str, d))} keys={','.join(map(str, case['keys']))}")
        inputs.append(dict(case, divisions=d))
        nontriv.append(d != "ERR" and len(d) > 2)
    model = drive(reqs)
    f.compare(inputs, ["OK"] * len(reqs), model, nontriv)
    f.note = "sort_values (asc/desc) and set_index, npartitions in None/2/3/5/9, upsample None/1/2/5, 2..7 input partitions, dense and sparse integer keys"
    return f


def fam_sort_pipeline(ctx):
    """T2 at pipeline level: with the divisions read off the lowered plan, the keys found in every output
    partition of the real computation equal `sortPlan` of the model (assignment by set_partitions_pre,
    shuffle, per-partition sort)."""
    f = Family("pipeline_layout[SortValues/SetPartition: set_partitions_pre + Shuffle + per-partition sort]")
    reqs, code, inputs, nontriv = [], [], [], []
    for case, d, got in _sort_runs(ctx):
        if d is None:
            continue
        if d == "ERR":
            reqs.append("knob sortplan d=0,1 asc=1 keys=0")
            code.append("ERR " + str(got))
        else:
            reqs.append(f"knob sortplan d={','.join(map(str, d))} asc={int(case['ascending'])} keys={','.join(map(str, case['keys']))}")
            code.append("|".join(",".join(map(str, p)) or "-" for p in got))
        inputs.append(dict(case, divisions=d))
        nontriv.append(d != "ERR" and len(d) > 2)
    model = drive(reqs)
    f.compare(inputs, code, model, nontriv)
    f.note = "same runs as sort_divisions_hypothesis; compares the partition layout, not only the concatenation"
    return f


# --------------------------------------------------------------------------- T2: the presorted flag


def fam_presorted_flag(ctx):
    """T2: the `presorted` flag of the real _calculate_divisions (per-partition minima / maxima of real frames,
    ascending and descending) equals the model's `presorted`, the guard of C10_sort_presorted."""
    import dask_expr as dx
    from dask_expr._shuffle import _calculate_divisions

    f = Family("presorted_flag[_calculate_divisions]")
    vals = [0, 1, 2, 3]
    ranges = [(lo, hi) for lo in vals for hi in vals if lo <= hi]
    layouts = [list(c) for c in itertools.product(ranges, repeat=2)] + [list(c) for c in itertools.product(ranges, repeat=3)]
    if ctx.quick:
        must = [l for l in layouts if l in ([(2, 3), (1, 2), (0, 1)], [(2, 3), (0, 1)], [(0, 1), (2, 3)], [(0, 1), (1, 2)], [(2, 3), (1, 3), (0, 2)])]
        rest = [l for l in layouts if l not in must]
        ctx.rng.shuffle(rest)
        layouts = must + rest[:70]
    reqs, code, inputs, nontriv = [], [], [], []
    for lay in layouts:
        parts = [pd.DataFrame({"a": np.array(sorted({lo, hi, (lo + hi) // 2}), dtype="int64")}) for lo, hi in lay]
        df = dx.from_map(e2e._PartGetter(parts), list(range(len(parts))), meta=parts[0].iloc[:0])
        for asc in (True, False):
            try:
                got = str(int(bool(_calculate_divisions(df.expr, df.expr["a"], len(parts), asc)[3])))
            except Exception as ex:  # noqa: BLE001
                got = f"ERR {type(ex).__name__}"
            reqs.append(f"knob presorted asc={int(asc)} mins={','.join(str(lo) for lo, _ in lay)} maxes={','.join(str(hi) for _, hi in lay)}")
            code.append(got)
            inputs.append({"ranges": lay, "ascending": asc})
            nontriv.append(True)
    model = drive(reqs)
    f.compare(inputs, code, model, nontriv)
    f.exhaustive = not ctx.quick
    f.note = "2 and 3 partitions, every [min,max] range over {0..3} per partition (nested, overlapping, touching, staggered), both directions"
    return f


# --------------------------------------------------------------------------- T2: shuffle_npartitions of ShuffleReduce


def fam_shuffle_npartitions(ctx):
    """T2: number of partitions `ShuffleReduce._lower` shuffles into (= model `shuffleNpartitions`), and
    tree-vs-shuffle choice (`should_shuffle`): split_out == 1 lowers to TreeReduce."""
    import dask_expr as dx
    from dask_expr._reductions import ShuffleReduce, TreeReduce
    from dask_expr._shuffle import RearrangeByColumn

    f = Family("shuffle_npartitions[ApplyConcatApply._lower / ShuffleReduce._lower]")
    reqs, code, inputs, nontriv = [], [], [], []
    pdf = pd.DataFrame({"k": np.arange(48, dtype="int64") % 7, "v": np.arange(48, dtype="int64")})
    nins = [1, 2, 3, 5, 8, 9, 16, 17] if ctx.quick else list(range(1, 25))
    for nin in nins:
        df = dx.from_pandas(pdf, npartitions=nin, sort=False)
        for se in (None, False, 2, 3, 8):
            for so in (1, 2, 3, 5, True):
                for q in ("unique", "drop_duplicates", "value_counts", "groupby"):
                    kw = _kw(split_every=se, split_out=so)
                    try:
                        if q == "unique":
                            e = df.k.unique(**kw).expr
                        elif q == "drop_duplicates":
                            e = df.drop_duplicates(**kw).expr
                        elif q == "value_counts":
                            e = df.k.value_counts(**kw).expr
                        else:
                            e = df.groupby("k").v.sum(**kw).expr
                        lo = e
                        for _ in range(6):
                            if isinstance(lo, (ShuffleReduce, TreeReduce)):
                                break
                            nxt = lo._lower()
                            if nxt is None:
                                break
                            lo = nxt
                        params = None
                        if isinstance(lo, TreeReduce):
                            got = "tree"
                        elif isinstance(lo, ShuffleReduce):
                            inner = lo._lower()
                            rs = list(inner.find_operations(RearrangeByColumn))
                            got = f"shuffle n={rs[0].npartitions_out}" if rs else "shuffle without RearrangeByColumn"
                            # the operands ShuffleReduce._lower works with (the groupby API turns split_every=None into 8 first)
                            se_op = lo.operand("split_every")
                            params = (lo.frame.npartitions, int(se_op) if se_op else 0, lo.split_out)
                        else:
                            got = type(lo).__name__
                    except Exception as ex:  # noqa: BLE001
                        got = f"ERR {type(ex).__name__}"
                        params = None
                    so_n = df.npartitions if so is True else so
                    nin_m, se_m, so_m = params if params else (df.npartitions, se or 0, so_n)
                    reqs.append(f"knob shufflenparts nin={nin_m} se={se_m} so={so_m}")
                    code.append(got)
                    inputs.append({"query": q, "nin": nin, "split_every": se, "split_out": so})
                    nontriv.append(got != "tree")
    model = drive(reqs)
    # the model answers the partition count; the tree/shuffle decision is `split_out == 1` (not a bool)
    expect = []
    for inp, mo in zip(inputs, model):
        so = inp["split_out"]
        expect.append("tree" if (so == 1 and so is not True) else f"shuffle n={mo}")
    f.compare(inputs, code, expect, nontriv)
    f.exhaustive = True
    f.note = "unique/drop_duplicates/value_counts/groupby-sum x npartitions x split_every in None/False/2/3/8 x split_out in 1/2/3/5/True"
    return f


def families(ctx):
    fams = [c12.fam_graphs]
    try:
        from harness.props import c02

        for fn in c02.families(ctx):
            if "tree" in fn.__name__.lower():
                fams.append(fn)
    except Exception:  # noqa: BLE001
        pass
    fams += [fam_broadcast_layer, fam_merge_lower, fam_bucket_function, fam_set_partitions_pre,
             fam_sort_divisions, fam_sort_pipeline, fam_presorted_flag, fam_shuffle_npartitions]
    return fams


def support(ctx, broken):
    sup = Support()
    for case in _cases(ctx, broken):
        msg = run_presorted_case(case) if case.get("kind") == "presorted" else run_case(case)
        sup.executed += 1
        sup.count(case["query"])
        if len(sup.samples) < 3:
            sup.samples.append(case)
        if msg:
            sig = {"kind": case.get("kind", "knob"), "query": case["query"], "broadcast": case["knobs"].get("bc"), "cat_keys": bool(case.get("cat_keys"))}
            sup.failures.append(Failure(sig=sig, case=case, detail=msg))
            if len(sup.failures) >= 8:
                break
    return sup


def replay(case):
    msg = run_presorted_case(case) if case.get("kind") == "presorted" else run_case(case)
    return Failure(sig={}, case=case, detail=msg) if msg else None
