"""C06 — reported partition structure (npartitions, divisions, lengths) is truthful."""
from __future__ import annotations

import itertools

import numpy as np
import pandas as pd

from harness import e2e, plans, programs
from harness.core import Family, Failure, Support, drive, first_diff
from harness.props import c11

LEAN_MODULES = ["DxModel.Props.C06"]
GENERATED = ["LengthFlags"]
TRUSTED = [
    "dask.dataframe.io.io.sorted_division_locations (legacy dask) is not modelled: its output is checked against the hypothesis `locsOK` of C06_frompandas (T3)",
    "hand-assigned row-count category of each class flagged _is_length_preserving (harness/extractors.py LENGTH_CATEGORIES; validated by family length_category_conformance)",
    "parquet statistics (num-rows) are taken as given; only the selection logic of _get_lengths is modelled",
]
PARTIAL = [
    "C06_partitions / C06_fusedio are proven for strictly ascending selections (Partitions/PartitionsFiltered and, since D71, FusedIO report unknown divisions otherwise: C06_partitions_unknown, C06_fusedio_guarded)",
    "C06_len_frompandas: _get_lengths is proven for unfiltered and strictly ascending _partitions; counterexample theorems for repeated/reordered selections and for both parquet readers",
    "C06_size: proven for frames with at least one column (counterexample: zero columns)",
    "indexed Merge / interleaved Concat: proven that unique(merge_sorted(...)) is sorted, duplicate-free and contains both inputs' divisions; truthfulness of the aligned partitions is C13's repartition theorem",
    "C06_len_elemwise_partial: Len/Lengths push-down picks the first dependency with the most partitions; sound when that dependency is row-aligned (not for a leading scalar operand of a single-partition frame: counterexample theorem)",
]
EXPLANATION = (
    "Theorems: DivInv is preserved by every modelled _divisions()+task pair (Blockwise, Partitions/PartitionsFiltered, Head, Tail, FusedIO, "
    "RepartitionToFewer/Divisions (from C13), Concat, FromArray, FromPandas under the checked hypothesis), partition counts, length push-down table "
    "(decide over the live _is_length_preserving flags) and soundness of the Len/Lengths/Size rules. Tie: every modelled _divisions()/_get_lengths() "
    "versus the model (exhaustive small), T4 conformance of the flagged classes. Support: every node of every plan stage of the vetted programs "
    "x layouts and dedicated frames (duplicate-int, float, string, datetime indexes): divisions sorted, npartitions+1 entries, every computed "
    "partition inside its bounds, computed partition count = npartitions; len/shape/size/Lengths through the metadata-only paths = computed data."
)

# =========================================================================== node-level truthfulness


def _is_frame(meta):
    return isinstance(meta, (pd.DataFrame, pd.Series, pd.Index))


def _idx(part):
    if isinstance(part, pd.Index):
        return part
    return part.index


def division_problems(divs, parts):
    """-> None | text: `divs` (all known) against the computed partitions."""
    divs = list(divs)
    if len(divs) != len(parts) + 1:
        return f"{len(divs)} divisions for {len(parts)} computed partitions"
    try:
        if any(b < a for a, b in zip(divs, divs[1:])):
            return f"divisions not sorted: {divs}"
    except TypeError as ex:
        return f"divisions not comparable: {divs}: {ex}"
    for i, p in enumerate(parts):
        if not _is_frame(p) or len(p) == 0:
            continue
        idx = _idx(p)
        if isinstance(idx, pd.MultiIndex):
            continue
        idx = idx[~idx.isna()] if idx.hasnans else idx
        if len(idx) == 0:
            continue
        lo, hi = idx.min(), idx.max()
        try:
            ok_lo = lo >= divs[i]
            ok_hi = hi < divs[i + 1] or (i == len(parts) - 1 and hi <= divs[i + 1])
        except TypeError as ex:
            return f"division {divs[i]!r} not comparable with index value {lo!r}: {ex}"
        if not (ok_lo and ok_hi):
            return f"partition {i} holds index values [{lo!r}, {hi!r}] outside its divisions [{divs[i]!r}, {divs[i+1]!r}{']' if i == len(parts)-1 else ')'}; divisions={divs}"
    return None


def _subnodes(expr):
    """post-order (dependencies first) list of the nodes of a lowered plan, Fused groups opened"""
    from dask_expr._expr import Fused

    out, seen = [], set()

    def rec(e):
        if e._name in seen:
            return
        seen.add(e._name)
        for d in e.dependencies():
            rec(d)
        if isinstance(e, Fused):
            for fe in reversed(e.exprs):
                if fe._name not in seen:
                    seen.add(fe._name)
                    out.append(fe)
        out.append(e)

    rec(expr)
    return out


def _flat(keys):
    out = []
    for k in keys:
        if isinstance(k, list):
            out += _flat(k)
        else:
            out.append(k)
    return out


def _skip_divisions(node):
    """Intermediate nodes of tree reductions hold partial aggregates, not collections: their `divisions` only
    carry the partition count (nothing consumes the values).  Their partition count is still checked."""
    from dask_expr._reductions import Chunk

    from dask_expr._expr import Fused

    if isinstance(node, Fused):
        return _skip_divisions(node.exprs[0])
    return isinstance(node, Chunk) or type(node).__name__ in ("TreeReduce", "ShuffleReduce", "GroupByChunk", "GroupByApplyConcatApply")


def _node_selection(node):
    """shape of the partition selection a node carries (its own `_partitions`, FusedIO's reader, or — for
    `_SetIndexPost` — the filtered shuffle below it): none / ascending / reordered / repeated"""
    from dask_expr._expr import PartitionsFiltered

    cands = []
    inner = node.operand("_expr") if "_expr" in getattr(type(node), "_parameters", []) else None
    for x in (node, inner):
        if isinstance(x, PartitionsFiltered) and x._filtered:
            cands.append(list(x._partitions))
    if not cands and type(node).__name__ == "_SetIndexPost":
        for x in node.frame.walk():
            if isinstance(x, PartitionsFiltered) and x._filtered:
                cands.append(list(x._partitions))
                break
    if not cands:
        return "none"
    shape = c11._sel_shape(cands[0])
    return shape if shape in ("repeated", "reordered") else "ascending"


def plan_problem(expr):
    """First (deepest) node of a lowered plan whose reported structure is not truthful.
    -> None | (node class, what, detail)"""
    import dask

    try:
        g = dict(expr.__dask_graph__())
    except Exception:  # noqa: BLE001  (C09's business)
        return None
    todo = []
    for node in _subnodes(expr):
        try:
            meta = node._meta
        except Exception:  # noqa: BLE001  (helper nodes such as _DelayedExpr are not collections)
            continue
        if not _is_frame(meta):
            continue
        try:
            np_ = node.npartitions
            divs = node.divisions
        except Exception as ex:  # noqa: BLE001
            return (type(node).__name__, f"raised:{type(ex).__name__}", f"{type(node).__name__}.divisions/npartitions raised {type(ex).__name__}: {str(ex)[:200]}")
        try:
            keys = _flat(node.__dask_keys__())
        except Exception:  # noqa: BLE001
            continue
        if not all(k in g for k in keys):
            try:
                for k, v in node.__dask_graph__().items():
                    g.setdefault(k, v)
            except Exception:  # noqa: BLE001
                continue
        todo.append((node, np_, divs, keys))
    try:
        allparts = dask.get(g, [t[3] for t in todo])
    except Exception:  # noqa: BLE001  (execution failures belong to C01/C02/C14): fall back to node-by-node
        allparts = []
        for t in todo:
            try:
                allparts.append(dask.get(g, t[3]))
            except Exception:  # noqa: BLE001
                allparts.append(None)
    for (node, np_, divs, keys), parts in zip(todo, allparts):
        if parts is None:
            continue
        parts = list(parts)
        if len(parts) != np_:
            return (type(node).__name__, "npartitions", f"{type(node).__name__}: {len(parts)} computed partitions, npartitions={np_}", _node_selection(node))
        stray = [x for x in parts if type(x) is tuple and len(x) == 2 and isinstance(x[0], str) and isinstance(x[1], int)]
        if stray:
            # a task key handed through unevaluated: the node addresses a partition its input does not have
            return (type(node).__name__, "partition-missing",
                    f"{type(node).__name__}: a reported partition computes to the unevaluated key {stray[0]!r}", _node_selection(node))
        if len(divs) != np_ + 1:
            return (type(node).__name__, "divisions-length", f"{type(node).__name__}: {len(divs)} divisions for npartitions={np_}", _node_selection(node))
        if _skip_divisions(node):
            continue
        if any(d is None for d in divs) or any(isinstance(d, float) and np.isnan(d) for d in divs):
            continue  # unknown divisions claim nothing
        msg = division_problems(divs, parts)
        if msg:
            return (type(node).__name__, "divisions", f"{type(node).__name__}: {msg}", _node_selection(node))
    return None


def _logical_sig(q, top, below, what):
    """signature of a logical-level partition-count mismatch; a Repartition sitting on a sort / set_index anywhere
    in the plan is named as the mechanism (the count it reports is the requested one, its divisions and plan are
    those of the sort it was pushed below)"""
    from dask_expr._repartition import Repartition
    from dask_expr._shuffle import BaseSetIndexSortValues

    for x in q.expr.walk():
        if isinstance(x, Repartition) and isinstance(x.frame, BaseSetIndexSortValues):
            return {"check": "structure", "mechanism": "repartition-above-sort", "what": "logical-npartitions"}
    if top == "Merge":
        e = q.expr
        if getattr(e, "merge_indexed_left", False) and getattr(e, "merge_indexed_right", False) \
                and min(e.left.npartitions, e.right.npartitions) == 1:
            return {"check": "structure", "mechanism": "indexed-merge-single-partition-side", "what": "logical-npartitions"}
    return {"check": "structure", "node": top, "below": below, "what": what}


# =========================================================================== metadata-only row counts


def length_problem(q, opt_len_only=False):
    """len(), shape, size and Lengths of collection q through the optimiser versus the computed data.
    -> None | (what, detail)"""
    import dask

    from dask_expr._expr import Lengths

    # "the computed data" = what compute() returns, i.e. the optimised plan (head/tail of sorted frames are
    # legitimately answered differently by the optimised and the unoptimised plan: known finding D47)
    r = e2e.run_or_err(lambda: e2e.compute_partitions(q, optimize=True))
    if r[0] == "err":
        return None  # the query itself is not computable (C01/C14)
    parts = [p for p in r[1]]
    if not all(isinstance(p, (pd.DataFrame, pd.Series)) for p in parts):
        return None
    n = sum(len(p) for p in parts)
    whole = pd.concat(parts) if len(parts) else None
    rl = e2e.run_or_err(lambda: len(q))
    if rl[0] == "err":
        rd = e2e.run_or_err(lambda: len((q.index if hasattr(q, "index") else q).compute()))
        if rd[0] == "err" and rd[1] == rl[1]:
            return None  # the optimised DATA path fails the same way: not a metadata-path problem (C01/C14)
        return (f"len-raised:{rl[1]}", f"len() raised {rl[1]}: {rl[2]}")
    if rl[1] != n:
        return ("len", f"len() = {rl[1]}, computed data has {n} rows")
    rs = e2e.run_or_err(lambda: q.size.compute())
    want_size = int(whole.size) if whole is not None else 0
    if rs[0] == "err":
        return (f"size-raised:{rs[1]}", f".size raised {rs[1]}: {rs[2]}")
    if int(rs[1]) != want_size:
        if isinstance(whole, pd.DataFrame) and whole.shape[1] == 0:
            return ("size-zero-columns", f".size = {rs[1]}, the computed frame has no columns (size 0)")
        return ("size", f".size = {rs[1]}, computed data has size {want_size}")
    rsh = e2e.run_or_err(lambda: tuple(int(v.compute()) if hasattr(v, "compute") else int(v) for v in q.shape))
    if rsh[0] == "err":
        return (f"shape-raised:{rsh[1]}", f".shape raised {rsh[1]}: {rsh[2]}")
    if rsh[1] != tuple(whole.shape):
        return ("shape", f".shape = {rsh[1]}, computed data has shape {tuple(whole.shape)}")

    def lengths():
        le = Lengths(q.expr).optimize()
        g = dict(le.__dask_graph__())
        (v,) = dask.get(g, le.__dask_keys__())
        return tuple(int(x) for x in v)

    rL = e2e.run_or_err(lengths)
    if rL[0] == "err":
        return (f"lengths-raised:{rL[1]}", f"Lengths raised {rL[1]}: {rL[2]}")
    real = tuple(len(p) for p in parts)
    if rL[1] != real:
        if len(rL[1]) != len(real) and sum(rL[1]) == sum(real) and c11._has_fused_io(q):
            return None  # FusedIO coarsens the partitions of the optimised plan
        return ("lengths", f"Lengths = {rL[1]}, computed partitions have lengths {real}")
    return None


# =========================================================================== dedicated frames

INDEXES = {
    "int": lambda n: pd.Index(np.arange(n, dtype="int64") * 2),
    "int_dense": lambda n: pd.Index(np.arange(n, dtype="int64")),
    "int_dup": lambda n: pd.Index([i // 3 for i in range(n)], dtype="int64"),
    "float": lambda n: pd.Index([i * 0.5 - 2 for i in range(n)], dtype="float64"),
    "float_dup": lambda n: pd.Index([float(i // 2) for i in range(n)], dtype="float64"),
    "str": lambda n: pd.Index(["k%02d" % (i // 2) for i in range(n)], dtype="object"),
    "datetime": lambda n: pd.date_range("2000-01-01", periods=n, freq="12h"),
}


def ded_frame(index_kind, npartitions, n=18):
    import dask_expr as dx

    pdf = c11.base(n)
    pdf.index = INDEXES[index_kind](n)
    return dx.from_pandas(pdf, npartitions=npartitions, sort=True)


def _other(index_kind, npartitions, shift, n=10):
    import dask_expr as dx

    pdf = pd.DataFrame({"w": np.arange(n, dtype="int64")})
    ix = INDEXES[index_kind](n + shift)[shift:]
    pdf.index = ix
    return dx.from_pandas(pdf, npartitions=npartitions, sort=True)


def _loc_bounds(x):
    d = [v for v in x.divisions if v is not None]
    return d[1] if len(d) > 2 else d[0], d[-2] if len(d) > 2 else d[-1]


def _sorted_dups(x, how):
    """a frame whose column `s` is sorted with duplicate keys that straddle partition borders ([1,2,2][2,3,3][3,5,5]),
    made the index through the paths that derive divisions from the data"""
    pdf = pd.DataFrame({"s": np.array([1, 2, 2, 2, 3, 3, 3, 5, 5], dtype="int64"), "v": np.arange(9, dtype="int64")})
    df = e2e.frame_from_cuts(pdf, [0, 3, 6, 9], known_divisions=False)
    if how == "sorted":
        return df.set_index("s", sorted=True)
    if how == "auto":
        return df.set_index("s", shuffle_method="tasks")
    if how == "sorted_loc":
        return df.set_index("s", sorted=True).loc[2:3]
    raise KeyError(how)


DED_OPS = {
    "set_index_sorted_dups": lambda x, k: _sorted_dups(x, "sorted"),
    "set_index_auto_dups": lambda x, k: _sorted_dups(x, "auto"),
    "set_index_sorted_dups_loc": lambda x, k: _sorted_dups(x, "sorted_loc"),
    "id": lambda x, k: x,
    "add1": lambda x, k: x[["a", "v"]] + 1,
    "filter": lambda x, k: x[x.a > 6],
    "col": lambda x, k: x.a,
    "index": lambda x, k: x.index,
    "parts_asc": lambda x, k: x.partitions[[0, x.npartitions - 1]] if x.npartitions > 1 else x.partitions[[0]],
    "parts_mid": lambda x, k: x.partitions[1:3] if x.npartitions > 2 else x.partitions[[0]],
    "parts_rev": lambda x, k: x.partitions[[x.npartitions - 1, 0]],
    "parts_rep": lambda x, k: x.partitions[[0, 0]],
    "add1_parts": lambda x, k: (x[["a"]] + 1).partitions[[x.npartitions - 1]],
    "head": lambda x, k: x.head(4, npartitions=min(2, x.npartitions), compute=False),
    "head_all": lambda x, k: x.head(40, npartitions=-1, compute=False),
    "tail": lambda x, k: x.tail(3, compute=False),
    "repart_fewer": lambda x, k: x.repartition(npartitions=max(1, x.npartitions - 2)),
    "repart_more": lambda x, k: x.repartition(npartitions=x.npartitions + 3),
    "repart_one": lambda x, k: x.repartition(npartitions=1),
    "repart7": lambda x, k: x.repartition(npartitions=7),
    "sort_repart": lambda x, k: x.sort_values("a").repartition(npartitions=x.npartitions + 1),
    "loc_slice": lambda x, k: x.loc[_loc_bounds(x)[0] : _loc_bounds(x)[1]],
    "loc_from": lambda x, k: x.loc[_loc_bounds(x)[0] :],
    "loc_list": lambda x, k: x.loc[[x.divisions[0], x.divisions[-1]]],
    "reset_index": lambda x, k: x.reset_index(drop=True),
    "set_index_a": lambda x, k: x.set_index("a"),
    "sort_values": lambda x, k: x.sort_values("a"),
    "set_index_parts": lambda x, k: x.set_index("a").partitions[[0, 2]] if x.npartitions > 2 else x.set_index("a"),
    "set_index_parts_rep": lambda x, k: x.set_index("a").partitions[[0, 0]] if x.npartitions > 2 else x.set_index("a"),
    "set_index_parts_rev": lambda x, k: x.set_index("a").partitions[[1, 0]] if x.npartitions > 2 else x.set_index("a"),
    "shuffle": lambda x, k: x.shuffle("b", shuffle_method="tasks"),
    "concat_mono": lambda x, k: _concat_mono(x, k),
    "concat_interleave": lambda x, k: _concat_interleave(x, k),
    "concat_unknown": lambda x, k: _concat_unknown(x, k),
    "concat_touch": lambda x, k: _concat_touch(x, k),
    "concat_axis1_filtered": lambda x, k: _concat_axis1_filtered(x, k),
    "merge_index": lambda x, k: x.merge(_other(k, 2, 3), left_index=True, right_index=True, how="inner"),
    "merge_index_left": lambda x, k: x.merge(_other(k, 3, 5), left_index=True, right_index=True, how="left"),
    "join_series_align": lambda x, k: x.a + _other(k, 2, 2).w,
    "map_partitions": lambda x, k: x.map_partitions(lambda p: p.assign(m=1)),
    "shift": lambda x, k: x[["a"]].shift(1),
    "cumsum": lambda x, k: x[["a", "v"]].cumsum(),
    "groupby_sum": lambda x, k: x.groupby("b").v.sum(),
    "dropdup": lambda x, k: x.drop_duplicates(subset=["b"]),
    "value_counts": lambda x, k: x.b.value_counts(),
    "empty_cols": lambda x, k: x[[]],
}


def _concat_mono(x, k):
    import dask_expr as dx

    n = 18
    pdf = c11.base(8)
    pdf.index = INDEXES[k](n + 12)[n + 2 : n + 10]
    y = dx.from_pandas(pdf, npartitions=2, sort=True)
    return dx.concat([x, y])


def _concat_touch(x, k):
    """second frame starts exactly at the last index value of the first one"""
    import dask_expr as dx

    n = 18
    pdf = c11.base(8)
    pdf.index = INDEXES[k](n + 8)[n - 1 : n + 7]
    y = dx.from_pandas(pdf, npartitions=2, sort=True)
    return dx.concat([x, y])


def _concat_axis1_filtered(x, k):
    """column-wise concat of co-aligned operands with different rows (outer join on the index)"""
    import dask_expr as dx

    return dx.concat([x.a[x.a > 6].rename("z"), x[["b", "v"]]], axis=1)


def _concat_interleave(x, k):
    import dask_expr as dx

    pdf = c11.base(8)
    pdf.index = INDEXES[k](14)[6:14]
    y = dx.from_pandas(pdf, npartitions=2, sort=True)
    return dx.concat([x, y], interleave_partitions=True)


def _concat_unknown(x, k):
    import dask_expr as dx

    return dx.concat([x, x.clear_divisions()])


def ded_cases(ctx):
    cases = []
    for ik in INDEXES:
        for np_ in (1, 2, 4, 7):
            for op in DED_OPS:
                cases.append({"kind": "dedicated", "index": ik, "npartitions": np_, "op": op})
    # partition-filtered multi-file parquet reads (FusedIO) and arrays
    for src in ("read_parquet_div", "read_parquet", "read_parquet_arrow", "from_array", "from_map_div", "from_delayed_div", "timeseries", "read_csv"):
        for chain in ("id", "col_a", "add1", "bcast_series"):
            for P in (None, [1, 2], [0, 2, 3], [3, 1], [0, 0, 1]):
                cases.append({"kind": "source", "source": src, "chain": chain, "P": P})
    return cases


def build_case(case):
    if case["kind"] == "dedicated":
        x = ded_frame(case["index"], case["npartitions"], case.get("n", 18))
        return DED_OPS[case["op"]](x, case["index"])
    if case["kind"] == "source":
        x = c11.build(case["source"], case["chain"])
        if case["P"] is not None:
            if max(case["P"]) >= x.npartitions:
                return None
            x = x.partitions[case["P"]]
        return x
    if case["kind"] == "program":
        progs = _progs_by_name()
        return plans.build(progs[case["program"]], case["layout"])
    raise KeyError(case["kind"])


_PROGS = None


def _progs_by_name():
    global _PROGS
    if _PROGS is None:
        _PROGS = {p.name: p for p in programs.valid_programs(2, "any")}
    return _PROGS


MUST_RUN_PROGRAMS = ["head3/id", "tail2/id", "repart5/id", "repart2/id", "set_index_a/id", "sort_b/id", "merge_index", "concat",
                     "concat_axis1", "filt_a/repart5/id", "shuffle_b/id", "reset_index/id", "cumsum/id", "shift1/id", "add1/head3/id",
                     "repart5/head3/id", "set_index_a/repart2/id", "dropdup_b/id", "mappart/id", "index", "filt_a/index", "len",
                     "add1/len", "filt_a/len", "repart5/len", "shuffle_b/len", "sort_b/len", "set_index_a/len", "concat"]


def program_cases(ctx, broken):
    progs = programs.valid_programs(2, "any")
    must = [p for p in progs if p.name in MUST_RUN_PROGRAMS]
    n = 30 if ctx.quick else 350
    sel = plans.seeded_slice(ctx, progs, n)
    layouts = [0] if ctx.quick else [0, 1, 3]
    out = []
    for p in must + sel:
        for lay in layouts if p in must or not ctx.quick else [ctx.rng.randrange(len(plans.LAYOUTS))]:
            out.append({"kind": "program", "program": p.name, "layout": lay})
    return out


def run_case(case):
    """-> None | (sig dict, detail)"""
    q = e2e.run_or_err(lambda: build_case(case))
    if q[0] == "err" or q[1] is None or not hasattr(q[1], "expr"):
        return None
    q = q[1]
    st = e2e.run_or_err(lambda: plans.stage_exprs(q.expr))
    if st[0] == "err":
        return None  # optimizer failures belong to C01/C19
    # the collection as the user sees it (logical plan): npartitions, divisions and the computed plan agree
    lg = e2e.run_or_err(lambda: (q.npartitions, len(q.divisions)))
    if lg[0] == "ok":
        np_, nd = lg[1]
        top = type(q.expr).__name__
        deps = q.expr.dependencies()
        below = type(deps[0]).__name__ if deps else "-"
        if nd != np_ + 1:
            return (_logical_sig(q, top, below, "divisions-length"),
                    f"logical {top}({below}): npartitions={np_} but {nd} divisions")
        n_low = st[1][0][1].npartitions
        from dask_expr.io.io import FusedIO  # noqa: F401  (tune-stage fusion changes counts only in optimised stages)

        if n_low != np_:
            return (_logical_sig(q, top, below, "npartitions"),
                    f"logical {top}({below}): npartitions={np_}, its lowered plan has {n_low} partitions")
    for stage, e in st[1]:
        pr = plan_problem(e)
        if pr:
            node, what, detail = pr[:3]
            sig = {"check": "structure", "node": node, "what": what}
            if len(pr) > 3:
                sig["selection"] = pr[3]
            return (sig, f"stage {stage}: {detail}")
    if _is_frame(q._meta) and not isinstance(q._meta, pd.Index):
        lp = length_problem(q)
        if lp:
            what, detail = lp
            return (_rowcount_sig(q, what), detail)
    return None


def _rowcount_sig(q, what):
    """symptom x the operators on the spine of the logical plan below any partition selection x the
    shape of the selection (none / ascending / reordered / repeated)"""
    from dask_expr._expr import Partitions

    sel = "none"
    for n in q.expr.walk():
        if isinstance(n, Partitions):
            shape = c11._sel_shape(list(n.partitions))
            sel = shape if shape in ("repeated", "reordered") else "ascending"
            break
    spine = [x for x in _plan_shape(q).split("/") if x != "Partitions"]
    through = "/".join(spine[:-1]) or "-"
    if what == "size-zero-columns":
        return {"check": "rowcount", "what": "size", "mechanism": "zero-column-frame"}
    if what == "lengths" and "AlignPartitions" in through:
        return {"check": "rowcount", "what": "lengths", "mechanism": "lengths-through-aligned-binop"}
    if "/Filter" in through and spine[0] in ("Add", "Sub", "Mul"):
        # Len pushed through a binary operation whose operands were filtered differently
        return {"check": "rowcount", "what": what, "mechanism": "len-through-binop-of-filtered-operands"}
    sig = {"check": "rowcount", "what": what, "reader": spine[-1], "selection": sel}
    if sel == "none":
        sig["through"] = through
    return sig


def _plan_shape(q):
    """classes on the spine of the logical plan (signature of a row-count failure)"""
    names = []
    e = q.expr
    for _ in range(5):
        names.append(type(e).__name__)
        deps = e.dependencies()
        if not deps:
            break
        e = max(deps, key=lambda d: d.npartitions)
    return "/".join(names)


# scalar-first elementwise operations on single-partition frames, partition-filtered sources: metadata-only row counts
def rowcount_cases(ctx):
    cases = []
    for src in ("from_pandas", "from_pandas_one", "from_array", "read_parquet", "read_parquet_arrow", "read_parquet_div", "from_map", "read_csv"):
        for chain in ("id", "col_a", "add1", "bcast_series", "bcast_rev", "filter", "assign_series", "binop_filters"):
            for P in (None, [1, 2], [0, 0], [2, 0], [0, 2]):
                cases.append({"kind": "rowcount", "source": src, "chain": chain, "P": P})
    return cases


c11.CHAINS.setdefault("bcast_rev", (lambda x: x.a.max() - x.a, False, False))
c11._MECHANISM.setdefault("bcast_rev", "broadcast-operand")
c11.CHAINS.setdefault("binop_filters", (lambda x: x.a[x.a > 4] + x.v[x.v < 120], False, False))
c11._MECHANISM.setdefault("binop_filters", "elemwise")


def run_rowcount(case):
    def mk():
        x = c11.build(case["source"], case["chain"])
        if case["P"] is not None:
            if max(case["P"]) >= x.npartitions:
                return None
            x = x.partitions[case["P"]]
        return x

    q = e2e.run_or_err(mk)
    if q[0] == "err" or q[1] is None:
        return None
    lp = length_problem(q[1])
    if lp:
        what, detail = lp
        return (_rowcount_sig(q[1], what), detail)
    return None


def _all_cases(ctx, broken):
    ded = ded_cases(ctx)
    rc = rowcount_cases(ctx)
    prog = program_cases(ctx, broken)
    if ctx.quick:
        idx = list(range(len(ded)))
        ctx.rng.shuffle(idx)
        ded = [ded[i] for i in sorted(idx[: (170 if not broken else 600)])]
        idx = list(range(len(rc)))
        ctx.rng.shuffle(idx)
        rc = [rc[i] for i in sorted(idx[:90])]
    steered = []
    for b in broken:
        name = str(b.get("family", "")) + str(b.get("theorem", ""))
        if "selection_divisions" in name or "partitions" in name.lower():
            steered += [c for c in ded_cases(ctx) if c.get("op", "").startswith(("parts_", "add1_parts", "set_index_parts"))]
        if "FusedIO" in name or "fused" in name.lower():
            steered += [c for c in ded_cases(ctx) if c.get("source", "").startswith("read_parquet")]
        if "Head" in name or "head" in name.lower():
            steered += [c for c in ded_cases(ctx) if c.get("op", "") in ("head", "head_all", "tail")]
        if "FromArray" in name:
            steered += [c for c in ded_cases(ctx) if c.get("source") == "from_array"]
        if "Concat" in name or "Merge" in name:
            steered += [c for c in ded_cases(ctx) if c.get("op", "").startswith(("concat", "merge", "join"))]
        if "Len" in name or "lengths" in name.lower() or "length" in name.lower():
            steered += rowcount_cases(ctx)
        if "Repartition" in name or "repart" in name.lower():
            steered += [c for c in ded_cases(ctx) if c.get("op", "").startswith("repart")]
    return steered[:400] + MUST_RUN + prog + ded + rc


MUST_RUN = [
    {"kind": "source", "source": "read_parquet_div", "chain": "col_a", "P": None},            # D5 (FusedIO last division)
    {"kind": "source", "source": "read_parquet_div", "chain": "add1", "P": [1, 2]},
    {"kind": "dedicated", "index": "int", "npartitions": 4, "op": "parts_rev"},                # D12
    {"kind": "dedicated", "index": "int", "npartitions": 4, "op": "parts_rep"},                # D12
    {"kind": "dedicated", "index": "int", "npartitions": 4, "op": "repart_more"},              # D14
    {"kind": "dedicated", "index": "int", "npartitions": 2, "op": "repart_more"},
    {"kind": "dedicated", "index": "int_dense", "npartitions": 3, "op": "repart7", "n": 7},        # D14
    {"kind": "source", "source": "from_array", "chain": "id", "P": [1, 2]},                    # D4
    # one witness per mechanism that failed while this check was developed
    {"kind": "source", "source": "read_parquet_div", "chain": "col_a", "P": [3, 1]},           # FusedIO, reordered selection
    {"kind": "rowcount", "source": "from_pandas", "chain": "col_a", "P": [0, 0]},              # FromPandas._get_lengths
    {"kind": "rowcount", "source": "read_parquet", "chain": "col_a", "P": [1, 2]},             # ReadParquet._get_lengths
    {"kind": "rowcount", "source": "read_parquet_arrow", "chain": "col_a", "P": [1, 2]},
    {"kind": "rowcount", "source": "from_pandas", "chain": "binop_filters", "P": None},        # Len(x + y) = Len(x)
    {"kind": "dedicated", "index": "int", "npartitions": 4, "op": "set_index_parts_rev"},      # _SetIndexPost culling
    {"kind": "dedicated", "index": "int", "npartitions": 2, "op": "empty_cols"},               # Size of a frame without columns
    {"kind": "dedicated", "index": "int", "npartitions": 4, "op": "sort_repart", "n": 8},       # Repartition above a sort
    {"kind": "dedicated", "index": "int", "npartitions": 1, "op": "merge_index"},               # indexed merge, single-partition side
    {"kind": "dedicated", "index": "int", "npartitions": 2, "op": "concat_touch"},              # touching index ranges
    {"kind": "dedicated", "index": "str", "npartitions": 4, "op": "concat_touch"},
    {"kind": "dedicated", "index": "int", "npartitions": 4, "op": "concat_axis1_filtered"},     # Len of an axis=1 concat
    {"kind": "rowcount", "source": "from_pandas", "chain": "col_a", "P": [2, 0]},               # D62
    {"kind": "rowcount", "source": "read_parquet", "chain": "add1", "P": [2, 0]},               # D63
    {"kind": "rowcount", "source": "read_parquet_arrow", "chain": "col_a", "P": [0, 0]},        # D63
    {"kind": "rowcount", "source": "from_pandas", "chain": "shuffle_tasks_lowered", "P": [1, 2]},   # D108: len of selected partitions
    {"kind": "rowcount", "source": "from_pandas", "chain": "shuffle_tasks_lowered", "P": [0]},
    {"kind": "dedicated", "index": "int", "npartitions": 2, "op": "set_index_sorted_dups"},     # C06-m3: equal keys across a border
    {"kind": "dedicated", "index": "int", "npartitions": 2, "op": "set_index_auto_dups"},
    {"kind": "dedicated", "index": "int", "npartitions": 2, "op": "set_index_sorted_dups_loc"},
    # a selection that cannot reach the reader (cumulative / overlap operation in between) over a multi-file read that
    # the tune stage would fuse into fewer partitions (D86)
    {"kind": "source", "source": "read_parquet_div", "chain": "cumsum", "P": [3, 1]},
    {"kind": "source", "source": "read_parquet_div", "chain": "cumsum", "P": [0, 0, 1]},
    {"kind": "source", "source": "read_parquet_div", "chain": "shift1", "P": [1, 2]},
]


def support(ctx, broken):
    sup = Support()
    seen = set()
    for case in _all_cases(ctx, broken):
        try:
            res = run_rowcount(case) if case["kind"] == "rowcount" else run_case(case)
        except Exception as ex:  # noqa: BLE001
            res = ({"check": "harness-exception"}, f"{type(ex).__name__}: {str(ex)[:300]}")
        sup.executed += 1
        sup.count(case["kind"])
        if len(sup.samples) < 3:
            sup.samples.append(case)
        if res:
            sig, detail = res
            k = repr(sorted(sig.items()))
            if k in seen:
                continue
            seen.add(k)
            sup.failures.append(Failure(sig=sig, case=case, detail=detail))
            if len(sup.failures) >= 40:
                break
    return sup


def replay(case):
    res = run_rowcount(case) if case["kind"] == "rowcount" else run_case(case)
    return Failure(sig=res[0], case=case, detail=res[1]) if res else None



# =========================================================================== correspondence families


def _nat(l):
    return ",".join(str(int(x)) for x in l) or "-"


def _err(ex):
    return "ERR " + type(ex).__name__


def _pq_dir(nfiles=8, rows=40):
    import os

    import dask_expr as dx

    d = os.path.join(c11._tmpdir(), f"c06-pq-{nfiles}-{rows}")
    if not os.path.exists(d):
        pdf = pd.DataFrame({"a": np.arange(rows, dtype="int64"), "b": np.arange(rows, dtype="int64") % 3, "c": "x" * 40},
                           index=pd.Index(np.arange(100, 100 + rows, dtype="int64"), name="i"))
        dx.from_pandas(pdf, npartitions=nfiles).to_parquet(d)
    return d


def fam_fused(ctx):
    """T2: FusedIO._fusion_buckets / _divisions / npartitions on real multi-file parquet reads under partition selections."""
    import dask_expr as dx
    from dask_expr.io.io import FusedIO

    f = Family("divisions[FusedIO._fusion_buckets/_divisions/npartitions]")
    reqs, code, inputs, nontriv = [], [], [], []
    for nfiles in (4, 8) if ctx.quick else (3, 4, 6, 8, 9):
        for known in (True, False):
            r = c11._src(dx.read_parquet(_pq_dir(nfiles), calculate_divisions=known, columns=["a"]).expr)
            n = r.npartitions
            sets = [None, [0], [n - 1], [1, 2], [0, 2, 3], list(range(1, n)), [n - 1, 0], [0, 0, 1], list(range(n))[::-1]]
            if not ctx.quick:
                sets += c11._index_sets(min(n, 4), 3)[1:]
            for P in sets:
                if P is not None and (not P or max(P) >= n or min(P) < 0):
                    continue
                try:
                    e = r if P is None else r.substitute_parameters({"_partitions": P})
                    fe = FusedIO(e)
                    b = fe._fusion_buckets
                    step = max(len(x) for x in b)
                    full = e._divisions()
                    d = fe._divisions()
                    dtxt = "unknown" if d[0] is None else _nat(d)
                    txt = "buckets=" + "|".join(_nat(x) for x in b) + ";div=" + dtxt
                    if fe.npartitions != len(b) or len(d) != len(b) + 1:
                        txt += f";odd npartitions={fe.npartitions} len(div)={len(d)}"
                    fulltxt = "-" if full[0] is None else _nat(full)
                except Exception as ex:  # noqa: BLE001
                    txt, step, fulltxt = _err(ex), 1, "-"
                reqs.append(f"pt fused full={fulltxt} P={_nat(P if P is not None else range(n))} step={step}")
                code.append(txt)
                inputs.append({"nfiles": nfiles, "known": known, "P": P})
                nontriv.append(True)
    model = drive(reqs)
    f.compare(inputs, code, model, nontriv)
    f.note = "step (= ceil(1/compression factor), capped by sqrt(npartitions)) is taken from the real buckets; the model rebuilds buckets and divisions from it"
    return f


def fam_concat(ctx):
    """T2: Concat._divisions (axis=0) and indexed Merge._divisions versus the model."""
    import dask_expr as dx
    from dask_expr._concat import Concat

    f = Family("divisions[Concat._divisions, Merge._divisions(indexed)]")
    reqs, code, inputs, nontriv = [], [], [], []
    vecs = [[0, 5, 9], [10, 12], [3, 12], [9, 20, 30], [0, 1], [0, 5, 9, 9], [12, 12], [-3, 0]]
    frames = {tuple(v): c11._frame_with_divs(v) for v in vecs}
    combos = list(itertools.permutations(vecs, 2)) + [tuple(c) for c in itertools.permutations(vecs[:4], 3)]
    for combo in combos:
        for il in (False, True):
            try:
                e = Concat("outer", False, {}, 0, False, il, *[frames[tuple(v)] for v in combo])
                d = e._divisions()
                txt = "unknown" if d[0] is None else "known:" + _nat(d)
            except Exception as ex:  # noqa: BLE001
                txt = _err(ex)
            reqs.append("dv concat ds=" + "|".join(_nat(v) for v in combo) + f" interleave={int(il)}")
            code.append(txt)
            inputs.append({"divisions": combo, "interleave": il})
            nontriv.append(True)
    # indexed merge: unique(merge_sorted(left.divisions, right.divisions)) (both sides with >= 2 partitions)
    from dask_expr._merge import Merge

    for a, b in itertools.permutations([v for v in vecs if len(v) > 2], 2):
        try:
            e = Merge(frames[tuple(a)], frames[tuple(b)], "inner", None, None, True, True)
            txt = _nat(e._divisions())
        except Exception as ex:  # noqa: BLE001
            txt = _err(ex)
        reqs.append("dv mergeunique ds=" + _nat(a) + "|" + _nat(b))
        code.append(txt)
        inputs.append({"left": a, "right": b, "what": "Merge._divisions"})
        nontriv.append(True)
    model = drive(reqs)
    f.compare(inputs, code, model, nontriv)
    return f


def _len_features(fr):
    from dask_expr._concat import Concat
    from dask_expr._expr import Index
    from dask_expr.io.io import IO

    cls = "Index" if isinstance(fr, Index) else "IO" if isinstance(fr, IO) else "Concat" if isinstance(fr, Concat) else "other"
    childlp = bool(getattr(fr.frame, "_is_length_preserving", False)) if cls == "Index" else False
    deps = [d.npartitions for d in fr.dependencies()]
    c0 = cls == "Concat" and fr.operand("axis") == 0
    ncols = len(fr.columns) if fr.ndim == 2 else 0
    return cls, bool(fr._is_length_preserving), childlp, deps, c0, fr.ndim, ncols


def _classify_len_result(le, r):
    from dask_expr._expr import Index
    from dask_expr._reductions import Len

    fr = le.frame
    if r is None:
        return "none"
    if r is le:
        return "keep"
    if isinstance(r, Len):
        if isinstance(fr, Index) and r.frame._name == fr.frame._name:
            return "childOfIndex"
        for i, d in enumerate(fr.dependencies()):
            if r.frame._name == d._name:
                return f"dep:{i}"
        if isinstance(r.frame, Index) and r.frame.frame._name == fr._name:
            return "index"
        return "?len"
    names = {d._name for d in fr.dependencies()}
    lens = [x for x in r.walk() if isinstance(x, Len)]
    if lens and {x.frame._name for x in lens} == names:
        return "sumOfDeps"
    return "?" + type(r).__name__


def fam_len_rules(ctx):
    """T2: Len / Size / Lengths._simplify_down on constructed expressions."""
    import dask_expr as dx
    from dask_expr._expr import Elemwise, Index, Lengths, PartitionsFiltered
    from dask_expr._reductions import Len, Size

    f = Family("rule_output[Len/Size/Lengths._simplify_down]")
    reqs, code, inputs = [], [], []
    exprs = list(c11._elemwise_exprs())
    for k in (1, 3):
        df = dx.from_pandas(c11.base(9), npartitions=k)
        other = dx.from_pandas(c11.base(6), npartitions=2)
        more = {
            "source": df, "index": df.index, "index_of_add": (df + 1).index, "index_of_filter": df[df.a > 2].index,
            "filter": df[df.a > 2], "concat": dx.concat([df, other]), "concat_axis1": dx.concat([df[["a"]], df[["b"]]], axis=1),
            "series": df.a, "repartition": df.repartition(npartitions=2), "shuffle": df.shuffle("b", shuffle_method="tasks"),
            "sort": df.sort_values("a"), "head": df.head(3, compute=False), "groupby": df.groupby("b").v.sum(),
            "empty_cols": df[[]], "partitions": df.partitions[[0]], "binop_filters": df.a[df.a > 4] + df.v[df.v < 50],
        }
        exprs += [(f"{nm}[np={k}]", c.expr) for nm, c in more.items()]
        if k > 1:
            # a lowered shuffle that computes a selection of its partitions, and the Index of one (D108)
            low = df.shuffle("b", shuffle_method="tasks").optimize(fuse=False).partitions[[1, 0]].expr.simplify()
            for node in low.walk():
                if isinstance(node, PartitionsFiltered) and node._filtered and type(node).__name__.endswith("Shuffle"):
                    exprs += [(f"filtered_shuffle[np={k}]", node), (f"index_of_filtered_shuffle[np={k}]", Index(node))]
                    break
    for nm, fr in exprs:
        try:
            cls, lp, clp, deps, c0, ndim, ncols = _len_features(fr)
        except Exception:  # noqa: BLE001
            continue
        le = Len(fr)
        try:
            txt = _classify_len_result(le, le._simplify_down())
        except Exception as ex:  # noqa: BLE001
            txt = _err(ex)
        sel = int(isinstance(fr, PartitionsFiltered) and fr._filtered)
        inner = fr.frame if isinstance(fr, Index) else None
        childsel = int(isinstance(inner, PartitionsFiltered) and inner._filtered)
        reqs.append(f"ln lenrule frame={cls} lp={int(lp)} childlp={int(clp)} deps={_nat(deps)} concat0={int(c0)} ndim={ndim} ncols={ncols} sel={sel} childsel={childsel}")
        code.append(txt)
        inputs.append({"expr": nm, "rule": "Len._simplify_down"})
        # Size
        try:
            r = Size(fr)._simplify_down()
            lens = [x for x in r.walk() if isinstance(x, Len)] if not isinstance(r, Len) else [r]
            mult = 1 if isinstance(r, Len) else next((o for o in r.operands if isinstance(o, int)), "?")
            txt = str(mult) if lens and lens[0].frame._name == fr._name else "?"
        except Exception as ex:  # noqa: BLE001
            txt = _err(ex)
        isframe = fr.ndim == 2
        reqs.append(f"ln sizerule frame={int(isframe)} ncols={ncols}")
        code.append(txt)
        inputs.append({"expr": nm, "rule": "Size._simplify_down"})
        # Lengths
        try:
            r = Lengths(fr)._simplify_down()
            if r is None:
                txt = "none"
            else:
                txt = next((f"child:{i}" for i, d in enumerate(fr.dependencies()) if d._name == r.frame._name), "?")
        except Exception as ex:  # noqa: BLE001
            txt = _err(ex)
        reqs.append(f"ln lengthsrule elemwise={int(isinstance(fr, Elemwise))} deps={_nat(deps)}")
        code.append(txt)
        inputs.append({"expr": nm, "rule": "Lengths._simplify_down"})
    model = drive(reqs)
    f.compare(inputs, code, model)
    return f


def fam_pq_lengths(ctx):
    """T2: ReadParquet*._get_lengths under partition selections (the code as it is: see C06_len_parquet_counterexample)."""
    import dask_expr as dx

    f = Family("lengths[ReadParquetFSSpec/PyarrowFS._get_lengths]")
    reqs, code, inputs = [], [], []
    d = _pq_dir(6, 20)
    for kw, verb in (({}, "fsspec"), ({"filesystem": "arrow"}, "arrow")):
        r0 = c11._src(dx.read_parquet(d, **kw).expr)
        stats = [len(x) for x in e2e.compute_partitions(dx.read_parquet(d, **kw), optimize=False)]
        for P in [None, [1], [1, 2], [0, 2, 3], [5, 0], [0, 0], [2, 3, 4, 5]]:
            try:
                e = c11._src(dx.read_parquet(d, **kw).expr)
                e = e if P is None else e.substitute_parameters({"_partitions": P})
                got = e._get_lengths()
                txt = _nat(got) if got is not None else "None"
            except Exception as ex:  # noqa: BLE001
                txt = _err(ex)
            if verb == "fsspec":
                reqs.append(f"ln pqlengths stats={_nat(stats)} P={'None' if P is None else _nat(P)}")
                code.append(txt)
            else:
                reqs.append(f"ln pqlengthsarrow stats={_nat(stats)} P={'None' if P is None else _nat(P)}")
                code.append(txt)
            inputs.append({"reader": verb, "P": P})
    model = drive(reqs)
    f.compare(inputs, code, model)
    f.note = "both readers as fixed by D63: lengths of the selected partitions in selection order"
    return f


# public-API expressions exercising the classes flagged _is_length_preserving (T4)
def _flagged_api(df, other):
    s = df.a
    return {
        "Add": lambda: df + 1, "Assign": lambda: df.assign(z=s + 1), "Projection": lambda: df[["a", "b"]], "Index": lambda: df.index,
        "RenameFrame": lambda: df.rename(columns={"a": "A"}), "RenameSeries": lambda: s.rename("q"), "AsType": lambda: df.astype("float64"),
        "Fillna": lambda: df.fillna(0), "Replace": lambda: df.replace(1, 2), "Isin": lambda: s.isin([1, 2]), "Clip": lambda: df.clip(1, 5),
        "Between": lambda: s.between(1, 5), "IsNa": lambda: df.isna(), "NotNull": lambda: df.notnull(), "Mask": lambda: s.mask(s > 2, 0),
        "Where": lambda: s.where(s > 2, 0), "Round": lambda: df.round(1), "Abs": lambda: df.abs(), "ToFrame": lambda: s.to_frame(),
        "Apply": lambda: s.apply(lambda x: x + 1, meta=("a", "int64")), "Map": lambda: s.map({1: 2}), "Drop": lambda: df.drop(columns=["a"]),
        "ResetIndex": lambda: df.reset_index(), "AddPrefix": lambda: df.add_prefix("p"), "AddSuffix": lambda: df.add_suffix("s"),
        "Eval": lambda: df.eval("z = a + b"), "Neg": lambda: -df, "Pos": lambda: +df, "Invert": lambda: ~(df > 1), "ToNumeric": lambda: __import__("dask_expr").to_numeric(s),
        "GT": lambda: df > 1, "And": lambda: (df > 1) & (df < 5), "Mul": lambda: df * 2, "CombineSeries": lambda: s.combine(df.b, max),
        "VarColumns": lambda: df.var(axis=1), "NUniqueColumns": lambda: df.nunique(axis=1), "Sqrt": None, "ToTimestamp": None,
        "ClearDivisions": lambda: df.clear_divisions(), "RenameAxis": lambda: df.rename_axis("ix"), "Split": None,
        "Repartition": lambda: df.repartition(npartitions=2), "RepartitionToMore": lambda: df.repartition(npartitions=7),
        "RepartitionDivisions": lambda: df.repartition(divisions=[df.divisions[0], df.divisions[-1]]),
        "Shuffle": lambda: df.shuffle("b", shuffle_method="tasks"), "DiskShuffle": lambda: df.shuffle("b", shuffle_method="disk"),
        "SortValues": lambda: df.sort_values("a"), "SetIndex": lambda: df.set_index("a"), "SetIndexBlockwise": lambda: df.set_index("v", sorted=True),
        "Sum(axis=1)": lambda: df.sum(axis=1), "CaseWhen": lambda: s.case_when([(s > 2, 0)]),
        "MethodOperator": lambda: df.add(df), "FillnaSeries": lambda: s.fillna(s.max()),
        "EQ": lambda: df == 1, "NE": lambda: df != 1, "GE": lambda: s >= 1, "LE": lambda: s <= 1, "LT": lambda: df < 1,
        "Div": lambda: df / 2, "FloorDiv": lambda: df // 2, "Mod": lambda: df % 2, "Pow": lambda: s ** 2, "Or": lambda: (s > 1) | (s < 0),
        "Sub": lambda: df - 1, "XOr": lambda: (s > 1) ^ (s < 3), "AddPrefixSeries": lambda: s.add_prefix("p"), "AddSuffixSeries": lambda: s.add_suffix("s"),
        "AssignIndex": lambda: _assign_index(df), "ColumnsSetter": lambda: _set_columns(df),
        "FunctionMap": lambda: s.astype(str).str.upper(), "PropertyMap": lambda: s.astype("datetime64[ns]").dt.year,
        "ToTimestamp": None, "Elemwise-dropna?": None,
    }


def _assign_index(df):
    d = df.copy()
    d.index = d.a
    return d


def _set_columns(df):
    d = df.copy()
    d.columns = ["x", "y", "z"]
    return d



def fam_len_conformance(ctx):
    """T4: every flagged class reachable through the public API really preserves the row count (lowered plans, all stages)."""
    import dask_expr as dx
    from harness import extractors_len

    f = Family("length_category_conformance[_is_length_preserving classes on small frames]")
    pdf = c11.base(11)
    flagged = {r[0].split(".")[-1] for r in extractors_len.length_flag_rows() if r[1]}
    seen = set()
    for k in (1, 3):
        df = dx.from_pandas(pdf, npartitions=k)
        for nm, mk in _flagged_api(df, None).items():
            if mk is None:
                continue
            try:
                q = mk()
                n_in = len(pdf)
                for stage, e in plans.stage_exprs(q.expr):
                    for node in e.walk():
                        cn = type(node).__name__
                        if cn in flagged and node.dependencies():
                            child = max(node.dependencies(), key=lambda d: d.npartitions)
                            a = sum(len(p) for p in e2e.compute_partitions(node, optimize=False))
                            b = sum(len(p) for p in e2e.compute_partitions(child, optimize=False))
                            seen.add(cn)
                            f.compare([{"class": cn, "via": nm, "npartitions": k, "stage": stage}], [a], [b])
                        if stage != "unoptimized":
                            break
            except Exception as ex:  # noqa: BLE001
                f.compare([{"via": nm, "npartitions": k}], [f"ERR {type(ex).__name__}: {str(ex)[:80]}"], ["rows preserved"])
    missing = sorted(flagged - seen)
    f.note = f"{len(seen)} of {len(flagged)} flagged classes exercised through the public API; model side = rows of the dependency the Len rule descends to; not exercised: {', '.join(missing[:40])}"
    return f


def families(ctx):
    return [c11.fam_seldiv, c11.fam_fromarray, c11.fam_frompandas, c11.fam_head_divisions, fam_fused, fam_concat,
            fam_len_rules, fam_pq_lengths, fam_len_conformance, _c13_fewer_more]


def _c13_fewer_more(ctx):
    """RepartitionToFewer/_ToMore layers, _nsplits, _divisions (C06_repartition_* rest on the C13 models)"""
    from harness.props import c13

    return c13.fam_graph_fewer_more(ctx)
