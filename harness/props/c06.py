"""C06 — reported partition structure (npartitions, divisions, lengths) is truthful."""
from __future__ import annotations

import itertools

import numpy as np
import pandas as pd

from harness import e2e, plans, programs
from harness.core import Family, Failure, Support, drive, first_diff
from harness.props import c11

LEAN_MODULES = ["DxModel.Props.C06"]
GENERATED = ["LengthFlags"]
TRUSTED = [
    "dask.dataframe.io.io.sorted_division_locations (legacy dask) is not modelled: its output is checked against the hypothesis `locsOK` of C06_frompandas (T3)",
    "hand-assigned row-count category of each class flagged _is_length_preserving (harness/extractors.py LENGTH_CATEGORIES; validated by family length_category_conformance)",
    "parquet statistics (num-rows) are taken as given; only the selection logic of _get_lengths is modelled",
]
PARTIAL = [
    "C06_partitions is proven for strictly ascending selections (the code reports unknown divisions otherwise: C06_partitions_unknown)",
    "indexed Merge / interleaved Concat: proven that unique(merge_sorted(...)) is sorted, duplicate-free and contains both inputs' divisions; truthfulness of the aligned partitions is C13's repartition theorem",
    "C06_len_elemwise_partial: Len/Lengths push-down picks the first dependency with the most partitions; sound when that dependency is row-aligned (not for a leading scalar operand of a single-partition frame: counterexample theorem)",
]
EXPLANATION = (
    "Theorems: DivInv is preserved by every modelled _divisions()+task pair (Blockwise, Partitions/PartitionsFiltered, Head, Tail, FusedIO, "
    "RepartitionToFewer/Divisions (from C13), Concat, FromArray, FromPandas under the checked hypothesis), partition counts, length push-down table "
    "(decide over the live _is_length_preserving flags) and soundness of the Len/Lengths/Size rules. Tie: every modelled _divisions()/_get_lengths() "
    "versus the model (exhaustive small), T4 conformance of the flagged classes. Support: every node of every plan stage of the vetted programs "
    "x layouts and dedicated frames (duplicate-int, float, string, datetime indexes): divisions sorted, npartitions+1 entries, every computed "
    "partition inside its bounds, computed partition count = npartitions; len/shape/size/Lengths through the metadata-only paths = computed data."
)

# =========================================================================== node-level truthfulness


def _is_frame(meta):
    return isinstance(meta, (pd.DataFrame, pd.Series, pd.Index))


def _idx(part):
    if isinstance(part, pd.Index):
        return part
    return part.index


def division_problems(divs, parts):
    """-> None | text: `divs` (all known) against the computed partitions."""
    divs = list(divs)
    if len(divs) != len(parts) + 1:
        return f"{len(divs)} divisions for {len(parts)} computed partitions"
    try:
        if any(b < a for a, b in zip(divs, divs[1:])):
            return f"divisions not sorted: {divs}"
    except TypeError as ex:
        return f"divisions not comparable: {divs}: {ex}"
    for i, p in enumerate(parts):
        if not _is_frame(p) or len(p) == 0:
            continue
        idx = _idx(p)
        if isinstance(idx, pd.MultiIndex):
            continue
        idx = idx[~idx.isna()] if idx.hasnans else idx
        if len(idx) == 0:
            continue
        lo, hi = idx.min(), idx.max()
        try:
            ok_lo = lo >= divs[i]
            ok_hi = hi < divs[i + 1] or (i == len(parts) - 1 and hi <= divs[i + 1])
        except TypeError as ex:
            return f"division {divs[i]!r} not comparable with index value {lo!r}: {ex}"
        if not (ok_lo and ok_hi):
            return f"partition {i} holds index values [{lo!r}, {hi!r}] outside its divisions [{divs[i]!r}, {divs[i+1]!r}{']' if i == len(parts)-1 else ')'}; divisions={divs}"
    return None


def _subnodes(expr):
    """post-order (dependencies first) list of the nodes of a lowered plan, Fused groups opened"""
    from dask_expr._expr import Fused

    out, seen = [], set()

    def rec(e):
        if e._name in seen:
            return
        seen.add(e._name)
        for d in e.dependencies():
            rec(d)
        if isinstance(e, Fused):
            for fe in reversed(e.exprs):
                if fe._name not in seen:
                    seen.add(fe._name)
                    out.append(fe)
        out.append(e)

    rec(expr)
    return out


def _flat(keys):
    out = []
    for k in keys:
        if isinstance(k, list):
            out += _flat(k)
        else:
            out.append(k)
    return out


def _skip_divisions(node):
    """Intermediate nodes of tree reductions hold partial aggregates, not collections: their `divisions` only
    carry the partition count (nothing consumes the values).  Their partition count is still checked."""
    from dask_expr._reductions import Chunk

    from dask_expr._expr import Fused

    if isinstance(node, Fused):
        return _skip_divisions(node.exprs[0])
    return isinstance(node, Chunk) or type(node).__name__ in ("TreeReduce", "ShuffleReduce", "GroupByChunk", "GroupByApplyConcatApply")


def plan_problem(expr):
    """First (deepest) node of a lowered plan whose reported structure is not truthful.
    -> None | (node class, what, detail)"""
    import dask

    try:
        g = dict(expr.__dask_graph__())
    except Exception:  # noqa: BLE001  (C09's business)
        return None
    todo = []
    for node in _subnodes(expr):
        try:
            meta = node._meta
        except Exception:  # noqa: BLE001  (helper nodes such as _DelayedExpr are not collections)
            continue
        if not _is_frame(meta):
            continue
        try:
            np_ = node.npartitions
            divs = node.divisions
        except Exception as ex:  # noqa: BLE001
            return (type(node).__name__, f"raised:{type(ex).__name__}", f"{type(node).__name__}.divisions/npartitions raised {type(ex).__name__}: {str(ex)[:200]}")
        try:
            keys = _flat(node.__dask_keys__())
        except Exception:  # noqa: BLE001
            continue
        if not all(k in g for k in keys):
            try:
                for k, v in node.__dask_graph__().items():
                    g.setdefault(k, v)
            except Exception:  # noqa: BLE001
                continue
        todo.append((node, np_, divs, keys))
    try:
        allparts = dask.get(g, [t[3] for t in todo])
    except Exception:  # noqa: BLE001  (execution failures belong to C01/C02/C14): fall back to node-by-node
        allparts = []
        for t in todo:
            try:
                allparts.append(dask.get(g, t[3]))
            except Exception:  # noqa: BLE001
                allparts.append(None)
    for (node, np_, divs, keys), parts in zip(todo, allparts):
        if parts is None:
            continue
        parts = list(parts)
        if len(parts) != np_:
            return (type(node).__name__, "npartitions", f"{type(node).__name__}: {len(parts)} computed partitions, npartitions={np_}")
        if len(divs) != np_ + 1:
            return (type(node).__name__, "divisions-length", f"{type(node).__name__}: {len(divs)} divisions for npartitions={np_}")
        if _skip_divisions(node):
            continue
        if any(d is None for d in divs) or any(isinstance(d, float) and np.isnan(d) for d in divs):
            continue  # unknown divisions claim nothing
        msg = division_problems(divs, parts)
        if msg:
            return (type(node).__name__, "divisions", f"{type(node).__name__}: {msg}")
    return None


# =========================================================================== metadata-only row counts


def length_problem(q, opt_len_only=False):
    """len(), shape, size and Lengths of collection q through the optimiser versus the computed data.
    -> None | (what, detail)"""
    import dask

    from dask_expr._expr import Lengths

    r = e2e.run_or_err(lambda: e2e.compute_partitions(q, optimize=False))
    if r[0] == "err":
        return None  # the query itself is not computable
    parts = r[1]
    n = sum(len(p) for p in parts)
    whole = pd.concat(parts) if len(parts) else None
    rl = e2e.run_or_err(lambda: len(q))
    if rl[0] == "err":
        rd = e2e.run_or_err(lambda: len((q.index if hasattr(q, "index") else q).compute()))
        if rd[0] == "err" and rd[1] == rl[1]:
            return None  # the optimised DATA path fails the same way: not a metadata-path problem (C01/C14)
        return (f"len-raised:{rl[1]}", f"len() raised {rl[1]}: {rl[2]}")
    if rl[1] != n:
        return ("len", f"len() = {rl[1]}, computed data has {n} rows")
    rs = e2e.run_or_err(lambda: q.size.compute())
    want_size = int(whole.size) if whole is not None else 0
    if rs[0] == "err":
        return (f"size-raised:{rs[1]}", f".size raised {rs[1]}: {rs[2]}")
    if int(rs[1]) != want_size:
        return ("size", f".size = {rs[1]}, computed data has size {want_size}")
    rsh = e2e.run_or_err(lambda: tuple(int(v.compute()) if hasattr(v, "compute") else int(v) for v in q.shape))
    if rsh[0] == "err":
        return (f"shape-raised:{rsh[1]}", f".shape raised {rsh[1]}: {rsh[2]}")
    if rsh[1] != tuple(whole.shape):
        return ("shape", f".shape = {rsh[1]}, computed data has shape {tuple(whole.shape)}")

    def lengths():
        le = Lengths(q.expr).optimize()
        g = dict(le.__dask_graph__())
        (v,) = dask.get(g, le.__dask_keys__())
        return tuple(int(x) for x in v)

    rL = e2e.run_or_err(lengths)
    if rL[0] == "err":
        return (f"lengths-raised:{rL[1]}", f"Lengths raised {rL[1]}: {rL[2]}")
    real = tuple(len(p) for p in parts)
    if rL[1] != real:
        if len(rL[1]) != len(real) and sum(rL[1]) == sum(real) and c11._has_fused_io(q):
            return None  # FusedIO coarsens the partitions of the optimised plan
        return ("lengths", f"Lengths = {rL[1]}, computed partitions have lengths {real}")
    return None


# =========================================================================== dedicated frames

INDEXES = {
    "int": lambda n: pd.Index(np.arange(n, dtype="int64") * 2),
    "int_dup": lambda n: pd.Index([i // 3 for i in range(n)], dtype="int64"),
    "float": lambda n: pd.Index([i * 0.5 - 2 for i in range(n)], dtype="float64"),
    "float_dup": lambda n: pd.Index([float(i // 2) for i in range(n)], dtype="float64"),
    "str": lambda n: pd.Index(["k%02d" % (i // 2) for i in range(n)], dtype="object"),
    "datetime": lambda n: pd.date_range("2000-01-01", periods=n, freq="12h"),
}


def ded_frame(index_kind, npartitions, n=18):
    import dask_expr as dx

    pdf = c11.base(n)
    pdf.index = INDEXES[index_kind](n)
    return dx.from_pandas(pdf, npartitions=npartitions, sort=True)


def _other(index_kind, npartitions, shift, n=10):
    import dask_expr as dx

    pdf = pd.DataFrame({"w": np.arange(n, dtype="int64")})
    ix = INDEXES[index_kind](n + shift)[shift:]
    pdf.index = ix
    return dx.from_pandas(pdf, npartitions=npartitions, sort=True)


def _loc_bounds(x):
    d = [v for v in x.divisions if v is not None]
    return d[1] if len(d) > 2 else d[0], d[-2] if len(d) > 2 else d[-1]


DED_OPS = {
    "id": lambda x, k: x,
    "add1": lambda x, k: x[["a", "v"]] + 1,
    "filter": lambda x, k: x[x.a > 6],
    "col": lambda x, k: x.a,
    "index": lambda x, k: x.index,
    "parts_asc": lambda x, k: x.partitions[[0, x.npartitions - 1]] if x.npartitions > 1 else x.partitions[[0]],
    "parts_mid": lambda x, k: x.partitions[1:3] if x.npartitions > 2 else x.partitions[[0]],
    "parts_rev": lambda x, k: x.partitions[[x.npartitions - 1, 0]],
    "parts_rep": lambda x, k: x.partitions[[0, 0]],
    "add1_parts": lambda x, k: (x[["a"]] + 1).partitions[[x.npartitions - 1]],
    "head": lambda x, k: x.head(4, npartitions=min(2, x.npartitions), compute=False),
    "head_all": lambda x, k: x.head(40, npartitions=-1, compute=False),
    "tail": lambda x, k: x.tail(3, compute=False),
    "repart_fewer": lambda x, k: x.repartition(npartitions=max(1, x.npartitions - 2)),
    "repart_more": lambda x, k: x.repartition(npartitions=x.npartitions + 3),
    "repart_one": lambda x, k: x.repartition(npartitions=1),
    "loc_slice": lambda x, k: x.loc[_loc_bounds(x)[0] : _loc_bounds(x)[1]],
    "loc_from": lambda x, k: x.loc[_loc_bounds(x)[0] :],
    "loc_list": lambda x, k: x.loc[[x.divisions[0], x.divisions[-1]]],
    "reset_index": lambda x, k: x.reset_index(drop=True),
    "set_index_a": lambda x, k: x.set_index("a"),
    "sort_values": lambda x, k: x.sort_values("a"),
    "set_index_parts": lambda x, k: x.set_index("a").partitions[[0, 2]] if x.npartitions > 2 else x.set_index("a"),
    "set_index_parts_rev": lambda x, k: x.set_index("a").partitions[[1, 0]] if x.npartitions > 2 else x.set_index("a"),
    "shuffle": lambda x, k: x.shuffle("b", shuffle_method="tasks"),
    "concat_mono": lambda x, k: _concat_mono(x, k),
    "concat_interleave": lambda x, k: _concat_interleave(x, k),
    "concat_unknown": lambda x, k: _concat_unknown(x, k),
    "merge_index": lambda x, k: x.merge(_other(k, 2, 3), left_index=True, right_index=True, how="inner"),
    "merge_index_left": lambda x, k: x.merge(_other(k, 3, 5), left_index=True, right_index=True, how="left"),
    "join_series_align": lambda x, k: x.a + _other(k, 2, 2).w,
    "map_partitions": lambda x, k: x.map_partitions(lambda p: p.assign(m=1)),
    "shift": lambda x, k: x[["a"]].shift(1),
    "cumsum": lambda x, k: x[["a", "v"]].cumsum(),
    "groupby_sum": lambda x, k: x.groupby("b").v.sum(),
    "dropdup": lambda x, k: x.drop_duplicates(subset=["b"]),
    "value_counts": lambda x, k: x.b.value_counts(),
}


def _concat_mono(x, k):
    import dask_expr as dx

    n = 18
    pdf = c11.base(8)
    pdf.index = INDEXES[k](n + 12)[n + 2 : n + 10]
    y = dx.from_pandas(pdf, npartitions=2, sort=True)
    return dx.concat([x, y])


def _concat_interleave(x, k):
    import dask_expr as dx

    pdf = c11.base(8)
    pdf.index = INDEXES[k](14)[6:14]
    y = dx.from_pandas(pdf, npartitions=2, sort=True)
    return dx.concat([x, y], interleave_partitions=True)


def _concat_unknown(x, k):
    import dask_expr as dx

    return dx.concat([x, x.clear_divisions()])


def ded_cases(ctx):
    cases = []
    for ik in INDEXES:
        for np_ in (1, 2, 4, 7):
            for op in DED_OPS:
                cases.append({"kind": "dedicated", "index": ik, "npartitions": np_, "op": op})
    # partition-filtered multi-file parquet reads (FusedIO) and arrays
    for src in ("read_parquet_div", "read_parquet", "read_parquet_arrow", "from_array", "from_map_div", "from_delayed_div", "timeseries", "read_csv"):
        for chain in ("id", "col_a", "add1", "bcast_series"):
            for P in (None, [1, 2], [0, 2, 3], [3, 1], [0, 0, 1]):
                cases.append({"kind": "source", "source": src, "chain": chain, "P": P})
    return cases


def build_case(case):
    if case["kind"] == "dedicated":
        x = ded_frame(case["index"], case["npartitions"])
        return DED_OPS[case["op"]](x, case["index"])
    if case["kind"] == "source":
        x = c11.build(case["source"], case["chain"])
        if case["P"] is not None:
            if max(case["P"]) >= x.npartitions:
                return None
            x = x.partitions[case["P"]]
        return x
    if case["kind"] == "program":
        progs = _progs_by_name()
        return plans.build(progs[case["program"]], case["layout"])
    raise KeyError(case["kind"])


_PROGS = None


def _progs_by_name():
    global _PROGS
    if _PROGS is None:
        _PROGS = {p.name: p for p in programs.valid_programs(2, "any")}
    return _PROGS


MUST_RUN_PROGRAMS = ["head3/id", "tail2/id", "repart5/id", "repart2/id", "set_index_a/id", "sort_b/id", "merge_index", "concat",
                     "concat_axis1", "filt_a/repart5/id", "shuffle_b/id", "reset_index/id", "cumsum/id", "shift1/id", "add1/head3/id",
                     "repart5/head3/id", "set_index_a/repart2/id", "dropdup_b/id", "mappart/id", "index", "filt_a/index", "len",
                     "add1/len", "filt_a/len", "repart5/len", "shuffle_b/len", "sort_b/len", "set_index_a/len", "concat"]


def program_cases(ctx, broken):
    progs = programs.valid_programs(2, "any")
    must = [p for p in progs if p.name in MUST_RUN_PROGRAMS]
    n = 30 if ctx.quick else 1200
    sel = plans.seeded_slice(ctx, progs, n)
    layouts = [0] if ctx.quick else list(range(len(plans.LAYOUTS)))
    out = []
    for p in must + sel:
        for lay in layouts if p in must or not ctx.quick else [ctx.rng.randrange(len(plans.LAYOUTS))]:
            out.append({"kind": "program", "program": p.name, "layout": lay})
    return out


def run_case(case):
    """-> None | (sig dict, detail)"""
    q = e2e.run_or_err(lambda: build_case(case))
    if q[0] == "err" or q[1] is None or not hasattr(q[1], "expr"):
        return None
    q = q[1]
    st = e2e.run_or_err(lambda: plans.stage_exprs(q.expr))
    if st[0] == "err":
        return None  # optimizer failures belong to C01/C19
    for stage, e in st[1]:
        pr = plan_problem(e)
        if pr:
            node, what, detail = pr
            return ({"check": "structure", "node": node, "what": what}, f"stage {stage}: {detail}")
    if _is_frame(q._meta) and not isinstance(q._meta, pd.Index):
        lp = length_problem(q)
        if lp:
            what, detail = lp
            return (_rowcount_sig(q, what), detail)
    return None


def _rowcount_sig(q, what):
    """symptom x the operators on the spine of the logical plan below any partition selection x the
    shape of the selection (none / ascending / reordered / repeated)"""
    from dask_expr._expr import Partitions

    sel = "none"
    for n in q.expr.walk():
        if isinstance(n, Partitions):
            shape = c11._sel_shape(list(n.partitions))
            sel = shape if shape in ("repeated", "reordered") else "ascending"
            break
    spine = [x for x in _plan_shape(q).split("/") if x != "Partitions"]
    return {"check": "rowcount", "what": what, "reader": spine[-1], "selection": sel,
            "through": "/".join(spine[:-1]) or "-"}


def _plan_shape(q):
    """classes on the spine of the logical plan (signature of a row-count failure)"""
    names = []
    e = q.expr
    for _ in range(5):
        names.append(type(e).__name__)
        deps = e.dependencies()
        if not deps:
            break
        e = max(deps, key=lambda d: d.npartitions)
    return "/".join(names)


# scalar-first elementwise operations on single-partition frames, partition-filtered sources: metadata-only row counts
def rowcount_cases(ctx):
    cases = []
    for src in ("from_pandas", "from_pandas_one", "from_array", "read_parquet", "read_parquet_arrow", "read_parquet_div", "from_map", "read_csv"):
        for chain in ("id", "col_a", "add1", "bcast_series", "bcast_rev", "filter", "assign_series", "binop_filters"):
            for P in (None, [1, 2], [0, 0], [2, 0], [0, 2]):
                cases.append({"kind": "rowcount", "source": src, "chain": chain, "P": P})
    return cases


c11.CHAINS.setdefault("bcast_rev", (lambda x: x.a.max() - x.a, False, False))
c11._MECHANISM.setdefault("bcast_rev", "broadcast-operand")
c11.CHAINS.setdefault("binop_filters", (lambda x: x.a[x.a > 4] + x.v[x.v < 120], False, False))
c11._MECHANISM.setdefault("binop_filters", "elemwise")


def run_rowcount(case):
    def mk():
        x = c11.build(case["source"], case["chain"])
        if case["P"] is not None:
            if max(case["P"]) >= x.npartitions:
                return None
            x = x.partitions[case["P"]]
        return x

    q = e2e.run_or_err(mk)
    if q[0] == "err" or q[1] is None:
        return None
    lp = length_problem(q[1])
    if lp:
        what, detail = lp
        return (_rowcount_sig(q[1], what), detail)
    return None


def _all_cases(ctx, broken):
    ded = ded_cases(ctx)
    rc = rowcount_cases(ctx)
    prog = program_cases(ctx, broken)
    if ctx.quick:
        idx = list(range(len(ded)))
        ctx.rng.shuffle(idx)
        ded = [ded[i] for i in sorted(idx[: (170 if not broken else 600)])]
        idx = list(range(len(rc)))
        ctx.rng.shuffle(idx)
        rc = [rc[i] for i in sorted(idx[:90])]
    return MUST_RUN + prog + ded + rc


MUST_RUN = [
    {"kind": "source", "source": "read_parquet_div", "chain": "col_a", "P": None},            # D5 (FusedIO last division)
    {"kind": "source", "source": "read_parquet_div", "chain": "add1", "P": [1, 2]},
    {"kind": "dedicated", "index": "int", "npartitions": 4, "op": "parts_rev"},                # D12
    {"kind": "dedicated", "index": "int", "npartitions": 4, "op": "parts_rep"},                # D12
    {"kind": "dedicated", "index": "int", "npartitions": 4, "op": "repart_more"},              # D14
    {"kind": "dedicated", "index": "int", "npartitions": 2, "op": "repart_more"},
    {"kind": "source", "source": "from_array", "chain": "id", "P": [1, 2]},                    # D4
    # one witness per mechanism that failed while this check was developed
    {"kind": "source", "source": "read_parquet_div", "chain": "col_a", "P": [3, 1]},           # FusedIO, reordered selection
    {"kind": "rowcount", "source": "from_pandas", "chain": "col_a", "P": [0, 0]},              # FromPandas._get_lengths
    {"kind": "rowcount", "source": "read_parquet", "chain": "col_a", "P": [1, 2]},             # ReadParquet._get_lengths
    {"kind": "rowcount", "source": "read_parquet_arrow", "chain": "col_a", "P": [1, 2]},
    {"kind": "rowcount", "source": "from_pandas", "chain": "binop_filters", "P": None},        # Len(x + y) = Len(x)
    {"kind": "dedicated", "index": "int", "npartitions": 4, "op": "set_index_parts_rev"},      # _SetIndexPost culling
]


def support(ctx, broken):
    sup = Support()
    seen = set()
    for case in _all_cases(ctx, broken):
        try:
            res = run_rowcount(case) if case["kind"] == "rowcount" else run_case(case)
        except Exception as ex:  # noqa: BLE001
            res = ({"check": "harness-exception"}, f"{type(ex).__name__}: {str(ex)[:300]}")
        sup.executed += 1
        sup.count(case["kind"])
        if len(sup.samples) < 3:
            sup.samples.append(case)
        if res:
            sig, detail = res
            k = repr(sorted(sig.items()))
            if k in seen:
                continue
            seen.add(k)
            sup.failures.append(Failure(sig=sig, case=case, detail=detail))
            if len(sup.failures) >= 40:
                break
    return sup


def replay(case):
    res = run_rowcount(case) if case["kind"] == "rowcount" else run_case(case)
    return Failure(sig=res[0], case=case, detail=res[1]) if res else None


def families(ctx):
    return []
