"""C17 — materialization boundaries are transparent."""
from __future__ import annotations

import functools
import itertools

import pandas as pd

from harness import e2e, graphs, programs
from harness.core import Failure, Family, Support, drive
from harness.render import Names, rgraph, task_refs

LEAN_MODULES = ["DxModel.Props.C17"]
GENERATED = []
TRUSTED = [
    "harness/render.py + the `_Lower` canonicaliser in harness/props/c17.py (lower-graph tasks are opaque `t<id>(refs)`, "
    "identified by structural equality with the task of the graph that was cut)",
    "dask (outside /repo): the synchronous scheduler behind persist (model: `res i` = value of key `out i`), "
    "`HighLevelGraph`/`Delayed` plumbing of the legacy `to_delayed` and the legacy `optimize` (model: `cull`; tied on real "
    "graphs by exact graph equality and the proven `cullCheck`), `new_dd_object`",
    "`dask.dataframe.utils.check_meta`: its decision is the Lean specification `metaMatches` (validated by the "
    "conformance family on generated schema pairs); theorems are stated for any `ok : V -> Bool`",
    "that a computed partition of a collection is a frame-like value (`litOf`): persist of a failing computation raises "
    "and builds nothing",
]
PARTIAL = [
    "legacy round trip: `to_legacy_dataframe` / `from_legacy_dataframe` are modelled as what they reduce to — "
    "`FromGraph(cull(graph of x.optimize()) , divisions, [(name, i)], prefix)` — and tied on real objects; the dask-legacy "
    "classes in between (`new_dd_object`, `_Frame`, `HighLevelGraph`) and `from_dask_array` are only exercised by the round-trip search",
    "relative to the query the user wrote, the delayed / persist / legacy theorems take 'the optimised plan computes the "
    "same partition values' as an explicit hypothesis (discharged by C01_optimize_sound and C14_task on the modelled fragment)",
    "what the optimiser later does to the imported node is covered by the generic rules (FromGraph is a plain IO "
    "expression; FromDelayed is PartitionsFiltered: C11) and by the support search, not by a C17 theorem",
    "NOT transparent, kept visible by the support probe `object_string_meta` (open finding D97): when the "
    "meta at the cut has object-dtype string columns (e.g. after map_partitions) the legacy collection behind `to_delayed` / "
    "`to_legacy_dataframe` appends a `to_pyarrow_string` layer — Delayed keys are then that layer's keys, partitions come back as "
    "`string`, `from_delayed(x.to_delayed(), meta=x._meta)` raises 'Metadata mismatch'. The model (keys = output keys of "
    "x.optimize()) and the families cover metas without such columns",
    "names: `_name` prefixes (`key_split(state._name)`, `fromdelayed-`/prefix) are compared on real objects, uniqueness of the "
    "tokens is C08",
]
EXPLANATION = (
    "Model (Layers/Boundary.lean): FromGraph (_layer, divisions, npartitions = len(divisions)-1, __dask_keys__), persist "
    "(postpersist rebuild: layer {key: value}, state.divisions, state.__dask_keys__()), to_delayed (always x.optimize(); "
    "optimize_graph=True only culls; every Delayed carries the whole graph; Delayed keys are the tuples (name, i)), "
    "_DelayedExpr._layer (copy, add ((name,i),0), pop (name,i)), FromDelayed (_filtered_task with check_meta/identity, "
    "_partitions, divisions default/validation), Expr.__dask_graph__ (seen-walk + toolz.merge), the legacy round trip "
    "(= FromGraph of the culled graph), check_meta's decision. "
    "Theorems: alias layer; cut theorem and its instance for a query stacked on a collection; cull preserves kept keys; "
    "FromDelayed value (any shared acyclic graph, any _partitions, incl. the one-partition case where the Delayed's own "
    "key is popped everywhere); from_delayed(to_delayed(x)) partition i = verify-wrapper(partition i) for both "
    "optimize_graph variants, any n; persist: embedded layer is literals at exactly the output keys, structure taken "
    "over, every stacked query evaluates equally over the original graph and over FromGraph(persisted values); legacy "
    "round trip values/structure; divisions/npartitions of every construct (passed along or unknown with length n+1; "
    "explicit errors for empty / 'sorted' / wrong length); verify_meta wrapper is identity or explicit error. "
    "Tie: exact graph equality of the REAL objects (FromGraph._layer, persist().expr, to_delayed(optimize_graph=..), "
    "from_delayed(..).expr whole graph + own layer + every _DelayedExpr._layer, from_legacy_dataframe(..).expr) with "
    "__dask_keys__/divisions/npartitions for partition counts 1..6 over real lower graphs (blockwise, fused, cumulative, "
    "partition-filtered, imported graphs with unreachable keys); conformance of check_meta. "
    "Support: every cut point of the vetted chains x {persist, to_delayed/from_delayed, legacy round trip} x node kind "
    "at the cut: result, meta schema and divisions equal the uncut query."
)


# --------------------------------------------------------------------------- T2: FromGraph._layer


def fam_fromgraph(ctx):
    from dask_expr.io.io import FromGraph

    f = Family("graph_equality[FromGraph._layer]")
    meta = pd.DataFrame({"a": pd.Series([], dtype="int64")})
    reqs, code, inputs = [], [], []
    for n in range(1, 6):
        base = {("x", i): meta for i in range(n)}
        sels = [list(s) for r in range(1, n + 1) for s in itertools.permutations(range(n), r)]
        if ctx.quick:
            ctx.rng.shuffle(sels)
            sels = sels[:12]
        sels.append([0] * 2)
        for keys in sels:
            e = FromGraph(base, meta, (None,) * (len(keys) + 1), [("x", k) for k in keys], "imported")
            dsk = e._layer()
            code.append("G " + rgraph(dsk, Names(e._name, [])))
            reqs.append(f"layer fromgraph n={n} keys={','.join(map(str, keys))}")
            inputs.append({"n": n, "keys": keys})
    f.compare(inputs, code, drive(reqs), [len(set(i["keys"])) != len(i["keys"]) or i["keys"] != sorted(i["keys"]) or True for i in inputs])
    return f


# --------------------------------------------------------------------------- cuts


def _cut(mid, how):
    import dask_expr as dx

    if how == "persist":
        return mid.persist()
    if how in ("delayed", "delayed_nv", "delayed_nog"):
        divs = mid.divisions if mid.known_divisions else None
        return dx.from_delayed(mid.to_delayed(optimize_graph=(how != "delayed_nog")), meta=mid._meta, divisions=divs,
                               verify_meta=(how != "delayed_nv"))
    if how == "delayed_prefix":
        # a user-chosen name prefix, divisions not passed along (unknown): the name must still tell selections apart
        return dx.from_delayed(mid.to_delayed(), meta=mid._meta, prefix="recut")
    if how == "legacy":
        return dx.from_legacy_dataframe(mid.to_legacy_dataframe())
    raise ValueError(how)


_CUT_OPS = [
    programs.Op("parts_rev", lambda d: d.partitions[::-1] if programs._dd(d) else d, family="partitions", unordered=True),
    programs.Op("parts_tail", lambda d: d.partitions[1:] if programs._dd(d) else d.iloc[3:], family="partitions"),
    programs.Op("parts_20", lambda d: d.partitions[[2, 0]] if programs._dd(d) else d.iloc[[6, 7, 0, 1, 2]], family="partitions", unordered=True),
    # two different selections of equal length combined in one query
    programs.Op("parts_first_last", lambda d: programs._concat([d.partitions[0], d.partitions[d.npartitions - 1]]) if programs._dd(d) else d,
                family="partitions", unordered=True),
    programs.Op("parts_last_minus_first", lambda d: (d.partitions[d.npartitions - 1].sum() - d.partitions[0].sum()) if programs._dd(d) else d.sum(),
                family="partitions"),
    programs.Op("tail2c", lambda d: d.tail(2, compute=False) if programs._dd(d) else d.tail(2), family="head"),
]


def _all_ops():
    return {o.name: o for o in list(programs.UNARY) + _CUT_OPS}


def _chains(ctx):
    ops = _all_ops()
    terms = {o.name: o for o in programs.TERMINAL}
    heads = ["proj_ab", "filt_a", "assign_z", "add1", "rename_aA", "set_index_a", "sort_b", "cumsum", "shuffle_b",
             "repart2", "dropna_c", "mappart", "reset_index", "fillna0", "head3", "dropdup_b", "shift1", "prefix",
             "parts_rev", "parts_tail", "parts_20"]
    tails = ["proj_ab", "filt_a", "assign_a", "add1", "fillna0", "repart5", "cumsum", "sort_a_desc", "abs", "dropna",
             "parts_tail", "parts_20", "tail2c", "parts_first_last", "parts_last_minus_first"]
    tnames = ["id", "sum", "count", "len", "col0", "gb_sum", "self_add", "index", "shared_sum"]
    cases = []
    for h in heads:
        for t in tails:
            for tn in tnames:
                cases.append((h, t, tn))
    # node kinds at the cut: series, index, scalar-producing heads
    return cases, ops, terms


def _legal(h, t, tn, ops, terms):
    """apply the same order/index rules as the vetted program space"""
    chain = (ops[h], ops[t])
    return programs._order_ok(chain, terms[tn]) and not programs._excluded(chain, terms[tn])


def run_case(case):
    ops = _all_ops()
    terms = {o.name: o for o in programs.TERMINAL}
    h, t, tn, how, cutpos = case["head"], case["tail"], case["term"], case["how"], case["cut"]
    if case.get("layout", 0) == 3:
        # a bare from_pandas source: partition selections are absorbed into the source node itself
        import dask_expr as dx

        env = {"L": dx.from_pandas(e2e.T_int(), npartitions=3), "R": dx.from_pandas(e2e.T_right(), npartitions=2)}
    else:
        env = programs.dask_env(*[(None, None, True), ([0, 0, 3, 8], [0, 6], True), ([0, 1, 2, 4, 8], [0, 1, 6], False)][case.get("layout", 0)])
    penv = programs.pandas_env()
    try:
        terms[tn].fn(ops[t].fn(ops[h].fn(penv["L"])))
    except Exception:  # noqa: BLE001
        return None  # not a valid pandas program
    try:
        uncut_mid = ops[h].fn(env["L"])
        uncut = terms[tn].fn(ops[t].fn(uncut_mid))
        want = uncut.compute() if hasattr(uncut, "compute") else uncut
        want_meta = e2e.canon_obj(uncut._meta) if hasattr(uncut, "_meta") else None
        want_div = uncut.divisions if hasattr(uncut, "divisions") else None
    except Exception:  # noqa: BLE001
        return None  # uncut query not computable: nothing to compare
    try:
        if cutpos == 1:
            mid = _cut(ops[h].fn(env["L"]), how)
            q = terms[tn].fn(ops[t].fn(mid))
        else:
            mid = _cut(ops[t].fn(ops[h].fn(env["L"])), how)
            q = terms[tn].fn(mid)
        got = q.compute() if hasattr(q, "compute") else q
    except Exception as ex:  # noqa: BLE001
        # a boundary can only be transparent where there is something to materialise: when the collection at the cut
        # point cannot be planned and computed on its own either (e.g. sort_values by the index name over several
        # partitions raises KeyError in SortValues._lower — the uncut `len` succeeds only because Len skips the sort), the failure is not an effect of the boundary
        try:
            prefix = ops[h].fn(env["L"]) if cutpos == 1 else ops[t].fn(ops[h].fn(env["L"]))
            e2e.compute_partitions(prefix)  # partition by partition: compute() would plan a one-partition variant
        except Exception:  # noqa: BLE001
            return None
        return f"cut query raised {type(ex).__name__}: {str(ex)[:160]}"
    unordered = ops[h].unordered or ops[t].unordered or terms[tn].unordered
    noindex = ops[h].noindex or ops[t].noindex or terms[tn].noindex
    if not e2e.same(got, want, sort_rows=unordered, drop_index=noindex):
        return f"result differs: got {e2e.describe(got, 6)} want {e2e.describe(want, 6)}"
    if hasattr(q, "_meta") and want_meta is not None and e2e.canon_obj(q._meta)[:2] != want_meta[:2]:
        return f"meta differs: {e2e.canon_obj(q._meta)[:2]} vs {want_meta[:2]}"
    if want_div is not None and hasattr(q, "divisions"):
        qd = q.divisions
        if qd[0] is not None and want_div[0] is not None and tuple(qd) != tuple(want_div) and not unordered:
            return f"divisions differ: {qd} vs {want_div}"
        if qd[0] is not None and hasattr(q, "expr") and q.ndim > 0:
            # a cut may know more than the logical query (persist records the optimised plan's divisions),
            # but whatever it reports has to be truthful
            parts = e2e.compute_partitions(q)
            if len(parts) != len(qd) - 1:
                return f"the cut query reports {len(qd) - 1} partitions, {len(parts)} were computed"
            if list(qd) != sorted(qd):
                return f"the cut query reports unsorted divisions {qd}"
            for i, part in enumerate(parts):
                if len(part) == 0:
                    continue
                ix = part if isinstance(part, pd.Index) else part.index
                lo, hi = ix.min(), ix.max()
                if lo < qd[i] or hi > qd[i + 1] or (hi == qd[i + 1] and i < len(parts) - 1):
                    return f"the cut query reports divisions {qd} but its partition {i} holds index values [{lo}, {hi}]"
        # (the partition COUNT of unknown-division results is not compared: it is layout, not result, and the
        #  uncut side is affected by the open finding "Repartition above a sort", C06)
    # the graph of the re-imported query is well-formed (proven checker)
    if hasattr(q, "expr"):
        e = q.expr.optimize()
        g = dict(e.__dask_graph__())
        problems, req, _ = graphs.model_check_graph(g, graphs.flat_keys(e.__dask_keys__()))
        if problems:
            return "graph of the cut query: " + "; ".join(problems)
        if drive([req])[0] != "OK":
            return "proven order checker rejects the graph of the cut query"
    return None


def _cases(ctx):
    chains, ops, terms = _chains(ctx)
    cases = []
    for (h, t, tn) in chains:
        if not _legal(h, t, tn, ops, terms):
            continue
        for how in ("persist", "delayed", "delayed_nv", "delayed_nog", "delayed_prefix", "legacy"):
            for cut in (1, 2):
                cases.append({"head": h, "tail": t, "term": tn, "how": how, "cut": cut, "layout": 0})
    ctx.rng.shuffle(cases)
    must = [c for c in cases if (c["head"] in ("parts_rev", "parts_tail", "parts_20") and c["cut"] == 1 and c["how"] == "persist" and c["term"] in ("id", "sum") and c["tail"] in ("proj_ab", "add1"))
            or (c["how"] == "delayed_nv" and c["cut"] == 1 and c["tail"] in ("parts_tail", "parts_20", "tail2c") and c["term"] == "id" and c["head"] in ("add1", "filt_a"))]
    # a partition selection above an overlap operation, cut between the two (D82)
    must += [c for c in cases if c["head"] in ("shift1", "cumsum") and c["tail"] in ("parts_tail", "parts_20") and c["cut"] == 1
             and c["how"] in ("persist", "delayed") and c["term"] == "id"]
    # two equal-length selections of one re-imported collection (names of partition-filtered imports)
    must += [c for c in cases if c["tail"] in ("parts_first_last", "parts_last_minus_first") and c["cut"] == 1 and c["term"] == "id"
             and c["head"] in ("add1", "filt_a") and c["how"] in ("delayed_prefix", "delayed", "persist", "legacy")]
    must = must + [dict(c, layout=3) for c in must if c["how"] == "persist"]
    if ctx.quick:
        cases = must + cases[:220]
    else:
        cases = cases + [dict(c, layout=1) for c in cases[:1500]] + [dict(c, layout=2) for c in cases[:1500]]
    return cases


# --------------------------------------------------------------------------- T2: the real boundary objects


def _task_eq(a, b, depth=0):
    """structural equality of two tasks (two `_layer()` calls build equal but distinct task objects)"""
    if a is b:
        return True
    if type(a) is not type(b) or depth > 8:
        return False
    if isinstance(a, pd.DataFrame):
        return list(a.columns) == list(b.columns) and list(map(str, a.dtypes)) == list(map(str, b.dtypes)) and a.equals(b)
    if isinstance(a, (pd.Series, pd.Index)):
        return str(a.dtype) == str(b.dtype) and a.name == b.name and a.equals(b)
    if isinstance(a, (tuple, list)):
        return len(a) == len(b) and all(_task_eq(x, y, depth + 1) for x, y in zip(a, b))
    if isinstance(a, dict):
        return list(a) == list(b) and all(_task_eq(a[k], b[k], depth + 1) for k in a)
    if isinstance(a, functools.partial):
        return a.func is b.func and _task_eq(a.args, b.args, depth + 1) and _task_eq(a.keywords, b.keywords, depth + 1)
    try:
        return bool(a == b)
    except Exception:  # noqa: BLE001
        return False


class _Lower:
    """Canonical names for the graph that is cut: key -> k<id>; its tasks are opaque `t<id>(refs)` and must be the
    the tasks of the lower graph (structurally) wherever they re-appear (under the same key or under `(key, 0)`)."""

    def __init__(self, g0: dict):
        self.g0 = dict(g0)
        self.ids = {k: i for i, k in enumerate(sorted(self.g0, key=repr))}

    def has(self, k):
        try:
            return k in self.ids
        except TypeError:
            return False

    def listing(self):
        ents = []
        for k, i in sorted(self.ids.items(), key=lambda kv: kv[1]):
            ents.append(f"{i}:{','.join(str(self.ids[r]) for r in task_refs(self.g0[k], self.g0))}")
        return ";".join(ents) or "-"

    def rk(self, k):
        return f"k{self.ids[k]}"

    def rlower(self, k, v):
        if not _task_eq(v, self.g0[k]):
            return "?changed"
        return f"t{self.ids[k]}(" + ",".join(self.rk(r) for r in task_refs(v, self.g0)) + ")"

    def rarg(self, a):
        if self.has(a):
            return self.rk(a)
        if isinstance(a, tuple) and len(a) == 2 and a[1] == 0 and self.has(a[0]):
            return f"w{self.ids[a[0]]}"
        return "?arg"

    def rown(self, v):
        from dask.dataframe.utils import check_meta
        from dask_expr.io._delayed import identity

        if self.has(v):
            return f"alias({self.rk(v)})"
        if isinstance(v, tuple) and v and callable(v[0]):
            f = v[0]
            if f is identity:
                return "identity(" + ",".join(self.rarg(a) for a in v[1:]) + ")"
            if isinstance(f, functools.partial) and f.func is check_meta and set(f.keywords) == {"meta", "funcname"}:
                return "check_meta(" + ",".join(self.rarg(a) for a in v[1:]) + ")"
            return "?fn:" + getattr(f, "__name__", type(f).__name__)
        if isinstance(v, tuple):
            return "?tuple"
        return "lit"

    def rgraph(self, dsk, self_name):
        lines = set()
        for k, v in dsk.items():
            if self.has(k):
                lines.add(self.rk(k) + "=" + self.rlower(k, v))
            elif isinstance(k, tuple) and len(k) == 2 and k[1] == 0 and self.has(k[0]):
                lines.add(f"w{self.ids[k[0]]}=" + self.rlower(k[0], v))
            elif isinstance(k, tuple) and len(k) == 2 and k[0] == self_name:
                lines.add(f"@self:{k[1]}=" + self.rown(v))
            else:
                lines.add("?key:" + repr(k)[:50])
        return "|".join(sorted(lines))


def _rdivs(d):
    return ".".join("N" if x is None else str(int(x)) for x in d)


def _rself(keys, name):
    return ",".join(f"@self:{k[1]}" if isinstance(k, tuple) and k[0] == name else "?" + repr(k)[:30] for k in keys)


def _fg_text(e, low):
    """canonical text of a real FromGraph expression (same fields as Driver/Boundary.lean `rFromGraph`)"""
    dsk = e._layer()
    keys = e.__dask_keys__()
    return ("G " + low.rgraph(dsk, e._name) + " ; keys=" + _rself(keys, e._name) + f" ; nparts={e.npartitions}"
            + " ; divs=" + _rdivs(e.divisions) + " ; dangling=" + _rself([k for k in keys if k not in dsk], e._name))


def _pdf(n=60):
    import numpy as np

    return pd.DataFrame({"a": np.arange(n, dtype="int64"), "b": (np.arange(n, dtype="int64") * 7) % 5,
                         "s": pd.array(["s%d" % (i % 4) for i in range(n)], dtype="object")})


def _fn_inc(x):
    return x


def _imported(n, keys, prefix="imp"):
    """a collection over a hand-made graph: n literal partitions ('x', i), derived tasks ('y', i) reading them
    (and, for i > 0, the previous derived task), selected by `keys` — everything else is unreachable"""
    import dask_expr as dx

    # (no object-dtype column: the legacy `_Frame.__init__` would append a `to_pyarrow_string` layer — see `_string_probe`)
    meta = _pdf(0)[["a", "b"]].iloc[:0]
    layer = {("x", i): _pdf(2)[["a", "b"]] for i in range(n)}
    for i in range(n):
        layer[("y", i)] = (_fn_inc, ("x", i)) if i == 0 else (_second, ("x", i), ("y", i - 1))
    return dx.from_graph(layer, meta, (None,) * (len(keys) + 1), [("y", k) for k in keys], prefix)


def _second(x, _y):
    return x


def _pool(ctx, n):
    """(label, collection) with (about) n partitions: what sits at a cut"""
    import dask_expr as dx

    x = dx.from_pandas(_pdf(), npartitions=n)
    out = [("frame", x), ("series_fused", x.a + 1), ("filter", x[x.a > 7]), ("cumsum", x.b.cumsum()),
           ("index", x.index), ("unknown_div", x.clear_divisions()), ("assign_proj", x.assign(z=x.a * 2)[["z", "b"]])]
    if n >= 2:
        out.append(("parts_rev", x.partitions[::-1]))
        out.append(("parts_gap", x.partitions[[0, n - 1]]))
        out.append(("imported_rev", _imported(n, list(range(n))[::-1])))
        out.append(("imported_partial", _imported(n + 1, [n - 1, 0])))
    out.append(("imported_all", _imported(n, list(range(n)))))
    if ctx.quick:
        keep = out[:2] + [o for o in out[2:] if ctx.rng.random() < 0.45 or o[0].startswith("imported_p")]
        return keep
    return out


def _lower_of(x):
    xo = x.optimize()
    g0 = dict(xo.__dask_graph__())
    return xo, _Lower(g0), [k for k in xo.__dask_keys__()]


def fam_fromgraph_struct(ctx):
    """FromGraph on layers with internal references; keys reversed / partial / repeated; divisions consistent or not"""
    from dask_expr.io.io import FromGraph

    f = Family("graph_equality[FromGraph: _layer, __dask_keys__, divisions, npartitions]")
    meta = _pdf(0).iloc[:0]
    reqs, code, inputs, nt = [], [], [], []
    for n in range(1, 7):
        layer = {("x", i): meta for i in range(n)}
        for i in range(n):
            layer[("y", i)] = (_fn_inc, ("x", i)) if i == 0 else (_second, ("x", i), ("y", i - 1))
        low = _Lower(layer)
        sels = [list(range(n)), list(range(n))[::-1], [n - 1], [0, 0], list(range(0, n, 2))]
        sels += [ctx.rng.sample(range(n), ctx.rng.randint(1, n)) for _ in range(2 if ctx.quick else 8)]
        for sel in sels:
            for dl in sorted({len(sel) + 1, len(sel), len(sel) + 2, 1}):
                for known in (False, True):
                    divs = tuple(range(dl)) if known else (None,) * dl
                    ykeys = [("y", k) for k in sel]
                    e = FromGraph(layer, meta, divs, ykeys, "imported")
                    code.append(_fg_text(e, low))
                    reqs.append(f"boundary fromgraph g={low.listing()} keys={','.join(str(low.ids[k]) for k in ykeys)} "
                                f"divs={','.join('N' if d is None else str(d) for d in divs)}")
                    inputs.append({"n": n, "sel": sel, "divs": list(divs)})
                    nt.append(True)
    f.compare(inputs, code, drive(reqs), nt)
    return f


def fam_persist(ctx):
    """the FromGraph that `persist()` really builds: embedded values at the output keys, keys/divisions/count taken over"""
    from dask.utils import key_split
    from dask_expr.io.io import FromGraph

    f = Family("graph_equality[persist(): FromGraph(layer of values, state.divisions, state.__dask_keys__(), prefix)]")
    reqs, code, inputs, nt = [], [], [], []
    import dask_expr as dx

    for n in range(1, 7):
        pool = _pool(ctx, n) + [("scalar", dx.from_pandas(_pdf(), npartitions=n).a.sum())]
        for label, x in pool:
            for fuse in ((True, "dask.persist") if ctx.quick else (True, False, "dask.persist")):
                if fuse == "dask.persist":
                    # `dask.persist(x)` reaches `__dask_postpersist__` of the collection as written: the state is its lowered plan
                    import dask
                    from dask_expr import new_collection

                    state = new_collection(x.expr.lower_completely())
                    skeys = list(state.__dask_keys__())
                    (p,) = dask.persist(x)
                else:
                    state = x.optimize(fuse=fuse)
                    skeys = list(state.__dask_keys__())
                    p = x.persist(fuse=fuse)
                e = p.expr
                ids = {k: i for i, k in enumerate(skeys)}
                lines = set()
                dsk = e._layer()
                for k, v in dsk.items():
                    if k in ids:
                        lit = not (isinstance(v, tuple) or isinstance(v, str)) and not callable(v)
                        lines.add(f"k{ids[k]}=" + ("lit" if lit else "?notlit"))
                    elif isinstance(k, tuple) and k[0] == e._name:
                        lines.add(f"@self:{k[1]}=" + (f"alias(k{ids[v]})" if v in ids else "?"))
                    else:
                        lines.add("?key:" + repr(k)[:40])
                keys = e.__dask_keys__()
                ok_type = type(e) is FromGraph and sorted(e.operand("layer")) == sorted(skeys) and list(e.operand("keys")) == skeys
                prefix_ok = e.operand("name_prefix") == key_split(state._name) and e._name.startswith(key_split(state._name) + "-")
                same_div = tuple(e.divisions) == tuple(state.divisions) and type(p) is type(x)
                code.append("G " + "|".join(sorted(lines)) + " ; keys=" + _rself(keys, e._name) + f" ; nparts={e.npartitions}"
                            + " ; divs=" + _rdivs(e.divisions) + " ; dangling=" + _rself([k for k in keys if k not in dsk], e._name)
                            + f" ; operands={int(ok_type)} prefix={int(prefix_ok)} divisions_of_state={int(same_div)}")
                reqs.append(f"boundary persist n={len(skeys)} divs={','.join('N' if d is None else str(int(d)) for d in state.divisions)}")
                inputs.append({"n": n, "x": label, "fuse": fuse})
                nt.append(True)
    model = [m + " ; operands=1 prefix=1 divisions_of_state=1" for m in drive(reqs)]
    f.compare(inputs, code, model, nt)
    return f


def _delayed_text(ds, low):
    parts = []
    for d in ds:
        parts.append("D key=" + (low.rk(d.key) if low.has(d.key) else "?") + " G " + low.rgraph(d.dask.to_dict(), None))
    return " ; ".join(parts) + f" ; n={len(ds)} ; cullok=1"


def fam_to_delayed(ctx):
    """x.to_delayed(optimize_graph=…): one Delayed per partition of x.optimize(), key (name, i), the whole (culled) graph"""
    f = Family("graph_equality[to_delayed(optimize_graph): keys, graph of every Delayed, cull]")
    reqs, code, inputs, nt = [], [], [], []
    for n in range(1, 7):
        for label, x in _pool(ctx, n):
            xo, low, okeys = _lower_of(x)
            for og in (True, False):
                ds = x.to_delayed(optimize_graph=og)
                code.append(_delayed_text(ds, low))
                reqs.append(f"boundary todelayed g={low.listing()} outs={','.join(str(low.ids[k]) for k in okeys)} og={int(og)}")
                inputs.append({"n": n, "x": label, "og": og})
                nt.append(og and len(ds[0].dask.to_dict()) < len(low.g0) or not og)
    f.compare(inputs, code, drive(reqs), nt)
    return f


def _fd_text(e, low):
    """canonical text of a real FromDelayed expression (fields of Driver/Boundary.lean `boundary fromdelayed`)"""
    whole = dict(e.__dask_graph__())
    own = e._layer()
    deps = "".join("{" + low.rgraph(d._layer(), e._name) + "}" for d in e.dependencies())
    keys = e.__dask_keys__()
    try:
        divs = _rdivs(e.divisions)
    except Exception as ex:  # noqa: BLE001
        divs = "ERR " + type(ex).__name__
    return ("G " + low.rgraph(whole, e._name) + " ; own=" + low.rgraph(own, e._name) + " ; deps=" + deps
            + " ; keys=" + _rself(keys, e._name) + f" ; nparts={e.npartitions} ; divs={divs}"
            + " ; dangling=" + _rself([k for k in keys if k not in whole], e._name))


def fam_from_delayed(ctx):
    """from_delayed(x.to_delayed(og)[sel], divisions, verify_meta) (+ a `_partitions` selection): whole graph, own layer,
    every _DelayedExpr._layer, keys, divisions, npartitions, and the refusals"""
    import dask_expr as dx

    f = Family("graph_equality[from_delayed/FromDelayed/_DelayedExpr: graph, _layer, keys, divisions, npartitions, errors]")
    reqs, code, inputs, nt = [], [], [], []
    for n in range(1, 7):
        for label, x in _pool(ctx, n):
            xo, low, okeys = _lower_of(x)
            m = len(okeys)
            sels = [list(range(m))]
            if m >= 2:
                sels += [list(range(m))[::-1], [m - 1], [0, 0], list(range(0, m, 2))]
            else:
                sels += [[0, 0]]
            sels.append([])
            if ctx.quick:
                sels = [sels[0]] + ctx.rng.sample(sels[1:], min(2, len(sels) - 1))
            for og in (True, False):
                ds = x.to_delayed(optimize_graph=og)
                for sel in sels:
                    k = len(sel)
                    dspecs = [("none", None), (",".join(map(str, range(k + 1))), tuple(range(k + 1)))]
                    if not ctx.quick or ctx.rng.random() < 0.4:
                        dspecs += [(",".join(map(str, range(k))) or "-", tuple(range(k))), (",".join(map(str, range(k + 2))), list(range(k + 2))),
                                   ("sorted", "sorted")]
                    for dtxt, dval in dspecs:
                        for verify in ((True, False) if (not ctx.quick or dval is None) else (ctx.rng.random() < 0.5,)):
                            pars = [None]
                            if k >= 1 and dtxt in ("none", ",".join(map(str, range(k + 1)))):
                                pars += [[k - 1], list(range(k))[::-1], [0, 0], list(range(0, k, 2)), [k]]
                                if ctx.quick:
                                    pars = [None] + ctx.rng.sample(pars[1:], 2)
                            for P in pars:
                                try:
                                    y = dx.from_delayed([ds[i] for i in sel], meta=xo._meta, divisions=dval, verify_meta=verify)
                                    e = y.expr
                                    if P is not None:
                                        e = e.substitute_parameters({"_partitions": P})
                                    txt = _fd_text(e, low)
                                except (TypeError, ValueError, NotImplementedError, IndexError) as ex:
                                    txt = "ERR " + type(ex).__name__
                                code.append(txt)
                                reqs.append(f"boundary fromdelayed g={low.listing()} outs={','.join(str(low.ids[k_]) for k_ in okeys)} og={int(og)} "
                                            f"sel={','.join(map(str, sel)) or '-'} divs={dtxt} verify={int(verify)} "
                                            f"parts={'-' if P is None else ','.join(map(str, P))}")
                                inputs.append({"n": n, "x": label, "og": og, "sel": sel, "divs": dtxt, "verify": verify, "parts": P})
                                nt.append(True)
    f.compare(inputs, code, drive(reqs), nt)
    return f


def fam_legacy(ctx):
    """from_legacy_dataframe(x.to_legacy_dataframe(), optimize=…) is FromGraph of the (culled) graph of x.optimize()"""
    import dask_expr as dx
    from dask.utils import key_split
    from dask_expr.io.io import FromGraph

    f = Family("graph_equality[legacy round trip = FromGraph(cull(graph), divisions, keys)]")
    reqs, code, inputs, nt = [], [], [], []
    for n in range(1, 7):
        for label, x in _pool(ctx, n):
            xo, low, okeys = _lower_of(x)
            def one(opt):
                # in a function of its own: the culled and the unculled import have the same `_name` (a HighLevelGraph is
                # tokenised by its layer names), so while one of them is alive `Expr.__new__` hands it out for the other
                r = dx.from_legacy_dataframe(x.to_legacy_dataframe(), optimize=opt)
                e = r.expr
                ok = (type(e) is FromGraph and list(e.operand("keys")) == okeys and e.operand("name_prefix") == key_split(xo._name)
                      and type(r) is type(x))
                return _fg_text(e, low) + f" ; operands={int(ok)}"

            for opt in (True, False):
                code.append(one(opt))
                reqs.append(f"boundary legacy g={low.listing()} outs={','.join(str(low.ids[k]) for k in okeys)} "
                            f"divs={','.join('N' if d is None else str(int(d)) for d in xo.divisions)} opt={int(opt)}")
                inputs.append({"n": n, "x": label, "optimize": opt})
                nt.append(True)
    f.compare(inputs, code, [m + " ; operands=1" for m in drive(reqs)], nt)
    return f


# --------------------------------------------------------------------------- T4: check_meta (dask) vs its Lean specification

_DT = {"n0": "int64", "n1": "float64", "n2": "uint8", "o0": "object", "o1": "bool", "o2": "datetime64[ns]"}


def _dtype(code):
    from dask.dataframe.utils import UNKNOWN_CATEGORIES

    if code == "c0":
        return pd.CategoricalDtype(["p", "q"])
    if code == "c1":
        return pd.CategoricalDtype(["p", "r"])
    if code == "cU":
        return pd.CategoricalDtype([UNKNOWN_CATEGORIES])
    return _DT[code]


def _obj(kind, cols):
    if kind == 0:
        return pd.DataFrame({c: pd.Series([], dtype=_dtype(d)) for c, d in cols})
    if kind == 1:
        return pd.Series([], dtype=_dtype(cols[0][1]), name=cols[0][0])
    return pd.Index(pd.Series([], dtype=_dtype(cols[0][1])), name=cols[0][0])


def _rsch(kind, cols):
    return f"{kind}/" + (",".join(f"{c}:{d}" for c, d in cols) or "-")


def fam_check_meta(ctx):
    from dask.dataframe.utils import check_meta

    f = Family("conformance[dask.dataframe.utils.check_meta ~ metaMatches]")
    codes = ["n0", "n1", "n2", "o0", "o1", "c0", "c1", "cU"]
    schemas = [(0, [])]
    for labels in (["a"], ["b"], ["a", "b"], ["b", "a"]):
        for ds in itertools.product(codes if len(labels) == 1 else ["n0", "n1", "o0", "c0", "cU"], repeat=len(labels)):
            schemas.append((0, list(zip(labels, ds))))
    for kind in (1, 2):
        for name in ("a", "b"):
            for d in codes + (["o2"] if kind == 1 else []):
                if kind == 2 and d in ("o1",):
                    continue
                schemas.append((kind, [(name, d)]))
    pairs = [(m, x) for m in schemas for x in schemas]
    if ctx.quick:
        pairs = ctx.rng.sample(pairs, 500)
    reqs, code, inputs, nt = [], [], [], []
    objs = {}
    for m, x in pairs:
        for s_ in (m, x):
            key = _rsch(*s_)
            if key not in objs:
                objs[key] = _obj(*s_)
        mo, xo = objs[_rsch(*m)], objs[_rsch(*x)]
        try:
            r = check_meta(xo, mo, funcname="from_delayed")
            out = "pass" if r is xo else "?changed"
        except ValueError:
            out = "ValueError"
        code.append(out)
        reqs.append(f"boundary checkmeta meta={_rsch(*m)} x={_rsch(*x)}")
        inputs.append({"meta": _rsch(*m), "x": _rsch(*x)})
        nt.append(out != "pass" or m != x)
    f.compare(inputs, code, drive(reqs), nt)
    f.exhaustive = not ctx.quick
    return f


def families(ctx):
    return [fam_fromgraph, fam_fromgraph_struct, fam_persist, fam_to_delayed, fam_from_delayed, fam_legacy, fam_check_meta]


# --------------------------------------------------------------------------- probe: object-dtype string columns at the cut
#
# `to_delayed` and `to_legacy_dataframe` go through a legacy `dask.dataframe` collection; its constructor appends a
# `to_pyarrow_string` layer when the meta has object-dtype string columns (dask's `dataframe.convert-string`).  Such a
# meta arises e.g. from `map_partitions`.  The partitions handed out then have another dtype than the collection that
# was cut declares and computes: `from_delayed(x.to_delayed(), meta=x._meta)` raises "Metadata mismatch" (verify_meta
# is the default), without verification the data silently disagrees with the declared schema, the legacy round trip
# changes the schema.  The vetted tables have no object columns, so the chain search never meets this; the probe keeps
# it visible.  It becomes a reported failure as soon as known_findings.json carries an entry with this signature
# (open -> KNOWN-FINDING, fixed -> a regression is a VIOLATION); until then it is printed as a NOTE and counted.

_PROBE_SIG = {"kind": "cut-dtype", "cause": "object-string meta converted by the legacy collection"}


def run_probe(case):
    import dask_expr as dx

    def build():
        x = dx.from_pandas(e2e.T_int(), npartitions=3)
        return x.map_partitions(lambda df: df.assign(s=pd.Series(["u%d" % v for v in df.a], index=df.index, dtype=object)))

    uncut = build()
    want = uncut.compute()
    want_meta = [str(t) for t in uncut._meta.dtypes]
    try:
        q = _cut(build(), case["how"])
        got = q.compute()
    except Exception as ex:  # noqa: BLE001
        return f"cut query raised {type(ex).__name__}: {' '.join(str(ex).split())[:200]}"
    meta = [str(t) for t in q._meta.dtypes]
    comp = [str(t) for t in got.dtypes]
    if meta != want_meta:
        return f"declared schema differs from the uncut query: {meta} vs {want_meta}"
    if comp != [str(t) for t in want.dtypes]:
        return f"computed dtypes {comp} differ from the uncut query's {[str(t) for t in want.dtypes]} (declared {meta})"
    if not e2e.same(got, want):
        return "result differs"
    return None


def _run_chunk(chunk):
    out = []
    for case in chunk:
        try:
            out.append(run_case(case))
        except Exception as ex:  # noqa: BLE001
            out.append(f"harness exception {type(ex).__name__}: {str(ex)[:200]}")
    return out


def _parallel(cases, procs=None):
    """the cut cases are independent real executions: fork pool (order of results = order of cases)"""
    import multiprocessing as mp
    import os

    procs = procs or min(16, os.cpu_count() or 1)
    if procs <= 1 or len(cases) < 64:
        return _run_chunk(cases)
    size = max(8, len(cases) // (procs * 8))
    chunks = [cases[i: i + size] for i in range(0, len(cases), size)]
    with mp.get_context("fork").Pool(procs) as pool:
        res = pool.map(_run_chunk, chunks)
    return [r for c in res for r in c]


def support(ctx, broken):
    sup = Support()
    for how in ("persist", "delayed", "delayed_nv", "delayed_nog", "legacy"):
        case = {"probe": "object_string_meta", "how": how}
        msg = run_probe(case)
        sup.executed += 1
        sup.count(f"probe:object_string_meta/{how}:{'differs' if msg else 'transparent'}")
        if msg:
            sup.failures.append(Failure(sig=dict(_PROBE_SIG, how=how), case=case, detail=msg))  # open finding D97
    cases = _cases(ctx)
    for case, msg in zip(cases, _parallel(cases)):
        sup.executed += 1
        sup.count(f"{case['how']}/cut{case['cut']}")
        if len(sup.samples) < 3:
            sup.samples.append(case)
        if msg:
            sup.failures.append(Failure(sig={"kind": "cut", "how": case["how"], "head": case["head"], "tail": case["tail"], "term": case["term"]},
                                        case=case, detail=msg))
            if len(sup.failures) >= 8:
                break
    return sup


def replay(case):
    msg = run_probe(case) if case.get("probe") else run_case(case)
    return Failure(sig={}, case=case, detail=msg) if msg else None
