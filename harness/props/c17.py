"""C17 — materialization boundaries are transparent."""
from __future__ import annotations

import itertools

import pandas as pd

from harness import e2e, graphs, programs
from harness.core import Failure, Family, Support, drive
from harness.render import Names, rgraph

LEAN_MODULES = ["DxModel.Props.C17"]
GENERATED = []
TRUSTED = [
    "harness/render.py canonical text of FromGraph._layer; the imported layer's own tasks are opaque data",
    "dask's synchronous persist (results embedded in the graph) and Delayed graph conversion (`to_delayed`, `_DelayedExpr._layer`) are exercised, not modelled",
]
PARTIAL = [
    "legacy-dataframe conversion internals (dask.dataframe legacy collections) are outside the model; covered by the round-trip search",
    "`_DelayedExpr._layer` key renaming (key -> (key, 0)) is tied by the proven checker on the real graph (T3), not by a model of its own",
]
EXPLANATION = (
    "Theorems: alias layer (FromGraph) preserves the value of every imported key for any graph/key list; cut theorem: "
    "evaluating the upper part of any graph on the materialised values of the lower part equals evaluating the uncut "
    "graph; task values are functions of the values they read. Tie: exact graph equality of FromGraph._layer; proven "
    "checker on the graphs of re-imported collections. Support: every cut point of the vetted chains x {persist, "
    "to_delayed/from_delayed, legacy round trip} x node kind at the cut: result, meta schema and divisions equal the uncut query."
)


# --------------------------------------------------------------------------- T2: FromGraph._layer


def fam_fromgraph(ctx):
    from dask_expr.io.io import FromGraph

    f = Family("graph_equality[FromGraph._layer]")
    meta = pd.DataFrame({"a": pd.Series([], dtype="int64")})
    reqs, code, inputs = [], [], []
    for n in range(1, 6):
        base = {("x", i): meta for i in range(n)}
        sels = [list(s) for r in range(1, n + 1) for s in itertools.permutations(range(n), r)]
        if ctx.quick:
            ctx.rng.shuffle(sels)
            sels = sels[:12]
        sels.append([0] * 2)
        for keys in sels:
            e = FromGraph(base, meta, (None,) * (len(keys) + 1), [("x", k) for k in keys], "imported")
            dsk = e._layer()
            code.append("G " + rgraph(dsk, Names(e._name, [])))
            reqs.append(f"layer fromgraph n={n} keys={','.join(map(str, keys))}")
            inputs.append({"n": n, "keys": keys})
    f.compare(inputs, code, drive(reqs), [len(set(i["keys"])) != len(i["keys"]) or i["keys"] != sorted(i["keys"]) or True for i in inputs])
    return f


# --------------------------------------------------------------------------- cuts


def _cut(mid, how):
    import dask_expr as dx

    if how == "persist":
        return mid.persist()
    if how in ("delayed", "delayed_nv"):
        divs = mid.divisions if mid.known_divisions else None
        return dx.from_delayed(mid.to_delayed(), meta=mid._meta, divisions=divs, verify_meta=(how == "delayed"))
    if how == "legacy":
        return dx.from_legacy_dataframe(mid.to_legacy_dataframe())
    raise ValueError(how)


_CUT_OPS = [
    programs.Op("parts_rev", lambda d: d.partitions[::-1] if programs._dd(d) else d, family="partitions", unordered=True),
    programs.Op("parts_tail", lambda d: d.partitions[1:] if programs._dd(d) else d.iloc[3:], family="partitions"),
    programs.Op("parts_20", lambda d: d.partitions[[2, 0]] if programs._dd(d) else d.iloc[[6, 7, 0, 1, 2]], family="partitions", unordered=True),
    programs.Op("tail2c", lambda d: d.tail(2, compute=False) if programs._dd(d) else d.tail(2), family="head"),
]


def _all_ops():
    return {o.name: o for o in list(programs.UNARY) + _CUT_OPS}


def _chains(ctx):
    ops = _all_ops()
    terms = {o.name: o for o in programs.TERMINAL}
    heads = ["proj_ab", "filt_a", "assign_z", "add1", "rename_aA", "set_index_a", "sort_b", "cumsum", "shuffle_b",
             "repart2", "dropna_c", "mappart", "reset_index", "fillna0", "head3", "dropdup_b", "shift1", "prefix",
             "parts_rev", "parts_tail", "parts_20"]
    tails = ["proj_ab", "filt_a", "assign_a", "add1", "fillna0", "repart5", "cumsum", "sort_a_desc", "abs", "dropna",
             "parts_tail", "parts_20", "tail2c"]
    tnames = ["id", "sum", "count", "len", "col0", "gb_sum", "self_add", "index", "shared_sum"]
    cases = []
    for h in heads:
        for t in tails:
            for tn in tnames:
                cases.append((h, t, tn))
    # node kinds at the cut: series, index, scalar-producing heads
    return cases, ops, terms


def _legal(h, t, tn, ops, terms):
    """apply the same order/index rules as the vetted program space"""
    chain = (ops[h], ops[t])
    return programs._order_ok(chain, terms[tn]) and not programs._excluded(chain, terms[tn])


def run_case(case):
    ops = _all_ops()
    terms = {o.name: o for o in programs.TERMINAL}
    h, t, tn, how, cutpos = case["head"], case["tail"], case["term"], case["how"], case["cut"]
    if case.get("layout", 0) == 3:
        # a bare from_pandas source: partition selections are absorbed into the source node itself
        import dask_expr as dx

        env = {"L": dx.from_pandas(e2e.T_int(), npartitions=3), "R": dx.from_pandas(e2e.T_right(), npartitions=2)}
    else:
        env = programs.dask_env(*[(None, None, True), ([0, 0, 3, 8], [0, 6], True), ([0, 1, 2, 4, 8], [0, 1, 6], False)][case.get("layout", 0)])
    penv = programs.pandas_env()
    try:
        terms[tn].fn(ops[t].fn(ops[h].fn(penv["L"])))
    except Exception:  # noqa: BLE001
        return None  # not a valid pandas program
    try:
        uncut_mid = ops[h].fn(env["L"])
        uncut = terms[tn].fn(ops[t].fn(uncut_mid))
        want = uncut.compute() if hasattr(uncut, "compute") else uncut
        want_meta = e2e.canon_obj(uncut._meta) if hasattr(uncut, "_meta") else None
        want_div = uncut.divisions if hasattr(uncut, "divisions") else None
    except Exception:  # noqa: BLE001
        return None  # uncut query not computable: nothing to compare
    try:
        if cutpos == 1:
            mid = _cut(ops[h].fn(env["L"]), how)
            q = terms[tn].fn(ops[t].fn(mid))
        else:
            mid = _cut(ops[t].fn(ops[h].fn(env["L"])), how)
            q = terms[tn].fn(mid)
        got = q.compute() if hasattr(q, "compute") else q
    except Exception as ex:  # noqa: BLE001
        # a boundary can only be transparent where there is something to materialise: when the collection at the cut
        # point cannot be planned and computed on its own either (e.g. sort_values by the index name over several
        # partitions raises KeyError in SortValues._lower — the uncut `len` succeeds only because Len skips the sort), the failure is not an effect of the boundary
        try:
            prefix = ops[h].fn(env["L"]) if cutpos == 1 else ops[t].fn(ops[h].fn(env["L"]))
            e2e.compute_partitions(prefix)  # partition by partition: compute() would plan a one-partition variant
        except Exception:  # noqa: BLE001
            return None
        return f"cut query raised {type(ex).__name__}: {str(ex)[:160]}"
    unordered = ops[h].unordered or ops[t].unordered or terms[tn].unordered
    noindex = ops[h].noindex or ops[t].noindex or terms[tn].noindex
    if not e2e.same(got, want, sort_rows=unordered, drop_index=noindex):
        return f"result differs: got {e2e.describe(got, 6)} want {e2e.describe(want, 6)}"
    if hasattr(q, "_meta") and want_meta is not None and e2e.canon_obj(q._meta)[:2] != want_meta[:2]:
        return f"meta differs: {e2e.canon_obj(q._meta)[:2]} vs {want_meta[:2]}"
    if want_div is not None and hasattr(q, "divisions"):
        qd = q.divisions
        if qd[0] is not None and want_div[0] is not None and tuple(qd) != tuple(want_div) and not unordered:
            return f"divisions differ: {qd} vs {want_div}"
        if qd[0] is not None and hasattr(q, "expr") and q.ndim > 0:
            # a cut may know more than the logical query (persist records the optimised plan's divisions),
            # but whatever it reports has to be truthful
            parts = e2e.compute_partitions(q)
            if len(parts) != len(qd) - 1:
                return f"the cut query reports {len(qd) - 1} partitions, {len(parts)} were computed"
            if list(qd) != sorted(qd):
                return f"the cut query reports unsorted divisions {qd}"
            for i, part in enumerate(parts):
                if len(part) == 0:
                    continue
                ix = part if isinstance(part, pd.Index) else part.index
                lo, hi = ix.min(), ix.max()
                if lo < qd[i] or hi > qd[i + 1] or (hi == qd[i + 1] and i < len(parts) - 1):
                    return f"the cut query reports divisions {qd} but its partition {i} holds index values [{lo}, {hi}]"
        # (the partition COUNT of unknown-division results is not compared: it is layout, not result, and the
        #  uncut side is affected by the open finding "Repartition above a sort", C06)
    # the graph of the re-imported query is well-formed (proven checker)
    if hasattr(q, "expr"):
        e = q.expr.optimize()
        g = dict(e.__dask_graph__())
        problems, req, _ = graphs.model_check_graph(g, graphs.flat_keys(e.__dask_keys__()))
        if problems:
            return "graph of the cut query: " + "; ".join(problems)
        if drive([req])[0] != "OK":
            return "proven order checker rejects the graph of the cut query"
    return None


def _cases(ctx):
    chains, ops, terms = _chains(ctx)
    cases = []
    for (h, t, tn) in chains:
        if not _legal(h, t, tn, ops, terms):
            continue
        for how in ("persist", "delayed", "delayed_nv", "legacy"):
            for cut in (1, 2):
                cases.append({"head": h, "tail": t, "term": tn, "how": how, "cut": cut, "layout": 0})
    ctx.rng.shuffle(cases)
    must = [c for c in cases if (c["head"] in ("parts_rev", "parts_tail", "parts_20") and c["cut"] == 1 and c["how"] == "persist" and c["term"] in ("id", "sum") and c["tail"] in ("proj_ab", "add1"))
            or (c["how"] == "delayed_nv" and c["cut"] == 1 and c["tail"] in ("parts_tail", "parts_20", "tail2c") and c["term"] == "id" and c["head"] in ("add1", "filt_a"))]
    # a partition selection above an overlap operation, cut between the two (D82)
    must += [c for c in cases if c["head"] in ("shift1", "cumsum") and c["tail"] in ("parts_tail", "parts_20") and c["cut"] == 1
             and c["how"] in ("persist", "delayed") and c["term"] == "id"]
    must = must + [dict(c, layout=3) for c in must if c["how"] == "persist"]
    if ctx.quick:
        cases = must + cases[:220]
    else:
        cases = cases + [dict(c, layout=1) for c in cases[:1500]] + [dict(c, layout=2) for c in cases[:1500]]
    return cases


def families(ctx):
    return [fam_fromgraph]


def support(ctx, broken):
    sup = Support()
    for case in _cases(ctx):
        msg = run_case(case)
        sup.executed += 1
        sup.count(f"{case['how']}/cut{case['cut']}")
        if len(sup.samples) < 3:
            sup.samples.append(case)
        if msg:
            sup.failures.append(Failure(sig={"kind": "cut", "how": case["how"], "head": case["head"], "tail": case["tail"], "term": case["term"]},
                                        case=case, detail=msg))
            if len(sup.failures) >= 8:
                break
    return sup


def replay(case):
    msg = run_case(case)
    return Failure(sig={}, case=case, detail=msg) if msg else None
