"""C15 — planner caches are transparent: results are independent of session history."""
from __future__ import annotations

import gc
import itertools
import json

from harness import statepool as sp
from harness.core import Family, Failure, Support, drive

LEAN_MODULES = ["DxModel.Props.C15"]
GENERATED = ["CacheSites"]
TRUSTED = [
    "harness/extractors_state.py `ast` scan (CacheSites): which functions touch which process-global cache and how",
    "the fresh-interpreter oracle (harness/statepool.py): the same query built alone in a new /venv/bin/python process",
    "CPython reference counting / gc.collect() as the only source of `Expr._instances` removals",
]
PARTIAL = [
    "C15_keys_complete is FALSE on the current tree (open finding D53: ReadParquetFSSpec._plan caches parts=[self._meta] under a key without the "
    "projected columns): proven as C15_keys_complete_partial excluding exactly that site",
    "cached_property values living on singleton expressions, parquet statistics caches and file-system mtime granularity are "
    "covered by the history search only, not by the model",
]
ASSUMPTIONS = ["names are injective (C08) for C15_singleton", "every LRU in the code has capacity >= 1 (LRU(10))"]
EXPLANATION = (
    "Theorems: LRU size bound, key uniqueness, refinement of every hit to the pure function of its key, get-or-compute "
    "(both source patterns) is the pure function from every reachable state, a failing compute writes nothing, the weak "
    "singleton table with arbitrary collections is the constructor (under injective names); table obligations over an ast "
    "scan of every global cache access. Tie: the real LRU class, the real _get_divisions/_get_mem_usages/"
    "_divisions_and_locations and the real Expr.__new__ are driven side by side with the model. Search: long sessions "
    "(build/optimize/compute/discard/gc, injected failures, dataset rewrites, > capacity distinct sorts) run in a child "
    "process and compared observation by observation with fresh interpreters."
)
RULE = "op sequences enumerated/seeded; non-trivial = the sequence evicts, overwrites or hits after a reorder"

# --------------------------------------------------------------------------- T2: LRU


def _real_lru_run(cap, ops):
    from dask_expr._util import LRU

    lru = LRU(cap)
    obs = []
    for op in ops:
        kind = op[0]
        if kind == "s":
            try:
                lru[op[1]] = op[2]
                obs.append("ok")
            except KeyError:
                obs.append("err")
        elif kind == "g":
            try:
                obs.append(f"h{lru[op[1]]}")
            except KeyError:
                obs.append("m")
        elif kind == "c":
            obs.append("b1" if op[1] in lru else "b0")
        else:
            obs.append(f"n{len(lru)}")
    return ",".join(obs) + "|" + ";".join(f"{k}:{v}" for k, v in lru.data.items())


def _ops_text(ops):
    out = []
    for op in ops:
        if op[0] == "s":
            out.append(f"s{op[1]}:{op[2]}")
        elif op[0] in ("g", "c"):
            out.append(f"{op[0]}{op[1]}")
        else:
            out.append("l")
    return ",".join(out)


def fam_lru_exhaustive(ctx):
    f = Family("LRU[__getitem__/__setitem__] exhaustive")
    alphabet = [("s", k) for k in range(3)] + [("g", k) for k in range(3)]
    reqs, code, inputs, nontriv = [], [], [], []
    maxlen = 6
    for n in range(1, maxlen + 1):
        for seq in itertools.product(alphabet, repeat=n):
            ops = [("s", k, 10 * (i + 1) + k) if kind == "s" else (kind, k) for i, (kind, k) in enumerate(seq)]
            ops.append(("l",))
            reqs.append(f"lru cap=2 ops={_ops_text(ops)}")
            code.append(_real_lru_run(2, ops))
            inputs.append(_ops_text(ops))
            nontriv.append(sum(1 for o in ops if o[0] == "s") >= 3)
    # other capacities (incl. 0: every write raises, and 1) on shorter sequences with membership tests
    alphabet2 = alphabet + [("c", k) for k in range(2)]
    for cap in (0, 1, 3):
        for n in range(1, 5):
            for seq in itertools.product(alphabet2, repeat=n):
                ops = [("s", k, 10 * (i + 1) + k) if kind == "s" else (kind, k) for i, (kind, k) in enumerate(seq)]
                ops.append(("l",))
                reqs.append(f"lru cap={cap} ops={_ops_text(ops)}")
                code.append(_real_lru_run(cap, ops))
                inputs.append(f"cap={cap} " + _ops_text(ops))
                nontriv.append(True)
    model = drive(reqs)
    f.compare(inputs, code, model, nontriv)
    f.exhaustive = True
    f.note = "all sequences of <= 6 set/get over 3 keys at capacity 2 (+ final len and dict order); capacities 0,1,3 with membership tests <= 4 ops"
    return f


def fam_lru_random(ctx):
    f = Family("LRU random long histories (capacity 10)")
    rng = ctx.rng
    reqs, code, inputs = [], [], []
    for _ in range(300 if ctx.quick else 3000):
        n = rng.randint(20, 200)
        nkeys = rng.choice([8, 12, 15, 30])
        ops = []
        for i in range(n):
            r = rng.random()
            k = rng.randrange(nkeys)
            if r < 0.45:
                ops.append(("s", k, 1000 + k if rng.random() < 0.7 else i))
            elif r < 0.85:
                ops.append(("g", k))
            elif r < 0.95:
                ops.append(("c", k))
            else:
                ops.append(("l",))
        reqs.append(f"lru cap=10 ops={_ops_text(ops)}")
        code.append(_real_lru_run(10, ops))
        inputs.append(_ops_text(ops)[:300])
    model = drive(reqs)
    f.compare(inputs, code, model)
    f.note = "20..200 ops over 8..30 keys"
    return f


# --------------------------------------------------------------------------- T2: get-or-compute on the real functions


class _Stub:
    def __init__(self, name):
        self._name = name


def _goc_real(which, calls, fail):
    """Drive the real `_get_mem_usages` / `_get_divisions` with the expensive computation replaced by
    `k -> 1000 + k` (raising for k in `fail`).  -> model-comparable text."""
    import dask_expr._repartition as rp
    import dask_expr._shuffle as sh

    def key_of(k):
        if which == "mem":
            return f"frame-{k}"
        return (f"col-{k // 4}", k % 4 + 1, True, 128e6, 1.0)

    if which == "mem":
        mod, attr, lru = rp, "_compute_mem_usages", rp.mem_usages_lru

        def fake(frame):
            k = int(frame._name.split("-")[1])
            if k in fail:
                raise RuntimeError("injected")
            return 1000 + k

        def call(k):
            return rp._get_mem_usages(_Stub(f"frame-{k}"))
    else:
        mod, attr, lru = sh, "_calculate_divisions", sh.divisions_lru

        def fake(frame, other, npartitions, ascending, partition_size, upsample):
            k = int(other._name.split("-")[1]) * 4 + npartitions - 1
            if k in fail:
                raise RuntimeError("injected")
            return 1000 + k

        def call(k):
            return sh._get_divisions(_Stub("frame"), _Stub(f"col-{k // 4}"), k % 4 + 1, True, 128e6, 1.0)

    saved_fn = getattr(mod, attr)
    saved = list(lru.data.items())
    lru.data.clear()
    try:
        setattr(mod, attr, fake)
        obs = []
        for k in calls:
            try:
                obs.append(f"v{call(k)}")
            except RuntimeError:
                obs.append("fail")
        rev = {key_of(k): k for k in range(64)}
        state = ";".join(f"{rev[kk]}:{v}" for kk, v in lru.data.items())
    finally:
        setattr(mod, attr, saved_fn)
        lru.data.clear()
        for kk, v in saved:
            lru.data[kk] = v
    return ",".join(obs) + "|" + state


def _pattern_b_real(calls):
    """FromPandas._divisions_and_locations on ONE shared _BackendData wrapper; keys (npartitions, sort).
    Returns the LRU key order after every call, and whether each value equals the value a fresh wrapper computes."""
    import numpy as np
    import pandas as pd
    from dask_expr._util import _BackendData
    from dask_expr.io.io import FromPandas

    pdf = pd.DataFrame({"a": np.arange(60)}, index=pd.Index(np.arange(60)))
    bd = _BackendData(pdf)
    states, pure = [], True
    keep = []
    for k in calls:
        npart, sort = k % 16 + 1, k >= 16
        e = object.__new__(FromPandas)  # bypass the singleton table: every call must really run the property
        e.operands = [bd, npart, sort, None, None, False, None, False]
        val = FromPandas._divisions_and_locations.func(e)
        fresh = object.__new__(FromPandas)
        fresh.operands = [_BackendData(pdf), npart, sort, None, None, False, None, False]
        ref = FromPandas._divisions_and_locations.func(fresh)
        pure = pure and (tuple(val[0]) == tuple(ref[0]) and list(val[1]) == list(ref[1]))
        keep.append(e)
        states.append(";".join(f"{(n - 1) + (16 if s else 0)}:{1000 + (n - 1) + (16 if s else 0)}" for (n, s) in bd._division_info.data))
    return states, pure


def fam_get_or_compute(ctx):
    f = Family("get-or-compute[_get_divisions, _get_mem_usages, FromPandas._divisions_and_locations]")
    rng = ctx.rng
    reqs, code, inputs = [], [], []
    for which in ("mem", "div"):
        for _ in range(60 if ctx.quick else 600):
            n = rng.randint(5, 80)
            nkeys = rng.choice([6, 12, 14, 40])
            calls = [rng.randrange(nkeys) for _ in range(n)]
            fail = sorted(rng.sample(range(nkeys), rng.choice([0, 0, 1, 3])))
            reqs.append(f"lru cap=10 ops={','.join('a%d' % k for k in calls)} fail={','.join(map(str, fail)) or '-'}")
            code.append(_goc_real(which, calls, set(fail)))
            inputs.append({"fn": which, "calls": calls, "fail": fail})
    # pattern B: compare the dict order after every prefix
    for _ in range(12 if ctx.quick else 100):
        n = rng.randint(5, 40)
        calls = [rng.randrange(rng.choice([8, 20, 32])) for _ in range(n)]
        states, pure = _pattern_b_real(calls)
        for i in range(1, n + 1):
            reqs.append(f"lru cap=10 ops={','.join('b%d' % k for k in calls[:i])}")
            code.append(",".join(f"v{1000 + k}" for k in calls[:i]) + "|" + states[i - 1] if pure else "IMPURE")
            inputs.append({"fn": "FromPandas._divisions_and_locations", "calls": calls[:i]})
    model = drive(reqs)
    f.compare(inputs, code, model)
    f.note = "expensive computation stubbed by k -> 1000+k with injected failures; values, failures and final OrderedDict order compared"
    return f


# --------------------------------------------------------------------------- T2: Expr.__new__ / _instances with gc

# pool of small trees over one base frame: spec = (class name, operand specs); ("t", j) refers to tree j
_TREES = [
    ("Projection", [("base",), ("lit", "a")]),  # 0
    ("Projection", [("base",), ("lit", "b")]),  # 1
    ("Add", [("t", 0), ("lit", 1)]),  # 2
    ("Add", [("t", 0), ("lit", 2)]),  # 3
    ("Mul", [("t", 2), ("t", 1)]),  # 4
    ("Add", [("t", 4), ("t", 2)]),  # 5
    ("Sub", [("t", 1), ("t", 0)]),  # 6
    ("Mul", [("t", 6), ("lit", 3)]),  # 7
]


def _children(j):
    return [s[1] for s in _TREES[j][1] if s[0] == "t"]


def _closure(js):
    out, stack = set(), list(js)
    while stack:
        j = stack.pop()
        if j not in out:
            out.add(j)
            stack += _children(j)
    return out


def _postorder(j, acc):
    for c in _children(j):
        _postorder(c, acc)
    acc.append(j)
    return acc


def _singleton_real(script):
    """script: list of ("n", j) | ("drop", [js]).  Returns (expanded model ops text, real uid list)."""
    import weakref

    import numpy as np
    import pandas as pd
    import dask_expr as dx
    import dask_expr._expr as ex

    base = dx.from_pandas(pd.DataFrame({"a": np.arange(6), "b": np.arange(6) * 2}), npartitions=2).expr
    held = {}  # tree -> strong handle
    registry = {}  # id(obj) -> (weakref, uid)
    ops_text, uids = [], []
    idx = 0
    for step in script:
        if step[0] == "n":
            tmp = {}
            for j in _postorder(step[1], []):
                cls = getattr(ex, _TREES[j][0])
                args = []
                for s in _TREES[j][1]:
                    args.append(base if s[0] == "base" else s[1] if s[0] == "lit" else tmp[s[1]])
                obj = cls(*args)
                ent = registry.get(id(obj))
                if ent is not None and ent[0]() is obj:
                    uid = ent[1]
                else:
                    uid = idx
                    registry[id(obj)] = (weakref.ref(obj), uid)
                tmp[j] = obj
                ops_text.append(f"n{j}")
                uids.append(uid)
                idx += 1
            held[step[1]] = tmp[step[1]]
            del tmp, obj, args
        else:
            for j in step[1]:
                held.pop(j, None)
            gc.collect()
            alive = _closure(held.keys())
            # the model is told exactly which names the collector left: cross-check with the real table
            from dask_expr._core import Expr

            ops_text.append("g" + ".".join(str(j) for j in sorted(alive)))
    return ",".join(ops_text), ",".join(map(str, uids))


def fam_singleton(ctx):
    f = Family("Expr.__new__ / Expr._instances with garbage collection")
    rng = ctx.rng
    reqs, code, inputs, nontriv = [], [], [], []
    for _ in range(25 if ctx.quick else 1500):
        script = []
        for _ in range(rng.randint(3, 14)):
            if rng.random() < 0.65:
                script.append(("n", rng.randrange(len(_TREES))))
            else:
                script.append(("drop", rng.sample(range(len(_TREES)), rng.randint(1, 4))))
        ops, uids = _singleton_real(script)
        gc.collect()
        reqs.append(f"tbl ops={ops}")
        code.append(uids)
        inputs.append(ops)
        nontriv.append("g" in ops)
    model = drive(reqs)
    f.compare(inputs, code, model, nontriv)
    f.note = "8 nested trees over one frame; constructions in real operand order; drops + gc.collect(); identity of every returned object"
    return f


def families(ctx):
    return [fam_lru_exhaustive, fam_lru_random, fam_get_or_compute, fam_singleton]


# --------------------------------------------------------------------------- histories (support / failing-input search)


def make_history(rng, n_steps, items, rewrites=2):
    """A session script.  items: [(qid, variation)].  Steps:
    build / optimize / optimize_nofuse (keep a handle), observe <what> (on a fresh build or on a kept handle),
    fail (compute with an injected task failure, expect the exception, then recompute), discard, gc, rewrite (dataset)."""
    steps = []
    seg = max(1, n_steps // (rewrites + 1))
    for i in range(n_steps):
        if i and i % seg == 0 and rewrites > 0 and (i // seg) <= rewrites:
            steps.append({"op": "rewrite", "version": i // seg})
        q, v = items[rng.randrange(len(items))]
        r = rng.random()
        if r < 0.12:
            steps.append({"op": "build", "q": q, "v": v})
        elif r < 0.24:
            steps.append({"op": "optimize", "q": q, "v": v, "fuse": rng.random() < 0.6})
        elif r < 0.62:
            steps.append({"op": "observe", "q": q, "v": v, "what": rng.choice([["result"], ["result", "divisions"], ["divisions", "result"], ["name", "divisions", "len"], ["len", "result"], ["meta", "result"]]),
                          "via": rng.choice(["fresh", "fresh", "handle"])})
            if sp.flags(q).get("parts"):
                steps[-1]["what"] = ["parts", "divisions"]
        elif r < 0.72 and sp.flags(q).get("fail_tag"):
            steps.append({"op": "fail", "q": q, "v": v})
        elif r < 0.80:
            steps.append({"op": "discard", "q": q, "v": v})
        elif r < 0.86:
            steps.append({"op": "gc"})
        else:
            steps.append({"op": "observe", "q": q, "v": v, "what": ["divisions", "name", "result"], "via": "fresh"})
    return steps


def directed_history(rng, quick=True):
    """Systematic part of the search: for every cache, more distinct keys than its capacity between planning a
    query and using the plan; every ordered pair of queries that could share a cache entry; dataset rewrites;
    failure injection."""
    steps = []
    obs_all = ["divisions", "name", "len", "result"]

    def observe(q, v=None, via="fresh", what=None):
        steps.append({"op": "observe", "q": q, "v": v, "what": what or obs_all, "via": via})

    sorts = [(q, v) for q in sp.POOL if "sort" in sp.flags(q).get("tags", []) and "flaky" not in sp.flags(q).get("tags", [])
             for v in [None] + list(range(len(sp.POOL[q][2])))]
    # (0) both directions of a sort of an already sorted column share (frame, column, npartitions): the cached
    #     `presorted` flag must not leak from one direction to the other (observed on the partitioned plan)
    observe("presorted_asc", None, what=["parts", "divisions"])
    observe("presorted_desc", None, what=["parts", "divisions", "result"])
    # (a) plan, overflow divisions_lru with > 10 other sorts, then use the kept plans (fused and unfused)
    targets = [("set_index", None), ("sort", None), ("set_index_then", None), ("sort_head", None)]
    for q, v in targets:
        steps.append({"op": "optimize", "q": q, "v": v, "fuse": (q != "set_index_then")})
    fillers = [("sort_k", v) for v in [None] + list(range(len(sp.POOL["sort_k"][2])))]  # 16 pairwise different keys
    rng.shuffle(fillers)
    for q, v in fillers[:12]:
        observe(q, v, what=["result", "divisions"])
    others = [it for it in sorts if it not in targets and it[0] != "sort_k"]
    rng.shuffle(others)
    for q, v in others[: (0 if quick else 6)]:
        observe(q, v, what=["divisions", "result"])
    for q, v in targets:
        observe(q, v, via="handle", what=["result", "divisions", "len"])
        if not quick:
            observe(q, v)
    # memory-usage cache: > 10 distinct frames
    mem = [("repart_size", v) for v in [None] + list(range(len(sp.POOL["repart_size"][2])))]
    steps.append({"op": "optimize", "q": "repart_size", "v": None, "fuse": True})
    for q, v in mem:
        observe(q, v, what=["result", "divisions"])
    observe("repart_size", None, via="handle", what=["result", "divisions"])
    # (b) every ordered pair of parquet queries, at three dataset versions
    pqs = [(q, None) for q in sp.POOL if "parquet" in sp.flags(q).get("tags", [])]
    for version in ((0, 1) if quick else (0, 1, 2)):
        if version:
            steps.append({"op": "rewrite", "version": version})
        order = list(pqs)
        rng.shuffle(order)
        for a in order:
            observe(*a, what=["result", "divisions", "len"])
        for a in reversed(order):
            observe(*a, what=["divisions", "len", "result"])
        if version == 1:
            steps.append({"op": "gc"})
    # (c) failure injection
    for q in ("flaky", "flaky_sort"):
        steps.append({"op": "fail", "q": q, "v": None})
        observe(q, None)
    if quick:
        return steps
    # (d) discard everything, collect, and look again
    for q, v in targets:
        steps.append({"op": "discard", "q": q, "v": v})
    steps.append({"op": "gc"})
    for q, v in targets:
        observe(q, v)
    return steps


def _tag_groups(q):
    return [t for t in sp.flags(q).get("tags", []) if t in ("sort", "parquet", "pq_none", "pqf", "presorted", "memusage", "flaky", "disk")]


def _okey(qv, version):
    return f"{qv[0]}|{qv[1]}|{version if 'parquet' in sp.flags(qv[0]).get('tags', []) else '-'}"


def oracle(items, pq, cache, version):
    """Fresh-interpreter values of (qid, variation) pairs.  Children are batched so that no two queries that could
    share a cache entry (same tag group) meet in one interpreter."""
    from concurrent.futures import ThreadPoolExecutor

    todo = [it for it in dict.fromkeys(items) if _okey(it, version) not in cache]
    # per interpreter: at most one query of each cache-relevant tag — except sorts, where up to 3 with pairwise different
    # (column, npartitions) keys may share one (far below the LRU capacity of 10)
    cap = {"sort": 3, "memusage": 3, "parquet": 3}
    batches = []
    for it in todo:
        groups = set(_tag_groups(it[0]))
        for b in batches:
            if len(b["items"]) < 8 and all(b["groups"].get(g, 0) < cap.get(g, 1) for g in groups):
                b["items"].append(it)
                for g in groups:
                    b["groups"][g] = b["groups"].get(g, 0) + 1
                break
        else:
            batches.append({"items": [it], "groups": {g: 1 for g in groups}})

    def run(b):
        job = {"kind": "observe", "pq": pq, "items": [{"id": f"{q}|{v}", "qid": q, "variation": v} for q, v in b["items"]]}
        return sp.run_child(job)

    with ThreadPoolExecutor(8) as ex:
        for b, res in zip(batches, ex.map(run, batches)):
            for q, v in b["items"]:
                cache[_okey((q, v), version)] = res[f"{q}|{v}"]
    return len(batches)


def run_history(steps, pq, ocache=None, only=None):
    """only = {"q":…, "v":…, "fresh": {field: value}}: compare nothing but the observations of that query, against the
    given fresh-interpreter values (used while shrinking: no further interpreters are started)."""
    """Execute a session script in THIS process; compare every observation with the fresh-interpreter oracle.
    -> {"observations": n, "mismatches": [...], "children": n}"""
    handles = {}
    version = 0
    sp.write_parquet(pq, 0)
    pending = []  # (step index, (q, v), observed dict, version)
    mismatches = []
    # values of parquet queries depend on the files written by *this* session (mtime enters the checksum, hence the names)
    ocache = {k: v for k, v in (ocache or {}).items() if k.endswith("|-")}
    known = set(ocache)
    children = 0

    def flush(only_parquet):
        nonlocal children, pending
        now = [p for p in pending if (not only_parquet) or "parquet" in sp.flags(p[1][0]).get("tags", [])]
        if only is not None:
            now = [p for p in now if p[1] == (only["q"], only.get("v"))]
            pending = [p for p in pending if p[1] == (only["q"], only.get("v")) and p not in now]
        if not now:
            return
        if only is None:
            children += oracle([p[1] for p in now], pq, ocache, version)
        for idx, qv, obs, ver in now:
            ref = only["fresh"] if only is not None else ocache[_okey(qv, ver)]
            if only is not None:
                obs = {k: v for k, v in obs.items() if k in ref}
            for k, val in obs.items():
                if json.dumps(val, sort_keys=True) != json.dumps(ref.get(k), sort_keys=True):
                    mismatches.append({"step": idx, "q": qv[0], "v": qv[1], "field": k, "session": _short(val), "fresh": _short(ref.get(k)),
                                       "fresh_full": ref.get(k)})
        pending = [p for p in pending if p not in now]

    for idx, st in enumerate(steps):
        op = st["op"]
        if op == "rewrite":
            flush(only_parquet=True)
            for key in [k for k in handles if "parquet" in sp.flags(k[0]).get("tags", [])]:
                del handles[key]
            gc.collect()
            version = st["version"]
            sp.write_parquet(pq, version)
            continue
        if op == "gc":
            gc.collect()
            continue
        qv = (st["q"], st.get("v"))
        try:
            if op == "build":
                handles[qv + ("built",)] = sp.build(qv[0], pq, qv[1])
            elif op == "optimize":
                handles[qv + ("opt",)] = sp.build(qv[0], pq, qv[1]).optimize(fuse=st.get("fuse", True))
            elif op == "discard":
                for form in ("built", "opt"):
                    handles.pop(qv + (form,), None)
            elif op == "fail":
                tag = sp.fail_tag(qv[0], qv[1])
                coll = sp.build(qv[0], pq, qv[1])
                sp.FAIL.add(tag)
                try:
                    coll.compute()
                    raised = False
                except RuntimeError:
                    raised = True
                finally:
                    sp.FAIL.discard(tag)
                if not raised:
                    mismatches.append({"step": idx, "q": qv[0], "v": qv[1], "field": "failure-injection", "session": "no exception", "fresh": "RuntimeError"})
                # what the failed run left behind must not change a later observation
                obs = sp.observe(sp.build(qv[0], pq, qv[1]), ("divisions", "result"), sort_rows=sp.flags(qv[0]).get("sort_rows", False))
                pending.append((idx, qv, obs, version))
            elif op == "observe":
                coll = None
                from_opt = False
                if st.get("via") == "handle":
                    coll = handles.get(qv + ("opt",))
                    from_opt = coll is not None
                    if coll is None:
                        coll = handles.get(qv + ("built",))
                if coll is None:
                    coll = sp.build(qv[0], pq, qv[1])
                what = tuple(st["what"])
                obs = sp.observe(coll, what, sort_rows=sp.flags(qv[0]).get("sort_rows", False))
                if st.get("via") == "handle":
                    # the name of an already optimized handle is not the name of the logical query
                    obs.pop("name", None)
                if from_opt and "divisions" in obs:
                    # … and its divisions are those of the OPTIMIZED plan (the tune stage may fuse a multi-file read into
                    # fewer partitions): they are compared with the fresh interpreter's optimized divisions
                    obs["opt_divisions"] = obs.pop("divisions")
                pending.append((idx, qv, obs, version))
        except Exception as e:  # noqa: BLE001
            mismatches.append({"step": idx, "q": qv[0], "v": qv[1], "field": "step:" + op, "session": f"{type(e).__name__}: {str(e)[:160]}", "fresh": "no exception expected"})
    flush(only_parquet=False)
    nobs = sum(1 for s in steps if s["op"] in ("observe", "fail"))
    return {"observations": nobs, "mismatches": mismatches, "children": children,
            "oracle_new": {k: v for k, v in ocache.items() if k not in known and k.endswith("|-")}}


def _short(x, n=300):
    s = json.dumps(x, sort_keys=True, default=str)
    return s if len(s) <= n else s[: n // 2] + " … " + s[-n // 2:]


def history_child(job):
    """entry point used through statepool.child_main (kind = "history")"""
    return run_history(job["steps"], job["pq"])


def _items(ctx):
    items = []
    for q, (_, _, variants, _) in sp.POOL.items():
        items.append((q, None))
        for i in range(len(variants)):
            items.append((q, i))
    return items


def _sig(m):
    tags = sp.flags(m["q"]).get("tags", [])
    tag = "pq_none" if "pq_none" in tags else "set_index" if "set_index" in tags else "sort" if "sort" in tags else "parquet" if "parquet" in tags else "other"
    err = None
    if isinstance(m["session"], str) and "Error" in m["session"]:
        err = m["session"].split(":")[0].strip('"{} ')
    if isinstance(m["session"], str) and '"error"' in m["session"]:
        try:
            err = json.loads(m["session"]).get("error")
        except ValueError:
            pass
    return {"kind": "history", "tag": tag, "field": None if err else m["field"].split(":")[0], "error": err}


_ORACLE = {}  # fresh-interpreter values are pure: shared by all sessions of one check run


def _run_session(steps, pq_root, only=None):
    import os

    pq = os.path.join(pq_root, "ds")
    res = _run_session_raw(steps, pq, only)
    _ORACLE.update(res.pop("oracle_new", {}))
    return res


def _run_session_raw(steps, pq, only=None):
    # one fixed hash seed for the session and (inherited) for its oracle interpreters: C15 compares histories, not
    # hash seeds (the seed dependence of fused-plan names is C08's finding)
    return sp.run_child({"kind": "history", "steps": steps, "pq": pq, "oracle": _ORACLE, "only": only}, env={"PYTHONHASHSEED": "0"}, timeout=1500)


def _shrink(steps, mismatch, pq_root, budget):
    """keep the failing observation and drop as many other steps as possible (each trial = one fresh session)"""
    tgt = steps[mismatch["step"]]
    best = steps[: mismatch["step"] + 1]

    # names of parquet reads contain the files' mtime: only results/divisions/len can be re-checked without a new oracle
    only = None
    if mismatch["field"] in ("result", "divisions", "opt_divisions", "npartitions", "len", "meta") and "fresh_full" in mismatch:
        only = {"q": mismatch["q"], "v": mismatch["v"], "fresh": {mismatch["field"]: mismatch["fresh_full"]}}

    def version_at_end(ss):
        v = 0
        for x in ss:
            if x["op"] == "rewrite":
                v = x["version"]
        return v

    v0 = version_at_end(best)

    def fails(cand):
        if only is not None and version_at_end(cand) != v0:
            return False  # the recorded fresh values belong to the dataset version of the failing step
        res = _run_session(cand, pq_root, only)
        return any(m["q"] == mismatch["q"] and m["field"] == mismatch["field"] for m in res["mismatches"])

    # 1. only steps about queries sharing a cache-relevant tag with the failing query (plus rewrites)
    groups = set(_tag_groups(mismatch["q"]))
    cand = [s for s in best[:-1] if s["op"] in ("rewrite",) or (s.get("q") and groups & set(_tag_groups(s["q"])))] + [tgt]
    trials = 0
    if len(cand) < len(best) and trials < budget:
        trials += 1
        if fails(cand):
            best = cand
    # 2. halves
    while trials < budget and len(best) > 2:
        half = len(best[:-1]) // 2
        improved = False
        for cand in (best[:-1][half:] + [tgt], best[:-1][:half] + [tgt]):
            trials += 1
            if fails(cand):
                best = cand
                improved = True
                break
            if trials >= budget:
                break
        if not improved:
            break
    # 3. single removals
    i = 0
    while trials < budget and i < len(best) - 1:
        cand = best[:i] + best[i + 1:]
        trials += 1
        if fails(cand):
            best = cand
        else:
            i += 1
    return best


def support(ctx, broken):
    import shutil
    import tempfile

    sup = Support()
    rng = ctx.rng
    items = _items(ctx)
    pq_root = tempfile.mkdtemp(prefix="dxverif-c15-")
    try:
        n_sessions = 1 if ctx.quick else 6
        n_steps = 80 if ctx.quick else 260
        seen_sigs = set()
        for si in range(n_sessions):
            pool_items = list(items)
            if si % 2 == 1 or broken:
                # a session concentrated on the cache-relevant queries (sorts, parquet, memory-usage repartition)
                pool_items = [it for it in items if _tag_groups(it[0])] * 3 + items
            import random

            steps = directed_history(random.Random(ctx.seed), quick=ctx.quick) if si == 0 else make_history(rng, n_steps, pool_items, rewrites=2)
            res = _run_session(steps, pq_root)
            sup.executed += res["observations"]
            sup.distribution[f"session{si}:observations"] = res["observations"]
            sup.distribution["oracle_children"] = sup.distribution.get("oracle_children", 0) + res["children"]
            for st in steps:
                sup.count("step:" + st["op"])
            if len(sup.samples) < 2:
                sup.samples.append({"steps": steps[:6], "n_steps": len(steps)})
            for m in res["mismatches"]:
                sig = _sig(m)
                key = json.dumps(sig, sort_keys=True)
                if key in seen_sigs:
                    continue
                seen_sigs.add(key)
                small = _shrink(steps, m, pq_root, budget=(2 if len(sup.failures) < 3 else 0) if ctx.quick else 25)
                sup.failures.append(Failure(sig=sig, case={"steps": small, "expect": {"q": m["q"], "field": m["field"]}},
                                            detail=f"query {m['q']} (variation {m['v']}) observation {m['field']}: in session {m['session']} vs fresh interpreter {m['fresh']}; "
                                                   f"history shrunk to {len(small)} steps"))
    finally:
        shutil.rmtree(pq_root, ignore_errors=True)
    # every distinct failing signature goes into the evidence (the replay file only carries the first one)
    sup.distribution["failures_found"] = [{"sig": f.sig, "detail": f.detail[:240]} for f in sup.failures]
    return sup


def replay(case):
    import shutil
    import tempfile

    pq_root = tempfile.mkdtemp(prefix="dxverif-c15-")
    try:
        res = _run_session(case["steps"], pq_root)
    finally:
        shutil.rmtree(pq_root, ignore_errors=True)
    exp = case.get("expect", {})
    ms = [m for m in res["mismatches"] if not exp or (m["q"] == exp["q"] and m["field"] == exp["field"])]
    if not ms:
        return None
    m = ms[0]
    return Failure(sig=_sig(m), case=case, detail=f"query {m['q']} observation {m['field']}: session {m['session']} vs fresh {m['fresh']}")
