"""C04 — column pruning never changes a result."""
from __future__ import annotations

import itertools
import weakref
from collections import defaultdict
from dataclasses import dataclass, field

import numpy as np
import pandas as pd

from harness import e2e
from harness.core import Family, Failure, Support, drive

LEAN_MODULES = ["DxModel.Props.C04"]
GENERATED = ["ProjFlags"]
TRUSTED = [
    "abstraction of a real (child, parent, dependents) triple to (input schemas, operator parameters, parent request, "
    "[(dependent._projection_columns, ndim==1)]) and of the returned expression to (child projections, parent kept, "
    "surviving parameter keys, removed inputs): harness/props/c04.py render_result",
    "Filter._simplify_up's filter-push-down guard is evaluated with the real functions and handed to the model as `blocked`",
    "column semantics of the operators (KeyedOp / RelabelOp / AssignOp / BinOp / MergeOp / ConcatOp / ResetOp / SourceOp / "
    "AsTypeOp / DropOp laws in DxModel/Cols.lean) are hypotheses of the value theorems; the merge label function is "
    "validated by family merge_labels, the hand-assigned category of every class reaching plain_column_projection "
    "(harness/extractors_cols.py) by family category_conformance on the real unoptimised implementation",
    "a scalar (collapsed) child is treated as the one-column frame acted on by the same operator",
    "pandas itself and the unoptimised lowering (oracles of the end-to-end search)",
]
PARTIAL = [
    "C04_merge_labels_partial / C04_merge_values_{left,right}_partial need KeysDoNotCollide: a join key that also names a column "
    "of the other side must be common to both sides (C04_merge_counterexample; open finding D34). The value theorems (and the "
    "laws op_left/op_right of the structure MergeOp) speak about joins whose result labels are duplicate-free - pandas refuses "
    "the others; C04_merge_pruned_wf: the pruned join is such a join again. C04_merge_wf (keys kept, no duplicates) holds "
    "for every merge",
    "C04_concat_axis1_wf_partial: with axis=1 an input contributing no requested column is removed from the index join "
    "(C04_concat_axis1_counterexample; open finding D35); axis=0 is proven in full (C04_concat_wf / C04_concat_values). "
    "The labels a Concat declares leave inputs without columns out (concatLabels, as Concat._meta does; with join='inner' that "
    "is not the pandas intersection: C04_concat_inner_zero_columns, open finding D111)",
    "C04_plain_wf is stated for Projection parents over a frame: over a 1-d input (labels of a reduction result) the scalar "
    "collapse fires for a list selection (C04_reduction_counterexample; open finding D37)",
    "C04_binop_wf_partial / C04_binop_values_partial need both frame operands to have the output columns "
    "(C04_binop_counterexample; D39)",
    "C04_passthrough_table_partial: Categorize, Corr, Cov, Mode reach plain_column_projection although they are not "
    "column-local (D40, D41, and D35 for Mode); groupby cov/corr under groupby_projection likewise (D42, search only)",
    "the collapse of the child to a Series is sound only for operators that act on a Series as on the one-column frame; "
    "C04_widening is proven per rule (the child projection does not depend on unrequested input columns) and for sources; "
    "the whole-plan statement is covered by the end-to-end widened-vs-original search only",
    "rules over Series inputs (ResetIndex of a Series, Projection of a Series), MultiIndex / non-string labels, "
    "ReadParquet/ReadCSV's own absorption and AssignAlign are not modelled",
]
EXPLANATION = (
    "Model: determine_column_projection, plain_column_projection and every projection rule as pure functions of schemas, "
    "parameters, parent request and dependents. Theorems, for ANY dependents list: labels/order unchanged, every operator "
    "still finds its key columns and no list gains duplicates, requested values unchanged (operator laws as hypotheses), "
    "listed dependents' columns are kept, unlisted consumers keep the original node, unrequested source columns do not "
    "influence the pruned plan. Every operator structure the value theorems quantify over is inhabited by a real operator "
    "with proven laws (Lemmas/ColsInst.lean; list-valued inner/left join, assign, rename, concat, reset_index ... in section 17 "
    "of Props/C04.lean). Tie: the real _simplify_up/_simplify_down called on constructed (child, parent, dependents) "
    "triples vs the compiled model; T1 table of the classes reaching plain_column_projection with a decided obligation; "
    "category conformance on the real operations. Support: projections of every operator family x shared intermediates x "
    "widened sources, optimize().compute() vs unoptimised lowering vs pandas."
)
RULE = ("(operator instance x parent request x dependents shape) enumerated; non-trivial = the real rule returned a rewrite")
ASSUMPTIONS = [
    "column labels are strings; frames have no duplicate labels where a value theorem is used",
    "a program outside the pandas-accepted queries (pandas raises) is outside the quantifier",
    "cummax/cummin are kept out of the search space: they raise by themselves on one-column frames (independent defect, reported)",
]

UNIV = ["a", "b", "ab", "c", "k"]


# =========================================================================== real expressions


_BASE = {}
_KEEP = []  # keeps every constructed expression alive (weak references in dependents must stay valid)


def pdf_for(cols, n=6, salt=0):
    data = {}
    for j, c in enumerate(cols):
        h = sum(ord(ch) for ch in c) + salt
        data[c] = np.array([(i * (h % 5 + 1) + h) % 7 for i in range(n)], dtype="int64")
    return pd.DataFrame(data, index=pd.Index(np.arange(n, dtype="int64")))


def base(cols, salt=0, npartitions=2, index_name=None):
    """a real FromPandas collection with exactly these columns (cached)"""
    import dask_expr as dx

    key = (tuple(cols), salt, npartitions, index_name)
    if key not in _BASE:
        pdf = pdf_for(cols, salt=salt)
        if index_name:
            pdf.index.name = index_name
        _BASE[key] = dx.from_pandas(pdf, npartitions=npartitions, sort=False)
    return _BASE[key]


def rc(cols):
    cols = list(cols)
    return ",".join(cols) if cols else "-"


def rsel(x):
    if isinstance(x, list):
        return rc(x)
    return "$" + str(x)


def parent_code(parent):
    from dask_expr._expr import Index, Projection

    if isinstance(parent, Index):
        return "I"
    if not isinstance(parent, Projection):
        return "O"  # any other class: the rules are guarded by isinstance(parent, Projection)
    op = parent.operand("columns")
    if isinstance(op, list):
        return ("L:" if parent.frame.ndim == 2 else "T:") + rc(op)
    return ("S:" if parent.frame.ndim == 2 else "U:") + str(op)


def deps_code(live):
    seen, out = set(), []
    for d in live:
        if d._name in seen:
            continue
        seen.add(d._name)
        out.append(f"{rc(d._projection_columns)}:{1 if d.ndim == 1 else 0}")
    return "/".join(out) if out else "-"


def mk_dependents(self_expr, consumers, dead=False):
    deps = defaultdict(list)
    deps[self_expr._name] = [weakref.ref(c) for c in consumers]
    if dead:

        class _Tmp:
            pass

        t = _Tmp()
        deps[self_expr._name].append(weakref.ref(t))
        del t
    return deps


def parents_for(out, maxlen=3, rng=None, cap=None):
    """requested selections over the output columns: every ordered list of length <= maxlen, every scalar, one repeat"""
    sels = []
    for r in range(1, maxlen + 1):
        sels += [list(p) for p in itertools.permutations(out, r)]
    if out:
        sels.append([out[0], out[0]])
    sels += [c for c in out]
    if cap and len(sels) > cap and rng is not None:
        keep = sels[: len(out)] + [s for s in sels if not isinstance(s, list)]
        rest = [s for s in sels if s not in keep]
        rng.shuffle(rest)
        sels = keep + rest[: cap - len(keep)]
    return sels


def dep_shapes(self_expr, parent, out, i):
    """dependents maps: single, stale, shared with a list / scalar / full / renaming / index consumer, duplicate, dead"""
    from dask_expr._expr import AddPrefix, Index, Projection, _DeepCopy

    shapes = [("single", [parent], False), ("stale_empty", [], False)]
    if self_expr.ndim == 2 and out:
        x = out[i % len(out)]
        y = out[(i // 2 + 1) % len(out)]
        shapes.append(("shared_scalar", [parent, Projection(self_expr, x)], False))
        shapes.append(("shared_list", [parent, Projection(self_expr, [y, x] if x != y else [x])], False))
        shapes.append(("other_scalar_only", [Projection(self_expr, x)], False))
        shapes.append(("shared_full", [parent, _DeepCopy(self_expr)], False))
        shapes.append(("shared_rename", [parent, AddPrefix(self_expr, "k")], False))
        shapes.append(("shared_index", [parent, Index(self_expr)], False))
        shapes.append(("dup_dead", [parent, parent], True))
    for tag, cons, dead in shapes:
        _KEEP.extend(cons)
        yield tag, cons, dead


@dataclass
class Inst:
    rule: str  # model verb after `cols rule`
    expr: object  # the operator whose _simplify_up is called
    inputs: list  # frame inputs, aligned with the model's childs
    params: str  # rule parameters in protocol syntax
    out: list  # labels a parent may request
    tag: str = ""
    suffix: object = None  # inner expr -> extra rendered fields
    io: bool = False
    concat: bool = False
    guard: object = None  # (parent, dependents) -> extra params (Filter: blocked)
    other_parents: list = field(default_factory=list)  # parents of other classes (no rule may fire)


# parameters a rule is known to narrow; each is rendered (and compared with the model) by the family's own suffix:
# AsType.dtypes -> keys=…, ResetIndex.drop -> drop=…; Assign's variadic key/value operands -> keys=…
_NARROWED_PARAMS = {("AsType", "dtypes"), ("ResetIndex", "drop")}
_NARROWED_CLASSES = ("Assign",)


def _render_generic(inst: Inst, parent, res):
    """canonical description of what the real rule returned"""
    from dask_expr._expr import Expr, Index, Projection

    if res is None:
        return "NONE"
    if not isinstance(res, Expr):
        return f"?nonexpr:{type(res).__name__}"
    self_expr = inst.expr
    keep, inner = 0, res
    if type(res) is type(parent) and res._name != self_expr._name:
        same_op = isinstance(parent, Index) or _same(res.operand("columns"), parent.operand("columns"))
        if same_op and (type(res.frame) is type(self_expr) or res.frame._name == inst.inputs[0]._name):
            keep, inner = 1, res.frame
    gone = inner._name == inst.inputs[0]._name and type(inner) is not type(self_expr)
    if gone:
        return f"child=*;child2=-;keep={keep};collapse=0;gone=1"
    if type(inner) is not type(self_expr):
        return f"?unexpected:{type(inner).__name__}:{inner}"
    rendered = []
    if inst.io:
        rendered = [rsel(list(inner.operand("columns")))]
    elif inst.concat:
        new_frames = list(inner._frames)
        j = 0
        for orig in inst.inputs:
            if j < len(new_frames) and new_frames[j]._name == orig._name:
                rendered.append("*")
                j += 1
            elif j < len(new_frames) and isinstance(new_frames[j], Projection) and new_frames[j].frame._name == orig._name:
                rendered.append(rsel(new_frames[j].operand("columns")))
                j += 1
            else:
                rendered.append("!")  # removed from the new Concat
        if j != len(new_frames):
            return f"?concat-frames:{inner}"
        # the rule only replaces the frames: every other parameter of the rebuilt Concat is the original's
        # (seeded change C04-m4 swapped two adjacent boolean knobs)
        for p in type(self_expr)._parameters:
            if repr(inner.operand(p)) != repr(self_expr.operand(p)):
                return f"?param-changed:{p}={inner.operand(p)!r}"
    else:
        for orig in inst.inputs:
            pos = [k for k, o in enumerate(self_expr.operands) if isinstance(o, Expr) and o._name == orig._name]
            if not pos:
                return "?input-not-operand"
            new = inner.operands[pos[0]]
            if isinstance(new, Expr) and new._name == orig._name:
                rendered.append("*")
            elif isinstance(new, Projection) and new.frame._name == orig._name:
                rendered.append(rsel(new.operand("columns")))
            else:
                return f"?child:{new}"
    if not inst.io and not inst.concat and type(self_expr).__name__ not in _NARROWED_CLASSES:
        # the rule replaces operands that are expressions; every other parameter of the rebuilt node is the
        # original's unless the rule is known to narrow it (lesson of seeded C04-m4, applied to every rule family)
        for k, (o0, o1) in enumerate(zip(self_expr.operands, inner.operands)):
            if isinstance(o0, Expr) or isinstance(o1, Expr):
                continue
            pname = type(self_expr)._parameters[k] if k < len(type(self_expr)._parameters) else f"#{k}"
            if (type(self_expr).__name__, pname) in _NARROWED_PARAMS:
                continue
            if repr(o0) != repr(o1):
                return f"?param-changed:{type(self_expr).__name__}.{pname}={o1!r:.60}"
    c0 = rendered[0]
    c1 = rendered[1] if len(rendered) > 1 else "-"
    s = f"child={c0};child2={c1};keep={keep};collapse={1 if c0.startswith('$') else 0}"
    for k, r in enumerate(rendered[2:]):
        s += f";child{k + 3}={r}"
    if inst.suffix is not None:
        s += inst.suffix(inner)
    return s


def _same(a, b):
    if isinstance(a, list) != isinstance(b, list):
        return False
    try:
        return bool(a == b)
    except Exception:  # noqa: BLE001
        return False


def run_rule_family(ctx, name, insts, maxlen=3, cap_parents=None, index_parent=False, note=""):
    """T2: call the real _simplify_up on every (instance, parent, dependents shape) and compare with the model"""
    from dask_expr._expr import AddPrefix, Index, Projection

    f = Family(name)
    reqs, code, inputs, nontriv = [], [], [], []
    n_inst = 0
    for inst in insts:
        n_inst += 1
        _KEEP.append(inst.expr)
        sels = parents_for(inst.out, maxlen, ctx.rng, cap_parents)
        parents = []
        for s in sels:
            try:
                parents.append(Projection(inst.expr, s))
            except Exception:  # noqa: BLE001
                continue
        if index_parent:
            parents.append(Index(inst.expr))
        n_proj = len(parents)
        if inst.expr.ndim == 2 and not index_parent:
            try:
                parents.append(AddPrefix(inst.expr, "zz_"))  # a parent whose labels are no columns of the operator
            except Exception:  # noqa: BLE001
                pass
        parents += list(inst.other_parents)
        for i, parent in enumerate(parents):
            try:
                parent._meta  # a selection pandas itself rejects is not a valid parent
            except Exception:  # noqa: BLE001
                continue
            _KEEP.append(parent)
            for tag, cons, dead in dep_shapes(inst.expr, parent, inst.out, i):
                if i >= n_proj and tag not in ("single", "stale_empty", "shared_scalar", "shared_rename"):
                    continue
                deps = mk_dependents(inst.expr, cons, dead)
                extra = inst.guard(parent, deps) if inst.guard else ""
                try:
                    res = inst.expr._simplify_up(parent, deps)
                    got = render_result(inst, parent, res)
                except AssertionError:
                    got = "ERR Assertion"
                except Exception as ex:  # noqa: BLE001
                    got = f"ERR {type(ex).__name__}"
                reqs.append(f"cols rule {inst.rule} {inst.params}{extra} parent={parent_code(parent)} deps={deps_code(cons)}")
                code.append(got)
                inputs.append({"rule": inst.rule, "inst": inst.tag, "params": inst.params + extra,
                               "parent": parent_code(parent), "deps": tag + "=" + deps_code(cons)})
                nontriv.append(got != "NONE")
    model = drive(reqs)
    f.compare(inputs, code, model, nontriv)
    f.note = f"{n_inst} operator instances; requests: ordered lists <= {maxlen} + scalars; 9 dependents shapes. {note}"
    return f


# =========================================================================== T2: determine / plain


def fam_detproj(ctx):
    """determine_column_projection itself, incl. additional columns and Index parents"""
    from dask_expr._expr import Index, Projection, _DeepCopy, determine_column_projection

    f = Family("determine_column_projection")
    reqs, code, inputs, nontriv = [], [], [], []
    for cols in (["a", "b", "c"], ["b", "ab", "a", "k"], UNIV):
        df = base(cols)
        e = _DeepCopy(df.expr)
        _KEEP.append(e)
        parents = [Projection(e, s) for s in parents_for(cols, 2)] + [Index(e)]
        for i, parent in enumerate(parents):
            _KEEP.append(parent)
            for tag, cons, dead in dep_shapes(e, parent, cols, i):
                deps = mk_dependents(e, cons, dead)
                for extra in (None, [cols[-1]], [[cols[0]], cols[1]]):
                    r = determine_column_projection(e, parent, deps, additional_columns=extra)
                    got = ("many:" + rc(r)) if isinstance(r, list) else "one:" + r
                    flat = []
                    for x in extra or []:
                        flat += x if isinstance(x, list) else [x]
                    reqs.append(f"cols detproj parent={parent_code(parent)} deps={deps_code(cons)} extra={rc(flat)}")
                    code.append(got)
                    inputs.append({"parent": parent_code(parent), "deps": tag + "=" + deps_code(cons), "extra": flat})
                    nontriv.append(True)
    f.compare(inputs, code, drive(reqs), nontriv)
    f.exhaustive = True
    return f


def _plain_insts():
    from dask_expr._expr import ExplodeFrame

    out = []
    for cols in (["a", "b", "c"], ["b", "ab", "a", "k"], UNIV):
        df = base(cols)
        makers = [
            ("Fillna", lambda d: d.fillna(0)),
            ("Abs", lambda d: d.abs()),
            ("IsNa", lambda d: d.isna()),
            ("Round", lambda d: d.round(1)),
            ("_DeepCopy", lambda d: d.copy()),
            ("Isin", lambda d: d.isin([1, 2])),
            ("Replace", lambda d: d.replace(1, 5)),
            ("Where", lambda d: d.where(d > 1, 0)),
            ("Clip", lambda d: d.clip(lower=1, upper=4)),
            ("Neg", lambda d: -d),
            ("CumSum", lambda d: d.cumsum()),
            ("SortIndexBlockwise", None),
        ]
        for nm, mk in makers:
            if mk is None:
                from dask_expr._shuffle import SortIndexBlockwise

                e = SortIndexBlockwise(df.expr)
            else:
                e = mk(df).expr
            if type(e).__name__ != nm:
                # the collection API may wrap (e.g. alignment); find the operator itself
                cands = [x for x in e.walk() if type(x).__name__ == nm]
                if not cands:
                    continue
                e = cands[0]
            out.append(Inst("plain", e, [e.frame], f"frame={rc(e.frame.columns)} extra=-", list(e.columns), tag=nm))
        # classes with a dict parameter keyed by column labels (D112): the input is never collapsed to a series
        for nm, mk in (("Fillna", lambda d: d.fillna({cols[0]: 0})), ("Replace", lambda d: d.replace({cols[1]: {1: 5}})),
                       ("Replace", lambda d: d.replace({cols[0]: 1}, 7))):
            e = mk(df).expr
            if type(e).__name__ != nm:
                cands = [x for x in e.walk() if type(x).__name__ == nm]
                if not cands:
                    continue
                e = cands[0]
            out.append(Inst("plaindict", e, [e.frame], f"frame={rc(e.frame.columns)}", list(e.columns), tag=nm + "[dict]"))
    return out


def fam_plain(ctx):
    insts = _plain_insts()
    if ctx.quick:
        insts = [i for k, i in enumerate(insts) if k % 3 == ctx.seed % 3 or i.tag in ("Fillna", "CumSum") or i.tag.endswith("[dict]")]
    return run_rule_family(ctx, "plain_column_projection[Blockwise/Elemwise pass-through, Clip, Unaryop, Cumulative, Explode]",
                           insts, cap_parents=24 if ctx.quick else None)


def fam_reduction(ctx):
    """Reduction._simplify_up: a list selection of a 1-d reduction result (parent.ndim == 1 although the operand is a list)"""
    insts = []
    for cols in (["a", "b", "c"], ["b", "ab", "a", "k"]):
        df = base(cols)
        for nm, mk in (("Sum", lambda d: d.sum()), ("Max", lambda d: d.max()), ("Count", lambda d: d.count())):
            e = mk(df).expr
            insts.append(Inst("plain", e, [e.frame], f"frame={rc(cols)} extra=-", list(cols), tag=nm))
    return run_rule_family(ctx, "plain_column_projection[Reduction]", insts, maxlen=2)


def fam_filter(ctx):
    from dask_expr._expr import Filter, FilterAlign, is_filter_pushdown_available

    insts = []
    for cols in (["a", "b", "c"], ["b", "ab", "a", "k"]):
        df = base(cols)
        for nm, fr in (("io", df), ("astype", df.astype("float64")), ("filter", df[df[cols[0]] > 0]), ("fillna", df.fillna(1))):
            e = fr[fr[cols[1]] > 1].expr
            assert isinstance(e, Filter)

            def guard(parent, deps, e=e):
                blocked = False
                if e.frame._filter_passthrough_available(e, deps):
                    if not isinstance(e.frame, (FilterAlign, Filter)):
                        blocked = True
                    elif is_filter_pushdown_available(e.frame, e, deps, allow_reduction=False):
                        blocked = True
                return f" blocked={1 if blocked else 0}"

            insts.append(Inst("filter", e, [e.frame], f"frame={rc(e.frame.columns)}", list(e.columns), tag="Filter/" + nm, guard=guard))
    return run_rule_family(ctx, "Filter._simplify_up[Projection]", insts, maxlen=2 if ctx.quick else 3)


# =========================================================================== T2: operator rules


def _keys_suffix(get):
    return lambda inner: ";keys=" + rc(get(inner))


def fam_assign(ctx):
    from dask_expr._expr import Assign

    insts = []
    for cols in (["a", "b", "c"], ["b", "ab", "a", "k"]):
        df = base(cols)
        v = (df[cols[0]] + 1).expr
        w = (df[cols[1]] * 2).expr
        variants = [
            ("new", ["z", v]),
            ("overwrite", [cols[0], v]),
            ("two", ["z", v, "y", w]),
            ("new+overwrite", ["z", v, cols[1], w]),
            ("dupkeys", ["z", v, "z", w]),
            ("scalar", ["z", 1]),
            # what `df.assign(z=, y=).assign(z=)` is squashed to: an earlier key assigned again
            ("reassign_earlier", ["z", v, "y", w, "z", w]),
            ("reassign_earlier_3", ["y", w, "z", v, "y", v, "q", w]),
            # one call with an existing and a new key, in both orders
            ("overwrite+new", [cols[1], w, "z", v]),
            ("new+overwrite+new", ["z", v, cols[0], w, "y", w]),
        ]
        for nm, pairs in variants:
            e = Assign(df.expr, *pairs)
            insts.append(Inst("assign", e, [e.frame], f"frame={rc(cols)} keys={rc(e.keys)}", list(e.columns), tag=nm,
                              suffix=_keys_suffix(lambda inner: inner.keys)))
    return run_rule_family(ctx, "Assign._simplify_up", insts, cap_parents=30 if ctx.quick else None)


def fam_assign_labels(ctx):
    """T4: the labels `AssignOp.op_cols` states (`assignLabels`: new keys in first-occurrence order) == the columns of the
    real Assign, for Assign nodes built directly and for what nested `.assign()` calls are simplified to"""
    from dask_expr._expr import Assign

    f = Family("assign_labels[Assign.columns vs assignLabels]")
    reqs, code, inputs = [], [], []
    for cols in (["a", "b", "c"], ["b", "ab", "a", "k"]):
        df = base(cols)
        v = (df[cols[0]] + 1).expr
        w = (df[cols[1]] * 2).expr
        exprs = []
        pool = ["z", "y", cols[0], cols[-1], "q"]
        for n in (1, 2, 3):
            for keys in itertools.product(pool, repeat=n):
                pairs = []
                for i, k in enumerate(keys):
                    pairs += [k, v if i % 2 == 0 else w]
                exprs.append(Assign(df.expr, *pairs))
        # through the API: nested assigns, before and after the squash of Assign._simplify_down
        for nested in (df.assign(z=df[cols[0]] + 1, y=df[cols[1]] + 1).assign(z=df[cols[0]] + 5),
                       df.assign(z=df[cols[0]] + 1).assign(**{cols[0]: df[cols[1]] + 1, "y": df[cols[0]] + 2}).assign(z=df[cols[1]] + 3),
                       df.assign(**{cols[1]: df[cols[0]] + 1, "z": df[cols[0]] + 2})):
            exprs.append(nested.expr)
            exprs += [x for x in nested.expr.simplify().walk() if isinstance(x, Assign)]
        for e in exprs:
            if not isinstance(e, Assign):
                continue
            _KEEP.append(e)
            reqs.append(f"cols assignlabels frame={rc(e.frame.columns)} keys={rc(e.keys)}")
            code.append(rc(e.columns))
            inputs.append({"frame": rc(e.frame.columns), "keys": rc(e.keys)})
    f.compare(inputs, code, drive(reqs))
    f.exhaustive = True
    f.note = "all key lists of length <= 3 over two new keys, two existing columns and a third new key; nested assign() calls"
    return f


def fam_rename(ctx):
    from dask_expr._expr import RenameFrame

    insts = []
    for cols in (["a", "b", "c"], ["b", "ab", "a", "k"]):
        df = base(cols)
        maps = [
            {cols[0]: "A"},
            {cols[0]: cols[1], cols[1]: cols[0]},  # swap
            {"zz": "Z"},  # not a column
            {cols[0]: "A", "zz": cols[0]},  # a label that is not a column maps onto an existing name (D21)
            {"zz": cols[1], cols[1]: "B"},
            {"zz": cols[2]},  # a label that is not a column maps onto an existing, unrenamed column (D21)
            {cols[0]: "A", cols[1]: "B", cols[2]: "C"},
            {cols[2]: cols[2]},
        ]
        for m in maps:
            e = RenameFrame(df.expr, m)
            if len(set(e.columns)) != len(e.columns):
                continue
            ms = ",".join(f"{k}>{v}" for k, v in m.items())
            insts.append(Inst("rename", e, [e.frame], f"frame={rc(cols)} map={ms}", list(e.columns), tag=ms))
    return run_rule_family(ctx, "RenameFrame._simplify_up", insts, cap_parents=30 if ctx.quick else None)


def fam_affix(ctx):
    from dask_expr._expr import AddPrefix, AddSuffix

    insts = []
    for cols in (["a", "b", "c"], ["b", "ab", "a", "k"]):
        df = base(cols)
        for cls, sfx, s in ((AddPrefix, 0, "p_"), (AddSuffix, 1, "_s"), (AddPrefix, 0, "a"), (AddSuffix, 1, "b"), (AddPrefix, 0, ""), (AddSuffix, 1, "")):
            e = cls(df.expr, s)
            insts.append(Inst("affix", e, [e.frame], f"suffix={sfx} n={len(s)} frame={rc(cols)}", list(e.columns),
                              tag=f"{cls.__name__}({s!r})"))
    return run_rule_family(ctx, "AddPrefix/AddSuffix._simplify_up", insts, cap_parents=30 if ctx.quick else None)


def fam_binop(ctx):
    from dask_expr._expr import Add, Expr

    insts = []
    for cols in (["a", "b", "c"], ["b", "ab", "a", "k"]):
        df = base(cols)
        pairs = [
            ("frame+frame", df.expr, df.fillna(0).expr),
            ("frame+scalar", df.expr, 1),
            ("scalar+frame", 2, df.expr),
            ("frame+series", df.expr, df[cols[0]].expr),
            ("sub+sub", df[cols[:2]].expr, df[cols[1:3]].expr),
            ("reordered", df[cols[:2]].expr, df[[cols[1], cols[0]]].expr),
        ]
        for nm, l, r in pairs:
            try:
                e = Add(l, r)
                outc = list(e.columns)
            except Exception:  # noqa: BLE001
                continue
            def side(x):
                return rc(x.columns) if isinstance(x, Expr) and x.ndim > 1 else "*"

            insts.append(_BinopInst("binop", e, [l, r], f"self={rc(outc)} left={side(l)} right={side(r)}", outc, tag=nm))
    return run_rule_family(ctx, "Binop._simplify_up", insts, cap_parents=30 if ctx.quick else None)


class _BinopInst(Inst):
    pass


def _render_binop(inst, parent, res):
    """Binop operands may be scalars; render positionally"""
    from dask_expr._expr import Expr, Projection

    if res is None:
        return "NONE"
    keep, inner = 0, res
    if type(res) is type(parent) and _same(res.operand("columns"), parent.operand("columns")) and type(res.frame) is type(inst.expr):
        keep, inner = 1, res.frame
    if type(inner) is not type(inst.expr):
        return f"?unexpected:{inner}"
    rendered = []
    for orig, new in zip(inst.inputs, inner.operands):
        if not isinstance(orig, Expr):
            rendered.append("*" if not isinstance(new, Expr) else "?")
        elif isinstance(new, Expr) and new._name == orig._name:
            rendered.append("*")
        elif isinstance(new, Projection) and new.frame._name == orig._name:
            rendered.append(rsel(new.operand("columns")))
        else:
            rendered.append(f"?{new}")
    return f"child={rendered[0]};child2={rendered[1]};keep={keep};collapse=0"


def render_result(inst, parent, res):
    if isinstance(inst, _BinopInst):
        return _render_binop(inst, parent, res)
    return _render_generic(inst, parent, res)


def fam_astype(ctx):
    insts = []
    for cols in (["a", "b", "c"], ["b", "ab", "a", "k"]):
        df = base(cols)
        variants = [("all", "float64"), ("one", {cols[0]: "float64"}), ("two", {cols[0]: "float64", cols[1]: "float32"}),
                    ("three", {c: "float64" for c in cols[:3]})]
        for nm, dt in variants:
            e = df.astype(dt).expr
            dk = rc(dt.keys()) if isinstance(dt, dict) else "*"
            sfx = _keys_suffix(lambda inner: inner.operand("dtypes").keys()) if isinstance(dt, dict) else None
            insts.append(Inst("astype", e, [e.frame], f"frame={rc(cols)} dkeys={dk}", list(e.columns), tag=nm, suffix=sfx))
    return run_rule_family(ctx, "AsType._simplify_up[Projection]", insts, cap_parents=30 if ctx.quick else None)


def fam_dropna(ctx):
    from dask_expr._expr import DropnaFrame

    insts = []
    for cols in (["a", "b", "c"], ["b", "ab", "a", "k"]):
        df = base(cols)
        for sub in (None, [cols[0]], [cols[2], cols[1]], [cols[-1]]):
            e = DropnaFrame(df.expr, subset=sub)
            import dask_expr as dx

            others = [dx.new_collection(e).groupby(cols[1]).sum().expr, dx.new_collection(e).fillna(0).expr]  # D17
            insts.append(Inst("dropna", e, [e.frame], f"frame={rc(cols)} subset={'*' if sub is None else rc(sub)}", list(cols), tag=str(sub),
                              other_parents=others))
    return run_rule_family(ctx, "DropnaFrame._simplify_up", insts, cap_parents=30 if ctx.quick else None)


def fam_combine_first(ctx):
    from dask_expr._expr import CombineFirst, CombineFirstAlign

    insts = []
    for lc, rcols in ((["a", "b", "c"], ["b", "c", "k"]), (["b", "ab", "a"], ["b", "ab", "a"]), (["a", "b"], ["c", "k"])):
        l, r = base(lc), base(rcols, salt=3)
        for cls in (CombineFirst, CombineFirstAlign):
            e = cls(l.expr, r.expr)
            insts.append(Inst("combinefirst", e, [e.frame, e.other], f"frame={rc(lc)} other={rc(rcols)}", list(e.columns), tag=cls.__name__))
    return run_rule_family(ctx, "CombineFirst/CombineFirstAlign._simplify_up", insts, cap_parents=30 if ctx.quick else None)


def fam_opalign(ctx):
    """OpAlignPartitions / MethodOperatorAlign._simplify_up: both operands are projected (D32)"""
    from dask_expr._expr import MethodOperatorAlign, OpAlignPartitions

    insts = []
    for lc, rcols in ((["a", "b", "c"], ["a", "b", "c"]), (["a", "b", "c"], ["b", "c", "k"]), (["b", "ab", "a"], ["a", "k"])):
        l, r = base(lc), base(rcols, salt=3, npartitions=1)
        for nm, e in (("OpAlignPartitions", OpAlignPartitions(l.expr, r.expr, "__add__")),
                      ("MethodOperatorAlign", MethodOperatorAlign(l.expr, r.expr, "add", 1, None, None))):
            try:
                outc = list(e.columns)
            except Exception:  # noqa: BLE001
                continue
            insts.append(Inst("opalign", e, [e.frame, e.other], f"frame={rc(lc)} other={rc(rcols)}", outc, tag=nm))
        e = OpAlignPartitions(l.expr, r[rcols[0]].expr, "__add__")
        try:
            outc = list(e.columns)
            insts.append(Inst("opalign", e, [e.frame, e.other], f"frame={rc(lc)} other=*", outc, tag="frame+series"))
        except Exception:  # noqa: BLE001
            pass
    return run_rule_family(ctx, "OpAlignPartitions/MethodOperatorAlign._simplify_up", insts, cap_parents=30 if ctx.quick else None)


def fam_reset_index(ctx):
    from dask_expr._expr import ResetIndex

    insts = []
    for cols in (["a", "b", "c"], ["b", "index", "a"], ["index", "level_0"]):
        for named in (None, "ix"):
            df = base(cols, index_name=named)
            for drop in (False, True):
                e = ResetIndex(df.expr, drop)
                try:
                    e.columns
                except ValueError:
                    continue  # pandas refuses: the label of the former index already exists
                insts.append(Inst("resetindex", e, [e.frame], f"frame={rc(cols)} drop={int(drop)} named={int(named is not None)}",
                                  list(e.columns), tag=f"drop={drop},named={named}",
                                  suffix=lambda inner: f";drop={int(bool(inner.drop))}"))
    return run_rule_family(ctx, "ResetIndex._simplify_up[Projection, frame input]", insts)


def fam_io(ctx):
    import dask_expr as dx
    from dask_expr.io.io import FromPandas

    insts = []
    for cols in (["a", "b", "c"], ["b", "ab", "a", "k"], UNIV):
        df = base(cols)
        e = df.expr
        assert isinstance(e, FromPandas)
        insts.append(Inst("io", e, [e], f"self={rc(cols)}", list(cols), tag="FromPandas", io=True))
        e2 = e.substitute_parameters({"columns": cols[:-1][::-1]})
        insts.append(Inst("io", e2, [e2], f"self={rc(e2.columns)}", list(e2.columns), tag="FromPandas[columns]", io=True))
        pdf = pdf_for(cols)

        def reader(i, columns=None, pdf=pdf):
            return pdf if columns is None else pdf[columns]

        fm = dx.from_map(reader, [0, 1], meta=pdf.iloc[:0]).expr
        if type(fm).__name__ == "FromMapProjectable":
            insts.append(Inst("io", fm, [fm], f"self={rc(cols)}", list(cols), tag="FromMapProjectable", io=True))
    f = run_rule_family(ctx, "BlockwiseIO._simplify_up[FromPandas, FromMapProjectable]", insts, cap_parents=30 if ctx.quick else None)
    return f


def fam_keyed(ctx):
    """groupby_projection, SortValues, SetIndex, NLargest, Shuffle, SetIndexBlockwise, DropDuplicates"""
    from dask_expr._reductions import DropDuplicates, NFirst, NLargest
    from dask_expr._shuffle import SetIndexBlockwise

    insts = []
    for cols in (["a", "b", "c", "k"], ["b", "ab", "a", "k"]):
        df = base(cols)
        k, b = "k", "b"
        for nm, e, keys in (
            ("gb.sum", df.groupby(k).sum().expr, [k]),
            ("gb2.count", df.groupby([k, b]).count().expr, [k, b]),
            ("gb.expr", df.groupby(df[k] % 2).sum().expr, []),
            ("gb.first", df.groupby(b).first().expr, [b]),
            ("gb.ffill", df.groupby(k).ffill().expr, [k]),
            ("gb.median", df.groupby(k).median().expr, [k]),
            ("explode", df.explode(b).expr, [b]),
            # a list slice names input columns the chunk functions select: they stay with the keys (D96)
            ("gb.slice2.sum", df.groupby(k)[[cols[0], cols[1]]].sum().expr, [k, cols[0], cols[1]]),
            ("gb.slice2.first", df.groupby(k)[[cols[1], cols[0]]].first().expr, [k, cols[1], cols[0]]),
            ("gb.slice1.count", df.groupby(k)[[cols[0]]].count().expr, [k, cols[0]]),
            ("gb.slice2.wide", type(df.groupby(k).sum().expr)(df.expr, *df.groupby(k)[[cols[0], cols[1]]].sum().expr.operands[1:]), [k, cols[0], cols[1]]),
        ):
            # (a sliced groupby already sits on a projection of the frame to keys + slice)
            insts.append(Inst("keyed", e, [e.frame], f"frame={rc(list(e.frame.columns))} keys={rc(keys)}", list(e.columns), tag=nm))
        for nm, e, keys in (
            ("sort1", df.sort_values(b).expr, [b]),
            ("sort2", df.sort_values([b, "a"]).expr, [b, "a"]),
            ("set_index", df.set_index(k).expr, [k]),
            ("set_index_nodrop", df.set_index(k, drop=False).expr, [k]),
            ("set_index_expr", df.set_index(df[k] + 1).expr, []),
            ("nlargest1", NLargest(df.expr, 2, b), [b]),
            ("nlargest2", NLargest(df.expr, 2, [b, "a"]), [b, "a"]),
            ("nfirst", NFirst(df.expr, 2, b, True), [b]),
        ):
            insts.append(Inst("keyed", e, [e.frame], f"frame={rc(cols)} keys={rc(keys)}", list(e.columns), tag=nm))
        for nm, by in (("shuffle1", k), ("shuffle2", [k, b])):
            e = df.shuffle(by, shuffle_method="tasks").expr
            insts.append(Inst("shuffle", e, [e.frame], f"frame={rc(cols)} pidx={rc(by if isinstance(by, list) else [by])}", list(cols), tag=nm))
        for nm, other in (("sib", k), ("sib_b", b)):
            e = SetIndexBlockwise(df.expr, other, True, None)
            insts.append(Inst("sib", e, [e.frame], f"frame={rc(cols)} other={other}", list(e.columns), tag=nm))
        for nm, sub in (("dd_none", None), ("dd_a", ["a"]), ("dd_kb", [k, b]), ("dd_ab", [cols[1]])):
            e = DropDuplicates(df.expr, subset=sub)
            insts.append(Inst("dropdup", e, [e.frame], f"frame={rc(cols)} subset={'*' if sub is None else rc(sub)}", list(cols), tag=nm))
    return run_rule_family(ctx, "groupby_projection/SortValues/SetIndex/NLargest/ShuffleBase/SetIndexBlockwise/DropDuplicates._simplify_up",
                           insts, maxlen=2 if ctx.quick else 3, cap_parents=14 if ctx.quick else None)


def fam_rolling(ctx):
    insts = []
    for cols in (["a", "b", "c", "k"], ["b", "ab", "a", "k"]):
        df = base(cols)
        e = df.rolling(2).sum().expr
        insts.append(Inst("rolling", e, [e.frame], f"frame={rc(cols)} gb=*", list(e.columns), tag="rolling.sum"))
        e = df.rolling(2).max().expr
        insts.append(Inst("rolling", e, [e.frame], f"frame={rc(cols)} gb=*", list(e.columns), tag="rolling.max"))
        try:
            e = df.groupby("k").rolling(2).sum().expr
            insts.append(Inst("rolling", e, [e.frame], f"frame={rc(cols)} gb=k", list(e.columns), tag="gb.rolling.sum"))
        except Exception:  # noqa: BLE001
            pass
    return run_rule_family(ctx, "RollingReduction._simplify_up", insts, cap_parents=30 if ctx.quick else None)


MERGE_CONFIGS = [
    # (L cols, R cols, kwargs)
    (["k", "b", "c"], ["k", "b", "d"], dict(on="k")),
    (["k", "b", "c"], ["k", "b", "d"], dict(on="k", suffixes=("_l", ""))),
    (["k", "b", "c"], ["k", "b", "d"], dict(on="k", suffixes=("", "_r"))),
    (["a", "k", "b"], ["b", "k", "a"], dict(on=["k"])),
    (["k", "b", "c"], ["k", "b", "c"], dict(on=["k", "b"])),
    (["b", "v"], ["k2", "b"], dict(left_on="b", right_on="k2")),
    (["k2", "b"], ["b", "v"], dict(left_on="k2", right_on="b")),
    (["k", "b"], ["j", "c"], dict(left_on="k", right_on="j")),
    (["k", "b", "c"], ["b", "d"], dict(left_on="k", right_index=True)),
    (["a", "b"], ["b", "c"], dict(left_index=True, right_index=True)),
]


def _merge_inst(lc, rcols, kw, how="inner"):
    from dask_expr._merge import Merge
    from dask_expr._util import _convert_to_list

    l, r = base(lc), base(rcols, salt=5, npartitions=1)
    e = l.merge(r, how=how, **kw).expr
    cands = [x for x in e.walk() if isinstance(x, Merge)]
    e = cands[0]
    lo = _convert_to_list(e.left_on) or []
    ro = _convert_to_list(e.right_on) or []
    ls, rs = e.suffixes
    params = f"L={rc(e.left.columns)} R={rc(e.right.columns)} lon={rc(lo)} ron={rc(ro)} ls={ls or '-'} rs={rs or '-'}"
    return e, params


def fam_merge(ctx):
    insts = []
    for lc, rcols, kw in MERGE_CONFIGS:
        for how in (("inner", "left") if not ctx.quick else ("inner",)):
            e, params = _merge_inst(lc, rcols, kw, how)
            insts.append(Inst("merge", e, [e.left, e.right], params, list(e.columns), tag=f"{lc}|{rcols}|{kw}|{how}"))
    return run_rule_family(ctx, "Merge._simplify_up[Projection/Index]", insts, maxlen=2 if ctx.quick else 3, index_parent=True)


def fam_merge_labels(ctx):
    """T4: the label function the merge theorems assume equals the columns of the real Merge meta"""
    f = Family("merge_labels[Merge.columns vs mergeLabels]")
    reqs, code, inputs = [], [], []
    for lc, rcols, kw in MERGE_CONFIGS:
        for how in ("inner", "left", "right", "outer"):
            e, params = _merge_inst(lc, rcols, kw, how)
            reqs.append("cols mergelabels " + params)
            code.append(rc(e.columns))
            inputs.append(params + " how=" + how)
            # pruned variants: every pair of sub-schemas containing the keys
            for k in range(1, 3):
                for sl in itertools.combinations(lc, k):
                    for sr in itertools.combinations(rcols, k):
                        lo = [kw.get("on")] if isinstance(kw.get("on"), str) else list(kw.get("on") or [])
                        need_l = set(lo) | ({kw["left_on"]} if "left_on" in kw else set())
                        need_r = set(lo) | ({kw["right_on"]} if "right_on" in kw else set())
                        if not need_l <= set(sl) or not need_r <= set(sr):
                            continue
                        try:
                            e2, p2 = _merge_inst(list(sl), list(sr), kw, how)
                        except Exception:  # noqa: BLE001
                            continue
                        reqs.append("cols mergelabels " + p2)
                        code.append(rc(e2.columns))
                        inputs.append(p2 + " how=" + how)
    f.compare(inputs, code, drive(reqs))
    return f


def fam_concat(ctx):
    import dask_expr as dx
    from dask_expr._concat import Concat

    insts = []
    schemas = [
        (["a", "b", "c"], ["a", "b", "c"]),
        (["a", "b"], ["b", "c"]),
        (["a", "b"], ["c", "k"]),
        (["b", "a"], ["a", "b"], ["a", "c"]),
        # an input without columns (the user's frame has none): `Concat._meta` leaves it out when it declares the labels
        (["a", "b"], []),
        ([], ["a", "b"], ["b", "c"]),
        (["a", "b"], [], ["a", "b"]),
    ]
    for fs in schemas:
        for axis, join in ((0, "outer"), (0, "inner"), (1, "outer")):
            if axis == 1 and len({c for s in fs for c in s}) != sum(len(s) for s in fs):
                continue
            dfs = [base(s, salt=i) if s else base(["a", "b"], salt=i)[[]] for i, s in enumerate(fs)]
            # the knobs are no inputs of the model's rule (it does not look at them); each is set alone so that an exchange is visible
            for knobs in ({}, {"interleave_partitions": True}, {"ignore_unknown_divisions": True}, {"ignore_order": True}):
                if knobs and (axis == 1 or len(fs) > 2):
                    continue
                try:
                    e = dx.concat(dfs, axis=axis, join=join, **knobs).expr
                except Exception:  # noqa: BLE001
                    continue
                cands = [x for x in e.walk() if isinstance(x, Concat)]
                if not cands:
                    continue
                e = cands[0]
                if not list(e.columns):
                    continue
                params = f"axis1={int(axis == 1)} inner={int(join == 'inner')} frames={'/'.join(rc(x.columns) for x in e._frames)}"
                insts.append(Inst("concat", e, list(e._frames), params, list(e.columns), tag=f"{fs}|{axis}|{join}|{sorted(knobs)}", concat=True))
    return run_rule_family(ctx, "Concat._simplify_up", insts, cap_parents=30 if ctx.quick else None)


def fam_concat_labels(ctx):
    """T4: the labels the Concat rule compares with the request (`concatLabels`: inputs without columns left out) == the
    columns of the real Concat"""
    import dask_expr as dx
    from dask_expr._concat import Concat

    f = Family("concat_labels[Concat.columns vs concatLabels]")
    reqs, code, inputs = [], [], []
    pool = [["a", "b", "c"], ["a", "b"], ["b", "c"], ["c", "k"], ["b", "a"], []]
    for n in (2, 3):
        for fs in itertools.product(pool, repeat=n):
            if not any(fs):
                continue  # no input has a column: the real constructor raises
            for join in ("outer", "inner"):
                dfs = [base(list(s), salt=i) if s else base(["a", "b"], salt=i)[[]] for i, s in enumerate(fs)]
                try:
                    e = dx.concat(dfs, join=join).expr
                    cands = [x for x in e.walk() if isinstance(x, Concat)]
                    e = cands[0]
                    got = rc(e.columns)
                except Exception as ex:  # noqa: BLE001
                    got = f"ERR {type(ex).__name__}"
                _KEEP.append(e)
                reqs.append(f"cols concatlabels axis1=0 inner={int(join == 'inner')} frames={'/'.join(rc(s) for s in fs)}")
                code.append(got)
                inputs.append({"frames": [list(s) for s in fs], "join": join})
    f.compare(inputs, code, drive(reqs))
    f.exhaustive = True
    f.note = "all lists of 2 and 3 inputs over 6 schemas incl. the empty one, join outer/inner, axis=0"
    return f


def fam_down(ctx):
    """Projection._simplify_down, Drop._simplify_down, GroupbyAggregationBase._simplify_down"""
    from dask_expr._expr import Drop, Projection

    f = Family("_simplify_down[Projection squash/identity, Drop, GroupbyAggregation dict]")
    reqs, code, inputs, nontriv = [], [], [], []

    def sel_code(s):
        return ("L:" + rc(s)) if isinstance(s, list) else "S:" + s

    for cols in (["a", "b", "c"], ["b", "ab", "a", "k"]):
        df = base(cols).expr
        inner_sels = [None] + [list(p) for r in (1, 2, 3) for p in itertools.permutations(cols[:3], r)] + [cols[0]]
        for a in inner_sels:
            fr = df if a is None else Projection(df, a)
            if fr.ndim != 2:
                continue
            avail = fr.columns
            for b in [list(p) for r in (1, 2, 3) for p in itertools.permutations(avail, r)] + list(avail):
                e = Projection(fr, b)
                _KEEP.append(e)
                try:
                    res = e._simplify_down()
                    if res is None:
                        got = "NONE"
                    elif res._name == fr._name:
                        got = "IDENT"
                    elif isinstance(res, Projection) and a is not None and res.frame._name == df._name:
                        got = "SQUASH " + rsel(res.operand("columns"))
                    else:
                        got = f"?{res}"
                except AssertionError:
                    got = "ERR Assertion"
                same = int(e._meta.ndim == fr._meta.ndim)
                reqs.append(f"cols projdown frame={rc(fr.columns)} same={same} self={sel_code(b)} inner={'*' if a is None else sel_code(a)}")
                code.append(got)
                inputs.append({"frame": list(fr.columns), "self": b, "inner": a})
                nontriv.append(got != "NONE")
        for colop in ([cols[0]], [cols[1], cols[0]], cols[2], ["zz"]):
            e = Drop(df, colop, "ignore")
            res = e._simplify_down()
            got = rc(res.operand("columns")) if isinstance(res, Projection) and res.frame._name == df._name else f"?{res}"
            reqs.append(f"cols drop frame={rc(cols)} colop={rc(colop if isinstance(colop, list) else [colop])}")
            code.append(got)
            inputs.append({"drop": colop})
            nontriv.append(True)
        cdf = base(cols)
        for by, arg in ((cols[-1], {cols[0]: "sum"}), ([cols[-1], cols[1]], {cols[0]: "sum"}), (cols[0], {cols[1]: "max", cols[2]: "min"}),
                        (cols[-1], {c: "sum" for c in cols[:-1]})):
            e = cdf.groupby(by).agg(arg).expr
            res = e._simplify_down()
            if res is None:
                got = "NONE"
            elif type(res) is type(e) and isinstance(res.frame, Projection) and res.frame.frame._name == e.frame._name:
                got = rc(res.frame.operand("columns"))
            else:
                got = f"?{res}"
            reqs.append(f"cols gbdown frame={rc(cols)} by={rc(by if isinstance(by, list) else [by])} arg={rc(arg.keys())}")
            code.append(got)
            inputs.append({"by": by, "arg": list(arg)})
            nontriv.append(got != "NONE")
    f.compare(inputs, code, drive(reqs), nontriv)
    f.exhaustive = True
    return f


def fam_source_reads(ctx):
    """T4: the SourceOp law — a source whose `columns` operand was set by the absorption rule reads exactly those
    columns (values, labels, order), for every projectable source class"""
    f = Family("source_reads[columns operand of FromPandas/FromArray/FromMapProjectable/from_dict/read_csv/read_parquet]")
    pdf = _tables(False)["N"]
    cols = list(pdf.columns)
    sig = {c: int(pdf[c].iloc[5]) for c in cols}  # row 5 identifies the column a value comes from
    assert len(set(sig.values())) == len(cols)
    back = {v: c for c, v in sig.items()}
    sels = [list(p) for r in (1, 2, 3) for p in itertools.combinations(cols, r)]
    if ctx.quick:
        sels = sels[::2]
    inputs, code, model = [], [], []
    for source in SOURCES:
        df = _source_N(pdf, source, False)
        src = next((e for e in df.expr.walk() if getattr(e, "_absorb_projections", False)), None)
        if src is None:
            code.append("no projectable source")
            model.append("projectable source")
            inputs.append(source)
            continue
        for sel in sels:
            import dask_expr as dx

            try:
                e = df.expr.substitute(src, src.substitute_parameters({"columns": sel}))
                got = dx.new_collection(e.lower_completely()).compute()
                read = [back.get(int(got[c].iloc[5]), "?") for c in got.columns]
                out = f"labels={rc(got.columns)} data={rc(read)}"
            except Exception as ex:  # noqa: BLE001
                out = f"ERR {type(ex).__name__}"
            inputs.append({"source": source, "class": type(src).__name__, "columns": sel})
            code.append(out)
            model.append(f"labels={rc(sel)} data={rc(sel)}")
    f.compare(inputs, code, model)
    f.note = "model side = SourceOp.read_cols/read_val: read(cs) has labels cs and the data of cs"
    return f


def fam_category_conformance(ctx):
    """T4: the hand-assigned category of the classes that reach plain_column_projection (harness/extractors_cols.py):
    columnLocal  <=>  op(F)[sel] == op(F[sel + keys])[sel]  on the real implementation (unoptimised lowering)"""
    from harness.extractors_cols import PLAIN_CATEGORIES

    f = Family("category_conformance[classes reaching plain_column_projection]")
    _, dd = _envs(False)
    base_cols = ["a", "b", "k", "ab"]
    D = dd["L"][base_cols]
    S = dd["L"].assign(b=dd["L"].b.astype("str"))[["a", "b", "k"]]
    # cummax/cummin are left out: cumulative max/min over a ONE-column frame raises IndexError by itself
    # (TakeLast squeezes a 1x1 frame to a scalar) — an independent defect, reported, not a column-pruning matter
    makers = [
        ("Fillna", D, lambda d: d.fillna(0), []), ("Abs", D, lambda d: d.abs(), []), ("IsNa", D, lambda d: d.isna(), []),
        ("NotNull", D, lambda d: d.notnull(), []), ("Round", D, lambda d: d.round(1), []),
        ("Isin", D, lambda d: d.isin([1, 2, 3]), []), ("Replace", D, lambda d: d.replace(1, 5), []),
        ("Where", D, lambda d: d.where(d > 1, 0), []), ("Mask", D, lambda d: d.mask(d > 3, 0), []),
        ("Clip", D, lambda d: d.clip(lower=1, upper=4), []), ("Neg", D, lambda d: -d, []), ("Invert", D, lambda d: ~(d > 2), []),
        ("CumSum", D, lambda d: d.cumsum(), []), ("Diff", D, lambda d: d.diff(1), []),
        ("Shift", D, lambda d: d.shift(1), []), ("FFill", D, lambda d: d.ffill(), []),
        ("Repartition", D, lambda d: d.repartition(npartitions=2), []),
        ("Sum", D, lambda d: d.sum(), []), ("Max", D, lambda d: d.max(), []), ("Count", D, lambda d: d.count(), []),
        ("Var", D, lambda d: d.var(), []), ("IdxMax", D, lambda d: d.idxmax(), []), ("All", D, lambda d: (d > 0).all(), []),
        ("NLargest", D, lambda d: d.nlargest(3, "a"), ["a"]), ("ExplodeFrame", D, lambda d: d.explode("b"), ["b"]),
        ("ResetIndex", D, lambda d: d.reset_index(drop=True), []),
        ("Filter", D, lambda d: d[dd["L"].a > 2], []),
        ("Corr", D, lambda d: d.corr(), []), ("Cov", D, lambda d: d.cov(), []), ("Mode", D[["a", "b"]], lambda d: d.mode(), []),
        ("Categorize", S, lambda d: d.categorize(columns=["b"]), []),
        ("Apply", D.astype("float64"), lambda d: d.apply(lambda row: row / row.sum(), axis=1, meta=d._meta), []),
        ("MapPartitions", D.astype("float64"), lambda d: d.map_partitions(lambda x: x.div(x.sum(axis=1), axis=0)), []),
    ]
    inputs, code, model = [], [], []
    for nm, frame, mk, keys in makers:
        full = mk(frame)
        if not any(type(x).__name__ == nm for x in full.expr.walk()):
            code.append(f"class {nm} not constructed")
            model.append("constructed")
            inputs.append(nm)
            continue
        cols = [c for c in frame.columns]
        sels = [[cols[1]], [cols[-1], cols[0]], [cols[0]]]
        local = True
        for sel in sels[: (2 if ctx.quick else 3)]:
            need = [c for c in cols if c in sel or c in keys]
            try:
                a = _compute(full[sel], False)
                b = _compute(mk(frame[need])[sel], False)
                if not e2e.same(a, b):
                    local = False
            except Exception:  # noqa: BLE001
                local = False
        inputs.append(nm)
        code.append("columnLocal" if local else "notLocal")
        model.append("columnLocal" if PLAIN_CATEGORIES.get(nm) == "columnLocal" else "notLocal")
    f.compare(inputs, code, model)
    f.note = "real operation on the unoptimised lowering: selecting after the operation vs pruning the input first"
    return f


def families(ctx):
    return [fam_detproj, fam_plain, fam_reduction, fam_filter, fam_assign, fam_rename, fam_affix, fam_binop, fam_astype,
            fam_dropna, fam_combine_first, fam_opalign, fam_reset_index, fam_io, fam_keyed, fam_rolling, fam_merge, fam_merge_labels, fam_concat,
            fam_concat_labels, fam_assign_labels, fam_down,
            fam_source_reads, fam_category_conformance]


# =========================================================================== end-to-end support / failing-input search
#
# A case = (program, terminal, selection).  A program builds a frame `x` from the tables L, R with the same code on
# pandas objects and dask-expr collections; a terminal puts one or several consumers on `x` (several consumers with
# different column needs = a shared intermediate).  Every case is executed
#   optimised  vs  pandas                       (labels/order exact, values canonical)
#   optimised  vs  the unoptimised lowering     (expr.lower_completely() run with dask.get)
#   optimised on sources widened with unused columns  vs  optimised on the original sources


def _tables(wide=False):
    n = 8
    L = pd.DataFrame(
        {
            "a": np.arange(1, n + 1, dtype="int64"),
            "b": np.array([0, 3, 2, 1, 0, 3, 2, 1], dtype="int64"),
            "c": pd.array([0.0, None, 2.0, 1.0, None, 2.0, 0.0, 1.0], dtype="float64"),
            "k": np.array([5, 2, 7, 0, 3, 6, 1, 4], dtype="int64"),
            "ab": np.array([10, 20, 30, 40, 50, 60, 70, 80], dtype="int64"),
        },
        index=pd.Index(np.arange(n, dtype="int64") * 2),
    )
    R = pd.DataFrame(
        {
            "k": np.array([0, 1, 2, 3, 5, 9], dtype="int64"),
            "b": np.array([7, 7, 8, 8, 9, 9], dtype="int64"),
            "d": np.array([100, 200, 300, 400, 500, 600], dtype="int64"),
            "k2": np.array([0, 3, 3, 1, 2, 8], dtype="int64"),
        },
        index=pd.Index(np.arange(6, dtype="int64") * 3),
    )
    # homogeneous numeric table for array-/file-backed sources: every column has its own magnitude, `d` repeats (group key)
    arr = np.arange(60, dtype="int64").reshape(12, 5) * np.array([1, 10, 100, 1000, 10000], dtype="int64")
    N = pd.DataFrame(arr, columns=["a", "b", "c", "d", "e"])
    N["d"] = np.arange(12, dtype="int64") % 4
    if wide:
        N = pd.concat([pd.Series(np.arange(12, dtype="int64") * 7, name="u1"), N[["a", "b"]],
                       pd.Series(np.arange(12, dtype="int64") % 2, name="u2"), N[["c", "d", "e"]]], axis=1)
    if wide:
        L = pd.concat([pd.Series(np.arange(n) * 11, index=L.index, name="u1"), L[["a", "b"]],
                       pd.Series(np.arange(n) % 2, index=L.index, name="u2"), L[["c", "k", "ab"]]], axis=1)
        R = pd.concat([R[["k"]], pd.Series(np.arange(6) * 7, index=R.index, name="u3"), R[["b", "d", "k2"]]], axis=1)
    return {"L": L, "R": R, "N": N}


SOURCES = ("pandas", "from_map", "from_array", "from_dict", "read_csv", "read_parquet")
_TMP = None


def _tmpdir():
    """scratch directory for the file-backed sources, removed at interpreter exit"""
    global _TMP
    if _TMP is None:
        import atexit
        import shutil
        import tempfile

        _TMP = tempfile.mkdtemp(prefix="verif-c04-")
        atexit.register(shutil.rmtree, _TMP, ignore_errors=True)
    return _TMP


def _source_N(pdf, source, wide):
    """the table N as a dask-expr collection read through the given source class"""
    import os

    import dask_expr as dx

    if source == "pandas":
        return dx.from_pandas(pdf, npartitions=3, sort=False)
    if source == "from_map":
        cuts = [0, 5, 10, 12]
        parts = [pdf.iloc[cuts[i]:cuts[i + 1]] for i in range(3)]
        return dx.from_map(_ColReader(parts), [0, 1, 2], meta=pdf.iloc[:0])
    if source == "from_array":
        return dx.from_array(pdf.to_numpy(), chunksize=5, columns=list(pdf.columns))
    if source == "from_dict":
        return dx.from_dict({c: pdf[c].tolist() for c in pdf.columns}, npartitions=3)
    import zlib

    d = os.path.join(_tmpdir(), f"{source}-{int(wide)}-{zlib.crc32(repr(list(pdf.columns)).encode()):08x}")
    if source == "read_csv":
        if not os.path.exists(d + ".csv"):
            pdf.to_csv(d + ".csv", index=False)
        return dx.read_csv(d + ".csv")
    if source == "read_parquet":
        if not os.path.exists(d):
            os.makedirs(d)
            pdf.iloc[:6].to_parquet(os.path.join(d, "part.0.parquet"))
            pdf.iloc[6:].to_parquet(os.path.join(d, "part.1.parquet"))
        return dx.read_parquet(d)
    raise ValueError(source)


_ENVS = {}


def _envs(wide, source="pandas"):
    import dask_expr as dx

    key = (wide, source)
    if key not in _ENVS:
        t = _tables(wide)
        if source.endswith("_unsorted"):
            # the reader's own column order is NOT the sorted order of the labels (seeded change C01-m4: the columns
            # operand pushed into a reader took the order of determine_column_projection)
            t = dict(t)
            cols = list(t["N"].columns)
            t["N"] = t["N"][cols[::-1][1:] + [cols[-1]]]
        if source != "from_map":
            d = {"L": dx.from_pandas(t["L"], npartitions=3, sort=False), "R": dx.from_pandas(t["R"], npartitions=2, sort=False),
                 "L1": dx.from_pandas(t["L"], npartitions=1, sort=False)}
        else:  # from_map with a `columns` argument: FromMapProjectable
            def mk(pdf, cuts):
                parts = [pdf.iloc[cuts[i]:cuts[i + 1]] for i in range(len(cuts) - 1)]
                return dx.from_map(_ColReader(parts), list(range(len(parts))), meta=pdf.iloc[:0])

            d = {"L": mk(t["L"], [0, 3, 6, 8]), "R": mk(t["R"], [0, 2, 6]), "L1": mk(t["L"], [0, 8])}
        d["N"] = _source_N(t["N"], source.replace("_unsorted", ""), wide)
        _ENVS[key] = (t | {"L1": t["L"]}, d)
    return _ENVS[key]


class _ColReader:
    def __init__(self, parts):
        self.parts = parts

    def __call__(self, i, columns=None):
        p = self.parts[i]
        return p.copy() if columns is None else p[columns].copy()

    def __dask_tokenize__(self):
        from dask.base import tokenize

        return ("ColReader", tokenize(self.parts))


def _dd(x):
    return hasattr(x, "expr")


def _concat(xs, **kw):
    if _dd(xs[0]):
        import dask_expr as dx

        return dx.concat(xs, **kw)
    return pd.concat(xs, **kw)


@dataclass
class Prog:
    name: str
    fn: object  # env -> frame
    site: str  # the rule it exercises
    case: str = ""  # the shape that matters for the rule (part of the failure signature)
    unordered: bool = False
    noindex: bool = False
    extra: dict = field(default_factory=dict)  # further signature keys (Concat: axis)
    sources: tuple = ()  # source classes the program is repeated over (programs on the table N)


NUM = ["a", "b", "c", "k"]


def _programs():
    P = []

    def add(name, fn, site, case="", **kw):
        P.append(Prog(name, fn, site, case, **kw))

    # --- relabelling
    add("rename", lambda t: t["L"].rename(columns={"a": "A"}), "RenameFrame._simplify_up")
    add("rename_swap", lambda t: t["L"].rename(columns={"a": "b", "b": "a"}), "RenameFrame._simplify_up", "swap")
    add("rename_nokey", lambda t: t["L"].rename(columns={"a": "A", "zz": "a"}), "RenameFrame._simplify_up", "mapping key is not a column")
    add("rename_twice", lambda t: t["L"].rename(columns={"a": "A"}).rename(columns={"a": "A"}), "RenameFrame._simplify_up", "mapping key is not a column")
    add("rename_chain", lambda t: t["L"].rename(columns={"a": "A"}).rename(columns={"A": "a2", "b": "A"}), "RenameFrame._simplify_up", "chain")
    add("prefix", lambda t: t["L"].add_prefix("p_"), "AddPrefix._simplify_up")
    add("suffix", lambda t: t["L"].add_suffix("_s"), "AddSuffix._simplify_up")
    add("suffix_empty", lambda t: t["L"].add_suffix(""), "AddSuffix._simplify_up", "empty suffix")
    add("prefix_set_index", lambda t: t["L"].add_prefix("p_").set_index("p_k"), "AddPrefix._simplify_up+SetIndex._simplify_up", unordered=True)
    add("prefix_sort", lambda t: t["L"].add_prefix("p_").sort_values(["p_b", "p_a"]), "AddPrefix._simplify_up+SortValues._simplify_up")
    # --- assign / astype / elemwise
    add("assign_new", lambda t: t["L"].assign(z=t["L"].a + t["L"].b), "Assign._simplify_up")
    add("assign_over", lambda t: t["L"].assign(a=t["L"].a * 2), "Assign._simplify_up", "overwrite")
    add("assign_two", lambda t: t["L"].assign(z=t["L"].a + 1, y=t["L"].b * 2), "Assign._simplify_up", "two keys")
    add("assign_chain", lambda t: t["L"].assign(z=t["L"].a + 1).assign(y=lambda d: d.z * 2) if not _dd(t["L"]) else
        (lambda x: x.assign(y=x.z * 2))(t["L"].assign(z=t["L"].a + 1)), "Assign._simplify_up", "uses created column")
    add("astype_dict", lambda t: t["L"].astype({"a": "float64"}), "AsType._simplify_up[Projection]", "dict dtypes")
    add("astype_dict2", lambda t: t["L"].astype({"a": "float64", "ab": "float32"}), "AsType._simplify_up[Projection]", "dict dtypes")
    add("astype_all", lambda t: t["L"].astype("float64"), "AsType._simplify_up[Projection]")
    add("fillna", lambda t: t["L"].fillna(0), "plain_column_projection[pass-through]")
    add("abs", lambda t: t["L"].abs(), "plain_column_projection[pass-through]")
    add("clip", lambda t: t["L"].clip(lower=1, upper=5), "plain_column_projection[pass-through]")
    add("isin", lambda t: t["L"].isin([0, 1, 2]), "plain_column_projection[pass-through]")
    add("where", lambda t: t["L"].where(t["L"] > 1, -1), "plain_column_projection[pass-through]", "frame-valued condition operand")
    add("round_dict", lambda t: t["L"].round({"c": 0}), "plain_column_projection[pass-through]", "parameter keyed by column")
    add("fillna_dict", lambda t: t["L"].fillna({"c": 0}), "plain_column_projection[pass-through]", "parameter keyed by column")
    add("fillna_dict_idxkey", lambda t: t["L"].fillna({"c": 0, 2: 5}), "plain_column_projection[pass-through]", "parameter keyed by column")
    add("isin_dict", lambda t: t["L"].isin({"b": [1, 3], "a": [2]}), "plain_column_projection[pass-through]", "parameter keyed by column")
    add("replace_nested", lambda t: t["L"].replace({"b": {1: 100}}), "plain_column_projection[pass-through]", "parameter keyed by column")
    add("replace_dict_value", lambda t: t["L"].replace({"b": 1}, 100), "plain_column_projection[pass-through]", "parameter keyed by column")
    add("neg", lambda t: -t["L"], "plain_column_projection[pass-through]")
    add("cumsum", lambda t: t["L"][["a", "b", "k"]].cumsum(), "CumulativeAggregations._simplify_up")
    add("diff", lambda t: t["L"][["a", "b", "k"]].diff(1), "plain_column_projection[pass-through]")
    add("repartition", lambda t: t["L"].repartition(npartitions=2) if _dd(t["L"]) else t["L"], "plain_column_projection[pass-through]")
    add("categorize", lambda t: (t["L"].assign(b=t["L"].b.astype("str")).categorize(columns=["b"]) if _dd(t["L"])
        else t["L"].assign(b=t["L"].b.astype("str").astype("category"))), "plain_column_projection[pass-through]", "_projection_passthrough with column-keyed parameter")
    # --- row selecting / reordering with implicit keys
    add("filter", lambda t: t["L"][t["L"].a > 2], "Filter._simplify_up[Projection]")
    add("filter2", lambda t: (lambda x: x[x.b < 3])(t["L"][t["L"].a > 1]), "Filter._simplify_up[Projection]", "two filters")
    add("dropna_sub", lambda t: t["L"].dropna(subset=["c"]), "DropnaFrame._simplify_up", "subset")
    add("dropna", lambda t: t["L"].dropna(), "DropnaFrame._simplify_up")
    add("dropdup", lambda t: t["L"].drop_duplicates(subset=["b"]), "DropDuplicates._simplify_up", "subset", unordered=True)
    add("sort", lambda t: t["L"].sort_values(["b", "a"]), "SortValues._simplify_up")
    add("set_index", lambda t: t["L"].set_index("k"), "SetIndex._simplify_up", unordered=True)
    add("set_index_prefix", lambda t: t["L"].set_index("a").add_prefix("p_"), "SetIndex._simplify_up", "renaming dependent", unordered=True)
    add("set_index_nodrop", lambda t: t["L"].set_index("k", drop=False), "SetIndex._simplify_up", "drop=False", unordered=True)
    add("shuffle", lambda t: t["L"].shuffle("b", shuffle_method="tasks") if _dd(t["L"]) else t["L"], "ShuffleBase._simplify_up", unordered=True)
    add("nlargest", lambda t: t["L"].nlargest(3, "a"), "NLargest._simplify_up")
    add("nsmallest2", lambda t: t["L"].nsmallest(3, ["b", "a"]), "NLargest._simplify_up", "two ordering columns")
    add("sort2_head", lambda t: t["L"].sort_values(["b", "a"]).head(3, npartitions=-1, compute=False) if _dd(t["L"]) else t["L"].sort_values(["b", "a"]).head(3), "NLargest._simplify_up", "NFirst two ordering columns")
    add("sort_head", lambda t: t["L"].sort_values("a").head(3, npartitions=-1, compute=False) if _dd(t["L"]) else t["L"].sort_values("a").head(3), "NLargest._simplify_up", "NFirst")
    add("reset_index", lambda t: t["L"].reset_index(), "ResetIndex._simplify_up", noindex=True)
    add("reset_index_drop", lambda t: t["L"].reset_index(drop=True), "ResetIndex._simplify_up", "drop", noindex=True)
    add("reset_index_named", lambda t: t["L"].set_index("k").reset_index(), "ResetIndex._simplify_up", "named index", unordered=True, noindex=True)
    add("reset_index_twice", lambda t: t["L"].reset_index().reset_index(), "ResetIndex._simplify_up", "input has a column 'index'", noindex=True)
    add("reset_index_colindex", lambda t: t["L"].rename(columns={"ab": "index"}).reset_index(), "ResetIndex._simplify_up", "input has a column 'index'", noindex=True)
    add("drop", lambda t: t["L"].drop(columns=["a", "c"]), "Drop._simplify_down")
    add("rolling", lambda t: t["L1"][["a", "b", "k"]].rolling(2).sum(), "RollingReduction._simplify_up", "not grouped")
    add("explode", lambda t: t["L"].explode("b"), "ExplodeFrame._simplify_up")
    # --- groupby
    add("gb_sum", lambda t: t["L"].groupby("b").sum(), "groupby_projection", unordered=True)
    add("gb_count2", lambda t: t["L"].groupby(["b", "k"]).count(), "groupby_projection", "two keys", unordered=True)
    add("gb_agg", lambda t: t["L"].groupby("b").agg({"a": "sum", "c": "max"}), "groupby_projection", "dict spec", unordered=True)
    add("gb_slice2_sum", lambda t: t["L"].groupby("b")[["a", "k"]].sum(), "groupby_projection", "list slice", unordered=True)
    add("gb_slice2_count", lambda t: t["L"].groupby("b")[["k", "a"]].count(), "groupby_projection", "list slice", unordered=True)
    add("gb_first", lambda t: t["L"].groupby("b").first(), "groupby_projection", unordered=True)
    add("gb_cumsum", lambda t: t["L"].groupby("b").cumsum(), "groupby_projection", "transform")
    add("gb_dropna_key", lambda t: t["L"].dropna(subset=["c"]).groupby("b").sum(), "DropnaFrame._simplify_up", unordered=True)
    add("gb_cov", lambda t: t["L"][["a", "b", "k", "ab"]].groupby("b").cov(), "groupby_projection", "cross-column aggregation", unordered=True)
    # --- reductions (labels of the result are column names)
    add("sum", lambda t: t["L"].sum(), "Reduction._simplify_up", "list selection of a 1-d result")
    add("max", lambda t: t["L"].max(), "Reduction._simplify_up", "list selection of a 1-d result")
    add("corr", lambda t: t["L"][["a", "b", "k"]].corr(), "Reduction._simplify_up", "cross-column reduction")
    add("mode", lambda t: t["L"][["a", "b"]].mode(), "Concat._simplify_up", "per-column results assembled by an axis=1 Concat (mode)",
        noindex=True, extra={"axis": 1})
    # --- user functions: one output column may depend on other columns of the row
    FL = ["a", "b", "k", "ab"]

    def _share(row):
        return row / row.sum()

    def _share_block(x):
        return x.div(x.sum(axis=1), axis=0)

    add("apply_rowwise_cross", lambda t: (t["L"][FL].astype("float64").apply(_share, axis=1, meta=t["L"][FL].astype("float64")._meta)
        if _dd(t["L"]) else t["L"][FL].astype("float64").apply(_share, axis=1)), "Apply[axis=1]", "user function reads other columns of the row")
    add("apply_rowwise_entry", lambda t: (t["L"][FL].apply(lambda row: row * 2 + 1, axis=1, meta=t["L"][FL]._meta)
        if _dd(t["L"]) else t["L"][FL].apply(lambda row: row * 2 + 1, axis=1)), "Apply[axis=1]", "entry-wise user function")
    add("map_partitions_cross", lambda t: (t["L"][FL].astype("float64").map_partitions(_share_block)
        if _dd(t["L"]) else _share_block(t["L"][FL].astype("float64"))), "MapPartitions", "user function reads other columns of the row")
    add("map_partitions_named", lambda t: (t["L"].map_partitions(lambda x: x.assign(m=x.a * 3 + x.k))
        if _dd(t["L"]) else t["L"].assign(m=t["L"].a * 3 + t["L"].k)), "MapPartitions", "user function addresses columns by name")
    # --- projection absorbed by the source, for every source class (table N)
    add("src", lambda t: t["N"], "BlockwiseIO._simplify_up", "projection absorbed by the source", sources=SOURCES)
    add("src_plus1", lambda t: t["N"] + 1, "BlockwiseIO._simplify_up", "projection absorbed below an elementwise operator", sources=SOURCES)
    add("src_filter", lambda t: t["N"][t["N"].d > 0], "BlockwiseIO._simplify_up", "filter on a column that is not selected", sources=SOURCES)
    add("src_groupby", lambda t: t["N"].groupby("d").sum(), "BlockwiseIO._simplify_up", "group key needed implicitly",
        unordered=True, sources=SOURCES)
    # --- two inputs
    for how in ("inner", "left"):
        add(f"merge_{how}", lambda t, how=how: t["L"].merge(t["R"], on="k", how=how), "Merge._simplify_up[Projection]", "on", unordered=True, noindex=True)
    add("merge_sfx", lambda t: t["L"].merge(t["R"], on="k", suffixes=("_l", "")), "Merge._simplify_up[Projection]", "empty right suffix", unordered=True, noindex=True)
    add("merge_lr", lambda t: t["L"].merge(t["R"], left_on="b", right_on="k2"), "Merge._simplify_up[Projection]",
        "left_on!=right_on key/non-key collision", unordered=True, noindex=True)
    add("merge_rl", lambda t: t["R"].merge(t["L"], left_on="k2", right_on="b"), "Merge._simplify_up[Projection]",
        "left_on!=right_on key/non-key collision", unordered=True, noindex=True)
    add("merge_lr_nocoll", lambda t: t["L"][["a", "k", "c"]].merge(t["R"][["k2", "d"]], left_on="k", right_on="k2"), "Merge._simplify_up[Projection]",
        "left_on != right_on", unordered=True, noindex=True)
    add("merge_index", lambda t: t["L"].merge(t["R"], left_index=True, right_index=True), "Merge._simplify_up[Projection]", "index join", unordered=True)
    add("merge_twokeys", lambda t: t["L"].merge(t["R"].rename(columns={"d": "a"}), on=["k"]), "Merge._simplify_up[Projection]", "collision of non-keys", unordered=True, noindex=True)
    add("concat0", lambda t: _concat([t["L"], t["L"].assign(a=t["L"].a + 10)]), "Concat._simplify_up", "same schema", extra={"axis": 0})
    add("concat0_diff", lambda t: _concat([t["L"][["a", "b"]], t["R"][["b", "d"]]]), "Concat._simplify_up",
        "an input may contribute no requested column", extra={"axis": 0})
    add("concat0_inner", lambda t: _concat([t["L"][["a", "b", "k"]], t["R"][["b", "k", "d"]]], join="inner"), "Concat._simplify_up", "inner", extra={"axis": 0})
    add("concat1", lambda t: _concat([t["L"][["a", "b"]], t["L"][["c", "k"]]], axis=1), "Concat._simplify_up", "same index", extra={"axis": 1})
    add("concat1_diffidx", lambda t: _concat([t["L"][["a", "b"]], t["R"][["d"]]], axis=1), "Concat._simplify_up",
        "an input may contribute no requested column", extra={"axis": 1})
    add("concat1_inner", lambda t: _concat([t["L"][["a", "b"]], t["R"][["d"]]], axis=1, join="inner"), "Concat._simplify_up",
        "an input may contribute no requested column", extra={"axis": 1})
    add("binop_co", lambda t: t["L"][NUM] + t["L"][NUM].fillna(1), "Binop._simplify_up", "co-aligned, same columns")
    add("binop_scalar", lambda t: t["L"][NUM] * 2, "Binop._simplify_up", "scalar")
    add("binop_diffcols", lambda t: t["L"][["a", "b"]] + t["L"][["b", "k"]], "Binop._simplify_up", "operands with different columns")
    add("binop_unaligned", lambda t: t["L"][["a", "b"]] + t["L1"][["a", "b"]], "OpAlignPartitions._simplify_up", "_projection_passthrough with a second frame operand")
    add("combine_first", lambda t: t["L"][["a", "c"]].combine_first(t["L"][["c", "k"]]), "CombineFirst._simplify_up")
    return P


def _selections(cols, rng, full):
    cols = [c for c in cols]
    sels = [[c] for c in cols] + [c for c in cols]
    pairs = [list(p) for p in itertools.permutations(cols, 2)]
    triples = [list(p) for p in itertools.permutations(cols, 3)]
    rng.shuffle(triples)
    if not full:
        rng.shuffle(pairs)
        pairs, triples = pairs[:3], triples[:1]
    else:
        triples = triples[:6]
    return sels + pairs + triples


# terminals: one or several consumers on the intermediate `x`
def _terminals():
    def t_sel(x, sel, aux):
        return x[sel]

    def t_shared_add(x, sel, aux):  # two scalar consumers
        return x[sel[0]] + x[aux]

    def t_shared_concat(x, sel, aux):  # two list consumers, reassembled side by side
        return _concat([x[sel], x[[aux]]], axis=1)

    def t_filter_sel(x, sel, aux):  # a Filter, its predicate and the result all read `x`
        return x[x[aux] == x[aux]][sel]

    def t_sel_plus_full(x, sel, aux):  # a pruned consumer next to a consumer that needs everything
        return x[sel].count().sum() + x.count().sum()

    return [("sel", t_sel, False), ("shared_add", t_shared_add, True), ("shared_concat", t_shared_concat, True),
            ("filter_sel", t_filter_sel, True), ("sel_plus_full", t_sel_plus_full, True)]


_TERMS = dict((n, (f, s)) for n, f, s in _terminals())
_PROGS = None


def _prog(name):
    global _PROGS
    if _PROGS is None:
        _PROGS = {p.name: p for p in _programs()}
    return _PROGS[name]


def _compute(x, optimize=True):
    import dask

    if not hasattr(x, "expr"):
        return x
    if optimize:
        return x.compute()
    expr = x.expr.lower_completely()
    g = dict(expr.__dask_graph__())
    out = dask.get(g, expr.__dask_keys__())
    from dask_expr._collection import new_collection

    post, extra = new_collection(expr).__dask_postcompute__()
    return post(out, *extra)


def _labels(x):
    if isinstance(x, pd.DataFrame):
        return ("frame", [str(c) for c in x.columns])
    if isinstance(x, pd.Series):
        return ("series", str(x.name))
    return ("scalar", None)


def run_case(case):
    """-> None when the property holds on this case, else (kind, message)"""
    prog = _prog(case["prog"])
    term, _shared = _TERMS[case["term"]]
    sel, aux = case["sel"], case.get("aux")

    def build(env):
        return term(prog.fn(env), sel, aux)

    pdenv, ddenv = _envs(False, case.get("source", "pandas"))
    try:
        want = build(pdenv)
    except Exception:  # noqa: BLE001
        return None  # pandas itself rejects the query: outside the quantifier
    if isinstance(want, (pd.DataFrame, pd.Series)) and isinstance(want.index, pd.MultiIndex) and prog.noindex:
        return None
    sort_rows = prog.unordered
    drop_index = prog.noindex
    try:
        q = build(ddenv)
    except Exception as ex:  # noqa: BLE001
        return ("unsupported", f"{type(ex).__name__}: {str(ex)[:120]}")
    r = e2e.run_or_err(lambda: _compute(q, True))
    if r[0] == "err":
        u = e2e.run_or_err(lambda: _compute(build(ddenv), False))
        if u[0] == "err":
            return ("both-raise", f"{r[1]}")
        if _fails_without_projection(prog, case, pdenv, ddenv):
            return ("not-projection", f"{r[1]}: the query without the final column selection fails the same way")
        return ("raises", f"optimised raises {r[1]}: {r[2]} (unoptimised plan computes); simplified: {_safe_simplify(q)}")
    got = r[1]
    if _labels(got) != _labels(want):
        return ("labels", f"labels/kind {_labels(got)} != pandas {_labels(want)}; simplified: {_safe_simplify(q)}")
    if not e2e.same(got, want, sort_rows=sort_rows, drop_index=drop_index):
        u = e2e.run_or_err(lambda: _compute(build(ddenv), False))
        unopt_ok = u[0] == "ok" and e2e.same(u[1], want, sort_rows=sort_rows, drop_index=drop_index)
        if unopt_ok:
            return ("differs", f"optimised result differs from pandas and from the unoptimised plan: got {e2e.describe(got, 6)!r:.300} "
                               f"want {e2e.describe(want, 6)!r:.300}; simplified: {_safe_simplify(q)}")
        return ("differs-also-unoptimised", "")
    u = e2e.run_or_err(lambda: _compute(build(ddenv), False))
    if u[0] == "ok" and not e2e.same(u[1], got, sort_rows=sort_rows, drop_index=drop_index):
        return ("unopt-differs", "")
    # widened sources: same query, same answer
    wpd, wdd = _envs(True, case.get("source", "pandas"))
    try:
        build(wpd)
    except Exception:  # noqa: BLE001
        return None
    w = e2e.run_or_err(lambda: _compute(build(wdd), True))
    if w[0] == "err":
        return ("raises", f"with unused columns added to the sources the optimised query raises {w[1]}: {w[2]}")
    wwant = build(wpd)
    if not e2e.same(w[1], wwant, sort_rows=sort_rows, drop_index=drop_index):
        return ("differs", f"with unused columns added to the sources: got {e2e.describe(w[1], 6)!r:.300} want {e2e.describe(wwant, 6)!r:.300}")
    return None


def _fails_without_projection(prog, case, pdenv, ddenv):
    """is the failure there already without the final column selection? (then it is not a column-pruning matter)"""
    if case["term"] == "sel":
        unproj = lambda env: prog.fn(env)  # noqa: E731
    elif case["term"] == "filter_sel":
        unproj = lambda env: (lambda x: x[x[case["aux"]] == x[case["aux"]]])(prog.fn(env))  # noqa: E731
    else:
        return False
    try:
        want = unproj(pdenv)
    except Exception:  # noqa: BLE001
        return False
    r = e2e.run_or_err(lambda: _compute(unproj(ddenv), True))
    if r[0] == "err":
        return True
    return not e2e.same(r[1], want, sort_rows=prog.unordered, drop_index=prog.noindex)


def _safe_simplify(q):
    try:
        return str(q.simplify().expr)[:300]
    except Exception as ex:  # noqa: BLE001
        return f"<simplify raises {type(ex).__name__}>"


_GENUINE = ("raises", "labels", "differs")


def _sig(prog, case, kind):
    """decidable signature of a failing case: which rule family, which shape of the program, scalar or list selection,
    one or several consumers, how it fails"""
    sig = {"site": prog.site, "case": prog.case, "selection": "list" if isinstance(case["sel"], list) else "scalar",
           "consumers": "one" if case["term"] == "sel" else "shared", "kind": kind}
    sig.update(prog.extra)
    if case.get("source"):
        sig["source"] = case["source"]
    return sig


# minimised witnesses of past findings (fixed defects D1, D17, D21, D23, D24, D25 and the shapes reported by this check);
# always executed first
CORPUS = [
    {"prog": "merge_inner", "term": "sel", "sel": ["b_x", "b_y"]},  # D1
    {"prog": "merge_inner", "term": "sel", "sel": ["b_y", "a"]},
    {"prog": "gb_dropna_key", "term": "sel", "sel": ["a"]},  # D17
    {"prog": "rename_twice", "term": "sel", "sel": ["A"]},  # D21
    {"prog": "rename_nokey", "term": "sel", "sel": ["A", "b"]},
    {"prog": "nlargest", "term": "sel", "sel": "b"},  # D23
    {"prog": "nlargest", "term": "sel", "sel": "a"},
    {"prog": "sort2_head", "term": "sel", "sel": "k"},
    {"prog": "set_index_prefix", "term": "sel", "sel": "p_b"},  # D24
    {"prog": "reset_index_twice", "term": "sel", "sel": "level_0"},  # D25
    {"prog": "reset_index_colindex", "term": "sel", "sel": ["level_0", "a"]},
    {"prog": "merge_lr", "term": "sel", "sel": ["b_x"]},
    {"prog": "merge_rl", "term": "sel", "sel": ["b_y"]},
    {"prog": "binop_unaligned", "term": "sel", "sel": ["a"]},
    {"prog": "binop_unaligned", "term": "sel", "sel": "a"},
    {"prog": "astype_dict", "term": "sel", "sel": "ab"},
    {"prog": "concat0_diff", "term": "sel", "sel": ["a"]},
    {"prog": "concat0_diff", "term": "sel", "sel": "d"},
    {"prog": "concat1_diffidx", "term": "sel", "sel": ["a"]},  # D35 (open)
    {"prog": "concat1_inner", "term": "sel", "sel": ["a"]},
    {"prog": "sum", "term": "sel", "sel": ["a"]},
    {"prog": "suffix_empty", "term": "sel", "sel": ["a"]},
    {"prog": "binop_diffcols", "term": "sel", "sel": ["a"]},
    {"prog": "categorize", "term": "sel", "sel": ["a"]},
    {"prog": "corr", "term": "sel", "sel": ["a"]},
    {"prog": "gb_cov", "term": "sel", "sel": ["a"]},
    {"prog": "mode", "term": "sel", "sel": ["b"]},
    {"prog": "rolling", "term": "sel", "sel": ["a"]},
    {"prog": "rolling", "term": "sel", "sel": ["k", "a"]},
    {"prog": "explode", "term": "sel", "sel": "b"},
    {"prog": "round_dict", "term": "sel", "sel": "a"},
    {"prog": "where", "term": "sel", "sel": "a"},
    # seeded mutants C04-m1 (row-wise apply declared projection-transparent), C04-m2 (array source reads by position)
    {"prog": "apply_rowwise_cross", "term": "sel", "sel": ["k", "a"]},
    {"prog": "apply_rowwise_cross", "term": "sel", "sel": "b"},
    {"prog": "apply_rowwise_cross", "term": "shared_add", "sel": ["a"], "aux": "ab"},
    {"prog": "map_partitions_cross", "term": "sel", "sel": ["b"]},
    {"prog": "src", "term": "sel", "sel": ["e", "b"], "source": "from_array_unsorted"},
    {"prog": "src", "term": "sel", "sel": ["b", "d", "e"], "source": "from_array_unsorted"},
    {"prog": "src", "term": "shared_add", "sel": ["c", "b"], "aux": "e", "source": "from_array_unsorted"},
    {"prog": "src", "term": "sel", "sel": ["e", "b"], "source": "from_map_unsorted"},
    {"prog": "src", "term": "sel", "sel": ["b", "e"], "source": "read_parquet_unsorted"},
    {"prog": "src", "term": "sel", "sel": ["c"], "source": "from_array"},
    {"prog": "src", "term": "sel", "sel": "d", "source": "from_array"},
    {"prog": "src", "term": "sel", "sel": ["e", "b"], "source": "from_array"},
    {"prog": "src", "term": "shared_add", "sel": ["c"], "aux": "e", "source": "from_array"},
    {"prog": "src_groupby", "term": "sel", "sel": ["e"], "source": "from_array"},
    {"prog": "src", "term": "sel", "sel": ["e", "b"], "source": "from_dict"},
    {"prog": "src", "term": "sel", "sel": ["e", "b"], "source": "read_csv"},
    {"prog": "src", "term": "sel", "sel": ["e", "b"], "source": "read_parquet"},
    {"prog": "src_filter", "term": "sel", "sel": ["c"], "source": "read_parquet"},
    {"prog": "src", "term": "sel", "sel": ["e", "b"], "source": "from_map"},
    # a projectable from_map source asked for no column at all (D84)
    {"prog": "fillna_dict", "term": "sel", "sel": "c"},  # D112: dict parameters under a scalar selection
    {"prog": "fillna_dict_idxkey", "term": "sel", "sel": "a"},
    {"prog": "isin_dict", "term": "sel", "sel": "b"},
    {"prog": "replace_nested", "term": "sel", "sel": "b"},
    {"prog": "replace_dict_value", "term": "sel", "sel": "b"},
    {"prog": "round_dict", "term": "sel", "sel": "c"},
    {"prog": "gb_slice2_sum", "term": "sel", "sel": ["a"]},  # D96
    {"prog": "gb_slice2_count", "term": "sel", "sel": "a"},
    {"prog": "src", "term": "sel", "sel": [], "source": "from_map"},
    {"prog": "src", "term": "sel", "sel": [], "source": "pandas"},
    {"prog": "src", "term": "sel", "sel": [], "source": "read_parquet"},
    {"prog": "concat0_diff", "term": "sel", "sel": ["d"], "source": "from_map"},
    {"prog": "concat0_diff", "term": "sel", "sel": ["a"], "source": "from_map"},
]


def _cases(ctx, broken):
    rng = ctx.rng
    pdenv, _ = _envs(False)
    full = not ctx.quick
    cases = []
    for prog in _programs():
        try:
            x = prog.fn(pdenv)
        except Exception:  # noqa: BLE001
            continue
        cols = list(x.columns) if isinstance(x, pd.DataFrame) else [str(i) for i in x.index]
        sels = _selections(cols, rng, full)
        srcs = prog.sources or (None,)
        for sel in sels:
            for src in srcs:
                cases.append({"prog": prog.name, "term": "sel", "sel": sel} | ({"source": src} if src else {}))
        if isinstance(x, pd.DataFrame) and len(cols) >= 2:
            others = [c for c in cols]
            for sel in (sels[: len(cols)] + sels[2 * len(cols):][:8] + sels[-2:] if full else sels[: len(cols)] + sels[-2:]):
                if not isinstance(sel, list):
                    continue
                aux = next((c for c in others if c not in sel), None)
                if aux is None:
                    continue
                for tname in ("shared_add", "shared_concat", "filter_sel", "sel_plus_full"):
                    if tname == "shared_add" and len(sel) != 1:
                        continue
                    for src in srcs:
                        cases.append({"prog": prog.name, "term": tname, "sel": sel, "aux": aux} | ({"source": src} if src else {}))
    # steer towards disagreeing / broken rules: run every case of the programs exercising that rule first
    steer_sites = set()
    for b in broken:
        txt = (b.get("family") or "") + " " + (b.get("theorem") or "")
        for prog in _programs():
            for word in prog.site.replace("+", " ").split():
                cls = word.split(".")[0].split("[")[0]  # the class / function the rule belongs to
                if cls and cls.lower() in txt.lower():
                    steer_sites.add(prog.site)
    if steer_sites:
        first = [c for c in cases if _prog(c["prog"]).site in steer_sites]
        rest = [c for c in cases if _prog(c["prog"]).site not in steer_sites]
        rng.shuffle(rest)
        return CORPUS + first + rest[:300]
    if ctx.quick:
        # the corpus, then per program a seeded sample: one scalar, one one-element list, two longer lists, one shared shape
        rng.shuffle(cases)
        per = defaultdict(lambda: defaultdict(int))
        quota = {"scalar": 1, "list1": 1, "listn": 2, "shared": 2}
        picked = []
        for c in cases:
            if c["term"] != "sel":
                kind = "shared"
            elif not isinstance(c["sel"], list):
                kind = "scalar"
            else:
                kind = "list1" if len(c["sel"]) == 1 else "listn"
            pk = (c["prog"], c.get("source"))
            if per[pk][kind] < quota[kind]:
                per[pk][kind] += 1
                picked.append(c)
        cases = picked
    else:
        cases += [dict(c, source="from_map") for c in cases if c["term"] in ("sel", "filter_sel") and "source" not in c][::7]
    return CORPUS + cases


def _knob_witnesses():
    """Pruning below an operator that has ORDER / LAYOUT knobs: `q[sel]` computes exactly (row order included) the
    selection of the unpruned result, with the same divisions.  pandas has no such knobs, so the reference is the
    query itself without the final selection.  (seeded change C04-m4: Concat._simplify_up exchanged two knobs)"""
    import dask_expr as dx

    a = pd.DataFrame({"x": np.arange(12), "y": np.arange(12) * 2.0, "z": np.arange(12) % 5}, index=np.arange(0, 24, 2))
    b = pd.DataFrame({"x": 100 + np.arange(12), "y": np.arange(12) * -1.0, "w": np.arange(12) % 3}, index=np.arange(1, 25, 2))
    out = []
    for known in (True, False):
        da, db = dx.from_pandas(a, npartitions=3, sort=known), dx.from_pandas(b, npartitions=3, sort=known)
        for knobs in ({"interleave_partitions": True}, {"ignore_unknown_divisions": True}, {"ignore_order": True}, {}):
            for sel in (["x"], ["y", "x"], "x"):
                label = f"concat(known={known}, {knobs})[{sel!r}]"
                try:
                    full = dx.concat([da, db], **knobs)
                except Exception:  # noqa: BLE001
                    continue
                r_full = e2e.run_or_err(lambda: full.compute())
                if r_full[0] == "err":
                    continue
                want = r_full[1][sel]
                r = e2e.run_or_err(lambda: full[sel].compute())
                if r[0] == "err":
                    out.append((label, "raises", f"{label}: pruned query raises {r[1]}: {r[2]} (unpruned computes)"))
                    continue
                got = r[1]
                if got.index.tolist() != want.index.tolist() or not e2e.same(got, want):
                    out.append((label, "differs", f"{label}: rows/order differ from the selection of the unpruned result: "
                                                  f"index {got.index.tolist()[:8]}… vs {want.index.tolist()[:8]}…"))
                    continue
                d1, d2 = full[sel].optimize().divisions, full.optimize().divisions
                if tuple(map(str, d1)) != tuple(map(str, d2)):
                    out.append((label, "differs", f"{label}: divisions of the pruned plan {d1} != unpruned plan {d2}"))
                    continue
                cs = e2e.run_or_err(lambda: full[sel].cumsum().compute())
                if cs[0] == "ok" and not e2e.same(cs[1], want.cumsum()):
                    out.append((label, "differs", f"{label}: cumsum over the pruned concat differs from cumsum of the unpruned result"))
    return out


def _reader_witnesses():
    """Readers that read MORE than the `columns` operand says (read_csv appends the path column and reads at least
    one data column): the selection of columns computes exactly the selected labels, declared == computed (D114)."""
    import os

    import dask_expr as dx

    d = os.path.join(_tmpdir(), "csv-path")
    if not os.path.exists(d):
        os.makedirs(d)
        pd.DataFrame({"a": [1, 2, 3], "b": [4, 5, 6], "c": [7, 8, 9]}).to_csv(os.path.join(d, "x1.csv"), index=False)
        pd.DataFrame({"a": [7, 8], "b": [9, 10], "c": [0, 1]}).to_csv(os.path.join(d, "x2.csv"), index=False)
    out = []
    for flag in (True, "src"):
        pc = "path" if flag is True else flag
        r = dx.read_csv(os.path.join(d, "x*.csv"), include_path_column=flag)
        full = e2e.run_or_err(lambda: r.compute())
        if full[0] == "err":
            continue
        for sel in (["a"], [pc], ["c", "a"], [pc, "b"], ["b", pc], "a", pc):
            label = f"read_csv(include_path_column={flag!r})[{sel!r}]"
            q = r[sel]
            got = e2e.run_or_err(lambda: q.compute())
            if got[0] == "err":
                out.append((label, "raises", f"{label}: raises {got[1]}: {got[2]}"))
                continue
            want = full[1][sel]
            if _labels(got[1]) != _labels(want):
                out.append((label, "labels", f"{label}: computed labels {_labels(got[1])}, selected {_labels(want)}"))
                continue
            if _labels(q.optimize()._meta) != _labels(want):
                out.append((label, "labels", f"{label}: optimised plan declares {_labels(q.optimize()._meta)}"))
                continue
            if not got[1].astype(str).reset_index(drop=True).equals(want.astype(str).reset_index(drop=True)):
                out.append((label, "differs", f"{label}: values differ from the selection of the full read"))
    return out


def support(ctx, broken):
    sup = Support()
    seen = set()
    for label, kind, msg in _reader_witnesses():
        sup.failures.append(Failure(sig={"site": "ReadCSV", "kind": kind, "case": "path column"},
                                    case={"witness": "reader", "label": label}, detail=msg))
    sup.executed += 1
    sup.count("reader_witnesses")
    for label, kind, msg in _knob_witnesses():
        sup.failures.append(Failure(sig={"site": "Concat._simplify_up", "kind": kind, "case": "knobs"},
                                    case={"witness": "knobs", "label": label}, detail=msg))
    sup.executed += 1
    sup.count("knob_witnesses")
    budget = 25 if ctx.quick and not broken else (240 if ctx.quick else 600)
    import time

    t0 = time.time()
    for case in _cases(ctx, broken):
        if time.time() - t0 > budget:
            break
        prog = _prog(case["prog"])
        res = run_case(case)
        sup.executed += 1
        sup.count(f"{prog.site}/{case['term']}")
        if len(sup.samples) < 3 and res is None:
            sup.samples.append(case)
        if res is None:
            continue
        kind, msg = res
        sup.count("outcome:" + kind)
        if kind not in _GENUINE:
            continue  # unsupported by dask-expr / fails identically without the optimiser: not a C04 matter
        sig = _sig(prog, case, kind)
        key = (prog.site, prog.case, tuple(sorted(prog.extra.items())), case.get("source"))  # one witness per shape
        if key in seen:
            continue
        seen.add(key)
        sup.failures.append(Failure(sig=sig, case=case, detail=f"{prog.name}/{case['term']} sel={case['sel']!r} aux={case.get('aux')!r}: {msg}"))
    return sup


def replay(case):
    if case.get("witness") == "reader":
        hits = [w for w in _reader_witnesses() if w[0] == case["label"]]
        return Failure(sig={"site": "ReadCSV", "kind": hits[0][1], "case": "path column"}, case=case, detail=hits[0][2]) if hits else None
    if case.get("witness") == "knobs":
        hits = [w for w in _knob_witnesses() if w[0] == case["label"]]
        return Failure(sig={"site": "Concat._simplify_up", "kind": hits[0][1], "case": "knobs"}, case=case, detail=hits[0][2]) if hits else None
    res = run_case(case)
    if res is None or res[0] not in _GENUINE:
        return None
    prog = _prog(case["prog"])
    return Failure(sig=_sig(prog, case, res[0]), case=case, detail=res[1])
