"""C09 / WP-O: exact ties of the layer models of Layers/Flat.lean, Layers/Gather.lean and of the Blockwise task shape
to the REAL `_layer()` / `_task()` of live expression objects, the hypothesis checks of the repartition layers, and the
comparison of the graph-building sources with the committed hash table.

`describe(e)` turns ONE live expression into (model request line, canonical text of its real layer).  The instances
come from three places: explicit constructions per class (`explicit_instances`), every node of the C09 extra programs
(`EXTRA`, public-API queries chosen so that every layer class of /repo that can run here appears), and every node of
the vetted plans the other C09 families walk anyway.
"""
from __future__ import annotations

import atexit
import os
import shutil
import tempfile

import numpy as np
import pandas as pd

from harness import e2e
from harness.core import Family, drive, first_diff

# --------------------------------------------------------------------------- canonical text of a real flat layer


def _is_dep_key(x, depnames):
    """`(name of a dependency, int)`; a dependency's name is a str, or — for the `_DelayedExpr` of a Delayed made by
    `to_delayed` — the tuple key of that Delayed"""
    if not (isinstance(x, tuple) and len(x) == 2 and isinstance(x[1], (int, np.integer)) and not isinstance(x[1], bool)):
        return False
    try:
        return x[0] in depnames
    except TypeError:
        return False


def ordered_dep_refs(t, depnames):
    """dependency keys inside a task, depth first, left to right (lists, tuples, dict values and dict keys)"""
    out = []

    def walk(x):
        if _is_dep_key(x, depnames):
            out.append((depnames[x[0]], int(x[1])))
            return
        if isinstance(x, (tuple, list)):
            for y in x:
                walk(y)
        elif isinstance(x, dict):
            for k, y in x.items():
                walk(k)
                walk(y)

    walk(t)
    return out


def dep_index(e):
    """name -> position of its FIRST occurrence in dependencies()"""
    names = {}
    for i, d in enumerate(e.dependencies()):
        names.setdefault(d._name, i)
    return names


def flat_text(e, dsk, code_of, srcs=None):
    """`@self:j=alias(@d0:i)|@self:k=f0(@d1:i)|…` — the rendering of Driver/LayerOK.lean:rFlat"""
    depnames = dep_index(e)
    lines = []
    for k, v in dsk.items():
        if not (isinstance(k, tuple) and len(k) == 2 and k[0] == e._name and isinstance(k[1], (int, np.integer))):
            lines.append("?key:" + repr(k)[:60])
            continue
        j = int(k[1])
        if _is_dep_key(v, depnames):
            body = f"alias(@d{depnames[v[0]]}:{int(v[1])})"
        else:
            refs = ordered_dep_refs(v, depnames)
            if refs:
                body = f"f{code_of(j, v)}(" + ",".join(f"@d{d}:{i}" for d, i in refs) + ")"
            else:
                src = srcs.get(j, []) if srcs is not None else []
                body = "leaf(" + ".".join(str(s) for s in src) + ")"
        lines.append(f"@self:{j}={body}")
    return "|".join(sorted(set(lines)))


def refs_in_bounds(e, dsk):
    depnames = dep_index(e)
    deps = e.dependencies()
    for v in dsk.values():
        for d, i in ordered_dep_refs(v, depnames):
            if not (0 <= i < deps[d].npartitions):
                return False
    return True


def _flat_answer(e, dsk, code_of, srcs=None):
    return f"G {flat_text(e, dsk, code_of, srcs)} ; nout={e.npartitions} ; refsok={1 if refs_in_bounds(e, dsk) else 0}"


def _nats(l):
    l = list(l)
    return ",".join(str(int(x)) for x in l) if l else "-"


# --------------------------------------------------------------------------- per-class description


def stack_match_flags(e):
    """the per-frame outcome of the pass-through test of StackPartition._layer (fix 8dd1ee6): check_meta passes AND
    index names / series name are the declared ones"""
    from dask.dataframe.utils import check_meta

    out = []
    for df in e._frames:
        try:
            check_meta(df._meta, e._meta)
            m = list(df._meta.index.names) == list(e._meta.index.names) and getattr(df._meta, "name", None) == getattr(e._meta, "name", None)
        except (ValueError, TypeError):
            m = False
        out.append(bool(m))
    return out


class _Recorder:
    """records the arguments of `_filtered_task` while one `_task(j)` of a PartitionsFiltered / FusedIO expression runs"""

    def __init__(self, target):
        self.target = target
        self.calls = []

    def __enter__(self):
        cls = type(self.target)
        self.cls = cls
        self.own = "_filtered_task" in cls.__dict__  # restore the class body exactly (the T1 table looks at __dict__)
        self.orig = cls.__dict__["_filtered_task"] if self.own else cls._filtered_task
        rec = self

        def wrapped(obj, index):
            if obj is rec.target or obj._name == rec.target._name:
                rec.calls.append(int(index))
            return rec.orig(obj, index)

        cls._filtered_task = wrapped
        return self

    def __exit__(self, *a):
        if self.own:
            self.cls._filtered_task = self.orig
        elif "_filtered_task" in self.cls.__dict__:
            del self.cls._filtered_task


def _recorded_layer(e, inner):
    """-> (dict, {j: [source partitions read by task j]})"""
    dsk, srcs = {}, {}
    for j in range(e.npartitions):
        with _Recorder(inner) as r:
            dsk[(e._name, j)] = e._task(j)
        srcs[j] = list(r.calls)
    return dsk, srcs


def _loc_code(e, n):
    def code(j, v):
        sl = v[2] if isinstance(v, tuple) and len(v) >= 3 else None
        cls = type(e).__name__
        if cls != "LocSlice" or n == 1:
            return 2
        ii = e.iindexer
        if j == 0:
            return 3 if isinstance(sl, slice) and sl.start == ii.start and sl.stop is None else "X"
        if j == n - 1:
            return 5 if isinstance(sl, slice) and sl.start is None and sl.stop == ii.stop else "X"
        return 4 if isinstance(sl, slice) and sl.start is None and sl.stop is None else "X"

    return code


FLAT_SOURCES = {"FromPandas", "FromArray", "FromMap", "FromMapProjectable", "ReadCSV", "ReadParquetFSSpec",
                "ReadParquetPyarrowFS", "Timeseries"}
GATHER = {"Lengths", "SeriesQuantileDask", "SeriesQuantileTdigest"}


def describe(e):
    """-> (family tag, request line, canonical text of the real layer) or None when the class has no flat/gather model"""
    cls = type(e).__name__
    const = lambda c: (lambda j, v: c)  # noqa: E731
    if cls == "StackPartition":
        nps = [d.npartitions for d in e._frames]
        mat = stack_match_flags(e)
        req = f"lk flat gen=stack nps={_nats(nps)} mat={_nats(mat)}"
        return "flat", req, _flat_answer(e, e._layer(), const(0))
    if cls == "StackPartitionInterleaved":
        nps = [d.npartitions for d in e._frames]
        return "flat", f"lk flat gen=interleaved nps={_nats(nps)}", _flat_answer(e, e._layer(), const(1))
    if cls == "Partitions":
        return "flat", f"lk flat gen=partitions P={_nats(e.partitions)} n={e.frame.npartitions}", _flat_answer(e, e._layer(), const("X"))
    if cls in FLAT_SOURCES:
        dsk, srcs = _recorded_layer(e, e)
        if dict_keys_differ(dsk, e._layer()):
            return "flat", f"lk flat gen=filtered P={_nats(e._partitions)}", "G ?layer keys differ from {(name, j): _task(j)}"
        return "flat", f"lk flat gen=filtered P={_nats(e._partitions)}", _flat_answer(e, dsk, const("X"), srcs)
    if cls == "Literal":
        return "flat", "lk flat gen=filtered P=0", _flat_answer(e, e._layer(), const("X"), {0: [0]})
    if cls in ("FusedIO", "FusedParquetIO"):
        inner = e.operand("_expr")
        dsk, srcs = _recorded_layer(e, inner)
        if dict_keys_differ(dsk, e._layer()):
            return "flat", "lk flat gen=fused P=- step=1", "G ?layer keys differ from {(name, j): _task(j)}"
        step = len(e._fusion_buckets[0]) if e._fusion_buckets else 1
        return "flat", f"lk flat gen=fused P={_nats(inner._partitions)} step={step}", _flat_answer(e, dsk, const("X"), srcs)
    if cls == "FromDelayed":
        return "flat", f"lk flat gen=fromdelayed P={_nats(e._partitions)} ndfs={len(e.dfs)}", _flat_answer(e, e._layer(), const(6))
    if cls == "ToParquetBarrier":
        return "flat", f"lk flat gen=barrier n={e.frame.npartitions}", _flat_answer(e, e._layer(), const(7))
    if cls == "FromScalars":
        return "flat", f"lk flat gen=scalars m={len(e._scalars)}", _flat_answer(e, e._layer(), const(8))
    if cls == "LocElement":
        from dask_expr._indexing import _get_partitions

        part = int(_get_partitions(e.frame, e.iindexer))
        dsk = e._layer()
        return "flat", f"lk flat gen=locelement part={part} n={e.frame.npartitions}", _flat_answer(e, dsk, _loc_code(e, len(dsk)))
    if cls == "LocList":
        from dask_expr._indexing import _get_partitions

        parts = sorted(int(p) for p in _get_partitions(e.frame, e.iindexer)) if len(e.iindexer) else []
        dsk = e._layer()
        return "flat", f"lk flat gen=loclist parts={_nats(parts)} n={e.frame.npartitions}", _flat_answer(e, dsk, _loc_code(e, len(dsk)))
    if cls == "LocSlice":
        dsk = e._layer()
        req = f"lk flat gen=locslice start={int(e.start)} stop={int(e.stop)} cnone={1 if e.cindexer is None else 0} n={e.frame.npartitions}"
        return "flat", req, _flat_answer(e, dsk, _loc_code(e, len(dsk)))
    if cls == "ResolveOverlappingDivisions":
        ne = [i for i, n in enumerate(e.lens) if n != 0]
        ov = [i for i in range(1, len(e.mins)) if e.mins[i] >= e.maxes[i - 1]]
        divs = e.divisions
        eq = [i for i in range(len(divs) - 1) if divs[i] == divs[i + 1]]
        req = f"lk flat gen=resolve ne={_nats(ne)} ov={_nats(ov)} eq={_nats(eq)} n={e.frame.npartitions}"
        return "flat", req, _flat_answer(e, e._layer(), const(9))
    if cls in GATHER:
        with _fake_crick():
            return "gather", f"lk gather n={e.frame.npartitions}", "G " + gather_text(e)
    if cls == "GroupByCumulativeFinalizer":
        idx = dep_index(e)
        req = f"lk cumg n={e.frame.npartitions} dF={idx[e.frame._name]} dR={idx[e.cum_raw._name]} dL={idx[e.cum_last._name]}"
        return "gather", req, "G " + cumg_text(e)
    if cls == "MergeAsofIndexed":
        from dask.dataframe.multi import pair_partitions

        pairs = [[int(j) for j, _lo, _hi in J] for J in pair_partitions(e.left.divisions, e.right.divisions)]
        tl = e.direction in ("backward", "nearest")
        hd = e.direction in ("forward", "nearest")
        pr = ";".join(_nats(J) for J in pairs) if pairs else "-"
        req = f"lk asof nl={e.left.npartitions} m={e.right.npartitions} tails={int(tl)} heads={int(hd)} pairs={pr}"
        return "gather", req, "G " + asof_text(e) + " ; paramsok=1"
    if cls == "RepartitionQuantiles":
        n = e.frame.npartitions
        levels = merge_levels(n)
        lv = ";".join(_nats(g) for g in levels) if levels else "-"
        return "gather", f"lk rq n={n} levels={lv}", "G " + rq_text(e) + " ; levelsok=1"
    return None


def asof_text(e):
    """canonical text of MergeAsofIndexed._layer: scan keys `(name, pos, d, phase)`, results `(name, j)`"""
    depnames = dep_index(e)
    dsk = e._layer()
    tname, hname = "prefix-reduction-" + e._name, "suffix_reduction-" + e._name

    def rk(x):
        if _is_dep_key(x, depnames):
            return f"@d{depnames[x[0]]}:{int(x[1])}"
        if isinstance(x, tuple) and x and isinstance(x[0], str) and all(isinstance(y, (int, np.integer)) for y in x[1:]):
            for nm, pfx in ((tname, "prefix-reduction-"), (hname, "suffix_reduction-"), (e._name, "")):
                if x[0] == nm:
                    return f"{pfx}@self:" + ".".join(str(int(y)) for y in x[1:])
        return None

    def arg(x):
        r = rk(x)
        if r is not None:
            return r
        return "id" if isinstance(x, (pd.DataFrame, pd.Series)) else "?" + type(x).__name__

    lines = []
    for k, v in dsk.items():
        kk = rk(k)
        if kk is None or kk.startswith("@d"):
            lines.append("?key:" + repr(k)[:60])
            continue
        if rk(v) is not None:
            body = f"alias({rk(v)})"
        elif isinstance(v, (pd.DataFrame, pd.Series)):
            body = "id"
        elif isinstance(v, tuple) and len(v) == 4 and getattr(v[1], "__name__", "").startswith("most_recent_"):
            body = "f(" + ",".join(arg(a) for a in v[2]) + ")"
        elif isinstance(v, tuple) and getattr(v[0], "__name__", "") == "concat":
            refs = []
            for fr in v[1]:
                sl, right, tail, head = fr[2]
                refs += [rk(sl[1]), rk(right)] + ([rk(tail)] if tail is not None else []) + ([rk(head)] if head is not None else [])
            body = "merge(" + ",".join(str(r) for r in refs) + ")"
        else:
            body = "?task"
        lines.append(f"{kk}={body}")
    return "|".join(sorted(set(lines)))


def merge_levels(n):
    """group sizes of every level of dask's create_merge_tree over n keys (its float `tree_width` and `tree_groups`
    are inputs of the model)"""
    from dask.dataframe.partitionquantiles import tree_groups, tree_width

    levels, w = [], n
    while w > 1:
        width = tree_width(w)
        levels.append([int(g) for g in tree_groups(w, width)])
        w = width
    return levels


def rq_text(e):
    depnames = dep_index(e)
    dsk = e._layer()

    def rk(x):
        if _is_dep_key(x, depnames):
            return f"@d{depnames[x[0]]}:{int(x[1])}"
        if isinstance(x, tuple) and x and x[0] == e._name and all(isinstance(y, (int, np.integer)) for y in x[1:]):
            return "@self:" + ".".join(str(int(y)) for y in x[1:])
        return None

    lines = []
    for k, v in dsk.items():
        kk = rk(k)
        if kk is None or kk.startswith("@d"):
            lines.append("?key:" + repr(k)[:60])
            continue
        fname = getattr(v[0], "__name__", "?")
        if fname == "dtype_info":
            body = f"dtype_info({rk(v[1])})"
        elif fname == "percentiles_summary":
            body = f"percentiles_summary({rk(v[1])})"
        elif fname == "merge_and_compress_summaries":
            body = "merge([" + ",".join(str(rk(x)) for x in v[1]) + "])"
        elif fname == "Series" and isinstance(v[1], tuple) and getattr(v[1][0], "__name__", "") == "process_val_weights":
            body = f"final({rk(v[1][1])},{rk(v[1][3])})"
        else:
            body = "?" + fname
        lines.append(f"{kk}={body}")
    return "|".join(sorted(set(lines)))


class _fake_crick:
    """SeriesQuantileTdigest._meta insists on `import crick` (not installed); the GRAPH it builds does not need it.
    An empty stand-in module lets `_layer()` run; the graph is never executed by this family."""

    def __enter__(self):
        import sys
        import types

        self.added = "crick" not in sys.modules
        if self.added:
            sys.modules["crick"] = types.ModuleType("crick")

    def __exit__(self, *a):
        import sys

        if self.added:
            sys.modules.pop("crick", None)


def dict_keys_differ(a, b):
    return list(a.keys()) != list(b.keys())


def gather_text(e):
    depnames = dep_index(e)
    dsk = e._layer()
    lines = []
    aux_names = {}
    for k, v in dsk.items():
        if k == (e._name, 0):
            continue
        if isinstance(k, tuple) and len(k) == 2 and isinstance(k[0], str) and k[0].endswith(e._name) and k[0] != e._name:
            aux_names[k] = f"aux-@self:{int(k[1])}"
            refs = ordered_dep_refs(v, depnames)
            lines.append(f"{aux_names[k]}=chunk(" + ",".join(f"@d{d}:{i}" for d, i in refs) + ")")
        else:
            lines.append("?key:" + repr(k)[:60])
    out = dsk.get((e._name, 0))
    refs = []

    def walk(x):
        try:
            if isinstance(x, tuple) and x in aux_names:
                refs.append(aux_names[x])
                return
        except TypeError:
            pass
        if isinstance(x, (tuple, list)):
            for y in x:
                walk(y)

    walk(out)
    lines.append("@self:0=agg(" + ",".join(refs) + ")")
    return "|".join(sorted(set(lines)))


def cumg_text(e):
    depnames = dep_index(e)
    dsk = e._layer()
    inter = "cum-last" + e._name

    def rk(x):
        if _is_dep_key(x, depnames):
            return f"@d{depnames[x[0]]}:{int(x[1])}"
        if isinstance(x, tuple) and len(x) == 2 and x[0] == inter:
            return f"cum-last@self:{int(x[1])}"
        if isinstance(x, tuple) and len(x) == 2 and x[0] == e._name:
            return f"@self:{int(x[1])}"
        return None

    lines = []
    for k, v in dsk.items():
        kk = rk(k)
        if kk is None or kk.startswith("@d"):
            lines.append("?key:" + repr(k)[:60])
            continue
        if rk(v) is not None:
            lines.append(f"{kk}=alias({rk(v)})")
            continue
        fname = getattr(v[0], "__name__", "?")
        code = {"_cum_agg_filled": "filled", "_cum_agg_aligned": "aligned"}.get(fname, "?" + fname)
        args = [rk(a) for a in v[1:] if rk(a) is not None]
        lines.append(f"{kk}={code}(" + ",".join(args) + ")")
    return "|".join(sorted(set(lines)))


# --------------------------------------------------------------------------- Blockwise task shape


def blockwise_case(e):
    """-> (request, code text) for a Blockwise-derived expression: per output partition the set of dependency keys the
    real `_task(i)` refers to, against `Blockwise.argKey` over the dependencies (`_broadcast_dep` decided by the model)"""
    from dask_expr._expr import Blockwise, Fused

    deps = e.dependencies()
    depnames = dep_index(e)
    anynd = type(e)._broadcast_dep is not Blockwise._broadcast_dep
    args = ";".join(f"e:{depnames[d._name]}:{d.npartitions}:{d.ndim}" for d in deps) or "-"
    try:
        ndim = e.ndim
    except Exception:  # noqa: BLE001  (ToParquetData has no meta; its task names (frame, index) directly)
        ndim = 0
    req = f"lk bwrefs n={e.npartitions} ndim={ndim} any={1 if anynd else 0} args={args}"
    lines = []
    for i in range(e.npartitions):
        t = e._task(i)
        if isinstance(e, Fused):
            t = t[3:]  # the sub-graph of a fused task is C14's subject; its outer arguments are the references
        refs = sorted({f"@d{d}:{j}" for d, j in ordered_dep_refs(t, depnames)})
        lines.append(f"{i}=" + ",".join(refs))
    return req, "|".join(lines)


def blockwise_args_ok(e):
    """every Expr among the arguments of a Blockwise task is a dependency (else its key would dangle)"""
    from dask_expr._core import Expr

    deps = {d._name for d in e.dependencies()}
    try:
        args = list(e._args)
    except Exception:  # noqa: BLE001
        return True
    return all(a._name in deps for a in args if isinstance(a, Expr))


# --------------------------------------------------------------------------- instances

_TMP = None


def _tmpdir():
    global _TMP
    if _TMP is None:
        _TMP = tempfile.mkdtemp(prefix="vc09_")
        atexit.register(lambda: shutil.rmtree(_TMP, ignore_errors=True))
    return _TMP


def _pdf(n=12, name=None, idxname=None, shift=0, fcol=False):
    df = pd.DataFrame({"a": np.arange(n, dtype="int64") + shift, "b": (np.arange(n, dtype="int64") * 3) % 4,
                       "c": (np.arange(n) % 5).astype("float64" if fcol else "int64")},
                      index=pd.Index(np.arange(n, dtype="int64") + shift, name=idxname))
    return df


def _parquet(nfiles=4):
    import dask_expr as dx

    path = os.path.join(_tmpdir(), f"pq{nfiles}")
    if not os.path.exists(path):
        dx.from_pandas(_pdf(4 * nfiles), npartitions=nfiles, sort=False).to_parquet(path)
    return path


def _csv(nfiles=3):
    d = os.path.join(_tmpdir(), f"csv{nfiles}")
    if not os.path.exists(d):
        os.makedirs(d)
        for i in range(nfiles):
            _pdf(4, shift=4 * i).to_csv(os.path.join(d, f"p{i}.csv"), index=False)
    return os.path.join(d, "*.csv")


def _sel(e, P):
    return e.substitute_parameters({"_partitions": list(P)})


def explicit_instances(ctx):
    """[(label, expression)] — direct constructions covering every flat / gather class, random parameters from ctx.rng"""
    import dask
    import dask_expr as dx
    from dask_expr._expr import Lengths, Literal, Partitions, ResolveOverlappingDivisions
    from dask_expr._quantile import SeriesQuantileDask, SeriesQuantileTdigest
    from dask_expr.io.io import FromScalars, FusedIO, FusedParquetIO

    rng = ctx.rng
    quick = ctx.quick
    out = []

    def sub(n, k=None):
        k = rng.randint(0, min(n, 4)) if k is None else k
        return [rng.randrange(n) for _ in range(k)]

    # ---- sources with selections
    srcs = []
    for npart in ([1, 3, 5] if quick else [1, 2, 3, 4, 5, 7]):
        srcs.append(("FromPandas", dx.from_pandas(_pdf(14), npartitions=npart, sort=False).expr))
    srcs.append(("FromPandas[cols]", dx.from_pandas(_pdf(14), npartitions=4, sort=False)[["a"]].optimize(fuse=False).expr))
    srcs.append(("FromArray", dx.from_array(np.arange(23), chunksize=5).expr))
    srcs.append(("FromArray2d", dx.from_array(np.arange(24).reshape(12, 2), chunksize=5, columns=["x", "y"]).expr))
    parts = [_pdf(3, shift=3 * i) for i in range(5)]
    srcs.append(("FromMap", dx.from_map(e2e._PartGetter(parts), list(range(5)), meta=parts[0].iloc[:0]).expr))
    srcs.append(("ReadCSV", dx.read_csv(_csv(3)).expr))
    srcs.append(("ReadParquetFSSpec", dx.read_parquet(_parquet(4), filesystem="fsspec").expr))
    srcs.append(("ReadParquetPyarrowFS", dx.read_parquet(_parquet(4), filesystem="arrow").expr))
    try:
        from dask_expr.datasets import timeseries

        srcs.append(("Timeseries", timeseries(start="2000-01-01", end="2000-01-06", freq="6h", partition_freq="1D", seed=1).expr))
    except Exception:  # noqa: BLE001
        pass
    for lab, e in srcs:
        out.append((lab, e))
        n = e.npartitions
        for _ in range(2 if quick else 6):
            P = sub(n)
            try:
                out.append((lab + f"[{P}]", _sel(e, P)))
            except Exception:  # noqa: BLE001
                pass
    out.append(("Literal", Literal(5)))

    # ---- FusedIO over sources with a compression factor < 1
    for lab, e in srcs:
        if type(e).__name__ in ("FromPandas", "ReadParquetFSSpec", "ReadParquetPyarrowFS") and e.npartitions >= 3:
            try:
                proj = e.substitute_parameters({"columns": ["a"]})
            except Exception:  # noqa: BLE001
                continue
            cls = FusedParquetIO if type(e).__name__ == "ReadParquetPyarrowFS" else FusedIO
            for P in [None] + [sorted(set(sub(e.npartitions, 3))) for _ in range(1 if quick else 3)]:
                inner = proj if P is None else _sel(proj, P)
                if inner.npartitions:
                    out.append((f"{cls.__name__}({lab},{P})", cls(inner)))

    # ---- Partitions over a non-source frame
    fr = (dx.from_pandas(_pdf(14), npartitions=5, sort=False) + 1).expr
    for _ in range(3 if quick else 12):
        out.append(("Partitions", Partitions(fr, sub(fr.npartitions, rng.randint(1, 4)))))

    # ---- row-wise concatenation: every combination of matching / non-matching inputs
    variants = {
        "same": lambda i: _pdf(6, shift=10 * i),
        "idxname": lambda i: _pdf(6, shift=10 * i, idxname="ix"),
        "float": lambda i: _pdf(6, shift=10 * i, fcol=True),
        "fewercols": lambda i: _pdf(6, shift=10 * i)[["a", "b"]],
    }
    keys = list(variants)
    for _ in range(6 if quick else 40):
        k = rng.randint(2, 4)
        kinds = [rng.choice(keys) for _ in range(k)]
        frames = [dx.from_pandas(variants[kd](i), npartitions=rng.randint(1, 3), sort=False) for i, kd in enumerate(kinds)]
        try:
            q = dx.concat(frames)
            out.append((f"concat{kinds}", q.expr.lower_completely()))
        except Exception:  # noqa: BLE001
            pass
    # series with different names
    s1 = dx.from_pandas(_pdf(6), npartitions=2, sort=False).a
    s2 = dx.from_pandas(_pdf(6, shift=10), npartitions=2, sort=False).b
    out.append(("concat[series names]", dx.concat([s1, s2]).expr.lower_completely()))
    # interleaved: known, overlapping divisions
    for n1, n2 in ([(2, 3)] if quick else [(1, 2), (2, 3), (3, 3), (4, 2)]):
        a = dx.from_pandas(_pdf(12), npartitions=n1)
        b = dx.from_pandas(_pdf(12, shift=3), npartitions=n2)
        out.append((f"concat-interleave({n1},{n2})", dx.concat([a, b], interleave_partitions=True).expr.lower_completely()))
        out.append((f"concat-axis1({n1},{n2})", dx.concat([a, b.rename(columns={"a": "x", "b": "y", "c": "z"})], axis=1).expr.lower_completely()))

    # ---- from_delayed
    dl = [dask.delayed(_pdf)(3, shift=3 * i) for i in range(4)]
    fd = dx.from_delayed(dl, meta=_pdf(3).iloc[:0]).expr
    out.append(("FromDelayed", fd))
    out.append(("FromDelayed[sel]", _sel(fd, [3, 1])))
    out.append(("FromDelayed[noverify]", dx.from_delayed(dl, meta=_pdf(3).iloc[:0], verify_meta=False).expr))

    # ---- to_parquet
    df5 = dx.from_pandas(_pdf(14), npartitions=5, sort=False)
    for wm in (False, True):
        tp = df5.to_parquet(os.path.join(_tmpdir(), f"out{int(wm)}"), compute=False, write_metadata_file=wm)
        out.append((f"to_parquet(meta={wm})", tp.expr.lower_completely() if hasattr(tp, "expr") else tp))

    # ---- scalars, lengths, quantiles
    sc = [df5.a.sum().expr, df5.b.max().expr, df5.c.min().expr]
    out.append(("FromScalars", FromScalars(pd.Series([1, 2, 3], index=["x", "y", "z"]), ["x", "y", "z"], *sc)))
    for npart in ([1, 4] if quick else [1, 2, 3, 4, 6]):
        d = dx.from_pandas(_pdf(14), npartitions=npart, sort=False)
        out.append(("Lengths", Lengths(d.expr)))
        out.append(("SeriesQuantileDask", SeriesQuantileDask(d.a.expr, [0.25, 0.5])))
        out.append(("SeriesQuantileDask[scalar]", SeriesQuantileDask(d.a.expr, 0.5)))
        out.append(("SeriesQuantileTdigest", SeriesQuantileTdigest(d.a.expr, [0.25, 0.5], "tdigest")))

    # ---- RepartitionQuantiles: every number of partitions up to a bound (the tree shape changes with it)
    from dask_expr._quantiles import RepartitionQuantiles

    for npart in (list(range(1, 12)) + [16, 31, 32, 33, 40] if quick else list(range(1, 70)) + [100, 128, 200]):
        pdf = pd.DataFrame({"a": np.arange(npart * 2)})
        d = dx.from_pandas(pdf, npartitions=npart, sort=False)
        if d.npartitions == npart:
            out.append((f"RepartitionQuantiles({npart})", RepartitionQuantiles(d.a.expr, 3)))

    # ---- merge_asof on the index: every direction, with / without `by`, left x right partition counts
    def asof_frames(nl, m):
        ln, rn = 3 * nl + 2, 3 * m + 1
        l = pd.DataFrame({"lv": np.arange(ln), "g": np.arange(ln) % 2}, index=pd.Index(np.arange(ln) * 3 + 1, name="t"))
        r = pd.DataFrame({"rv": np.arange(rn), "g": np.arange(rn) % 2}, index=pd.Index(np.arange(rn) * 4, name="t"))
        return dx.from_pandas(l, npartitions=nl), dx.from_pandas(r, npartitions=m)

    grid = [(1, 1), (2, 3), (3, 5), (4, 2)] if quick else [(a, b) for a in (1, 2, 3, 5) for b in (1, 2, 3, 4, 5, 6, 7, 8, 9, 12, 17)]
    for nl, m in grid:
        for direction in ("backward", "forward", "nearest"):
            for by in (False, True):
                if by and (quick and (nl, m) != (2, 3)):
                    continue
                try:
                    a, b = asof_frames(nl, m)
                    q = dx.merge_asof(a, b, left_index=True, right_index=True, direction=direction, **({"by": "g"} if by else {}))
                    out.append((f"merge_asof({nl},{m},{direction},by={by})", q.expr.lower_completely()))
                except Exception:  # noqa: BLE001
                    pass

    # ---- loc
    dk = dx.from_pandas(_pdf(20), npartitions=5)
    for lab, q in [
        ("loc[el]", lambda: dk.loc[7]), ("loc[el,col]", lambda: dk.loc[7, ["a"]]),
        ("loc[list]", lambda: dk.loc[[1, 7, 19]]), ("loc[list1]", lambda: dk.loc[[8]]), ("loc[list0]", lambda: dk.loc[[]]),
        ("loc[a:b]", lambda: dk.loc[3:15]), ("loc[a:b,col]", lambda: dk.loc[3:15, ["a", "b"]]), ("loc[:b]", lambda: dk.loc[:9]),
        ("loc[a:]", lambda: dk.loc[9:]), ("loc[a:a']", lambda: dk.loc[5:6]), ("loc[:]", lambda: dk.loc[:]),
        ("loc[x:y one part]", lambda: dk.loc[0:2]), ("loc[a:b,col] two", lambda: dk.loc[3:6, ["a"]]),
    ]:
        try:
            out.append((lab, q().expr.lower_completely()))
        except Exception:  # noqa: BLE001
            pass

    # ---- ResolveOverlappingDivisions: synthetic statistics
    fr4 = dx.from_pandas(_pdf(16), npartitions=4, sort=False).expr
    for lens, mins, maxes in [
        ([4, 4, 4, 4], [0, 4, 8, 12], [3, 7, 11, 15]),
        ([4, 4, 4, 4], [0, 3, 8, 11], [3, 7, 11, 15]),
        ([4, 0, 4, 4], [0, 3, 7], [3, 7, 15]),
        ([4, 4, 4, 4], [0, 3, 3, 3], [3, 3, 3, 15]),
        ([0, 0, 0, 0], [], []),
        ([4, 4, 0, 4], [0, 4, 4], [4, 4, 15]),
    ]:
        out.append((f"Resolve{lens}", ResolveOverlappingDivisions(fr4, mins, maxes, lens)))

    # ---- groupby cumulative
    for npart in ([1, 3] if quick else [1, 2, 3, 5]):
        d = dx.from_pandas(_pdf(14), npartitions=npart, sort=False)
        out.append((f"groupby.cumsum({npart})", d.groupby("b").cumsum().expr.lower_completely()))
        out.append((f"groupby.a.cumprod({npart})", d.groupby("b").a.cumprod().expr.lower_completely()))
    return out


# --------------------------------------------------------------------------- extra programs (public API) for T3 and harvesting


def extra_programs():
    """{name: thunk -> collection}: queries outside the vetted grammar that reach the remaining layer classes"""
    import dask
    import dask_expr as dx

    def P(n=14, k=4, **kw):
        return dx.from_pandas(_pdf(n, **kw), npartitions=k, sort=False)

    def K(n=20, k=5, **kw):
        return dx.from_pandas(_pdf(n, **kw), npartitions=k)

    def asof(direction, by=False):
        l = pd.DataFrame({"lv": np.arange(8), "g": np.arange(8) % 2}, index=pd.Index([1, 4, 5, 9, 12, 15, 20, 21], name="t"))
        r = pd.DataFrame({"rv": np.arange(9), "g": np.arange(9) % 2}, index=pd.Index([0, 2, 3, 6, 7, 10, 14, 19, 22], name="t"))
        return dx.merge_asof(dx.from_pandas(l, npartitions=3), dx.from_pandas(r, npartitions=4), left_index=True, right_index=True,
                             direction=direction, **({"by": "g"} if by else {}))

    def delayed_roundtrip():
        d = P()
        return dx.from_delayed(d.to_delayed(), meta=d._meta)

    def fproj(i, columns=None):
        df = _pdf(3, shift=3 * i)
        return df[columns] if columns is not None else df

    def from_scalars():
        from dask_expr._collection import _from_scalars

        return _from_scalars([P().a.sum(), P().b.max()], pd.Series([1, 2], index=["x", "y"]), ["x", "y"])

    def lengths():
        from dask_expr._collection import new_collection
        from dask_expr._expr import Lengths

        return new_collection(Lengths((P() + 1).expr))

    def len_literal():
        from dask_expr._collection import new_collection
        from dask_expr._reductions import Len

        return new_collection(Len(P().expr)) + 1

    progs = {
        "repartition_quantiles": lambda: P(30, 6).a._repartition_quantiles(4),
        "from_map_projectable": lambda: dx.from_map(fproj, [0, 1, 2, 3], meta=_pdf(3).iloc[:0])[["a"]],
        "from_scalars": from_scalars,
        "lengths_unoptimized_only": lengths,
        "len_literal": len_literal,
        "shuffle_simple": lambda: P().shuffle("b", shuffle_method="simple"),
        "from_pandas/id": lambda: P(),
        "from_pandas/proj_sum": lambda: P()[["a"]].sum(),
        "from_pandas/partitions": lambda: P().partitions[[2, 0]],
        "from_pandas_known/add_partitions": lambda: (K() + 1).partitions[[3, 1]],
        "from_array/id": lambda: dx.from_array(np.arange(23), chunksize=5),
        "read_parquet_arrow/proj": lambda: dx.read_parquet(_parquet(4), filesystem="arrow")[["a"]],
        "read_parquet_arrow/filter_sum": lambda: (lambda d: d[d.a > 3].b.sum())(dx.read_parquet(_parquet(4), filesystem="arrow")),
        "read_parquet_fsspec/proj": lambda: dx.read_parquet(_parquet(4), filesystem="fsspec")[["a", "b"]],
        "read_parquet_fsspec/len": lambda: dx.read_parquet(_parquet(4), filesystem="fsspec").a.count(),
        "read_csv/sum": lambda: dx.read_csv(_csv(3)).a.sum(),
        "timeseries/mean": lambda: __import__("dask_expr.datasets", fromlist=["timeseries"]).timeseries(
            start="2000-01-01", end="2000-01-05", freq="6h", partition_freq="1D", seed=1).x.max(),
        "concat_mismatch": lambda: dx.concat([P(6, 2), P(6, 2, idxname="ix", shift=10), P(6, 1, fcol=True, shift=20)]),
        "concat_series_names": lambda: dx.concat([P(6, 2).a, P(6, 2, shift=10).b]),
        "concat_interleave": lambda: dx.concat([K(12, 2), K(12, 3, shift=3)], interleave_partitions=True),
        "concat_axis1_divs": lambda: dx.concat([K(12, 2), K(12, 3, shift=3).rename(columns={"a": "x", "b": "y", "c": "z"})], axis=1),
        "concat_axis1_aligned": lambda: (lambda d: dx.concat([d[["a"]], d[["b"]] + 1], axis=1))(K(12, 3)),
        "loc_slice": lambda: K().loc[3:15],
        "loc_slice_cols_sum": lambda: K().loc[3:15, ["a", "b"]].sum(),
        "loc_list": lambda: K().loc[[1, 7, 19]],
        "loc_element": lambda: K().loc[7],
        "loc_unknown": lambda: P().loc[3:9],
        "describe": lambda: P().describe(),
        "describe_series": lambda: P().a.describe(),
        "quantile_series": lambda: P().a.quantile(0.5),
        "two_quantiles_same_series": lambda: (lambda d: d.a.quantile(0.25) + d.a.quantile(0.75))(P()),
        "two_groupby_cum_same_frame": lambda: (lambda d: d.groupby("b").a.cumsum() + d.groupby("b").a.cumprod())(P()),
        "quantile_frame": lambda: P()[["a", "c"]].quantile([0.25, 0.75]),
        "median_approx": lambda: P().a.median_approximate(),
        "groupby_cumsum": lambda: P().groupby("b").cumsum(),
        "groupby_cumcount": lambda: P().groupby("b").cumcount(),
        "groupby_apply": lambda: P().groupby("b").apply(lambda g: g.assign(r=g.a - g.a.min()), meta=P()._meta.assign(r=1)),
        "groupby_median": lambda: P().groupby("b").a.median(),
        "merge_asof_backward": lambda: asof("backward"),
        "merge_asof_forward": lambda: asof("forward"),
        "merge_asof_nearest_by": lambda: asof("nearest", by=True),
        "merge_broadcast": lambda: P(14, 4).merge(P(4, 1)[["b", "a"]].rename(columns={"a": "ra"}), on="b", how="inner", broadcast=True, shuffle_method="tasks"),
        "merge_broadcast_left2": lambda: P(14, 4).merge(P(6, 2)[["b", "a"]].rename(columns={"a": "ra"}), on="b", how="left", broadcast=True, shuffle_method="tasks"),
        "merge_hash": lambda: P(14, 4).merge(P(10, 3)[["b", "a"]].rename(columns={"a": "ra"}), on="b", how="outer", broadcast=False, shuffle_method="tasks"),
        # two different partition selections of ONE shuffle in one graph: after the push-down two layer builders over the
        # same input differ only in `_partitions` — their intermediate keys must not clash (seeded change C09-m4)
        "two_selections_disk_shuffle": lambda: (lambda s: dx.concat([s.partitions[0], s.partitions[2]]))(P(20, 4).shuffle("b", shuffle_method="disk")),
        "two_selections_tasks_shuffle": lambda: (lambda s: dx.concat([s.partitions[0], s.partitions[[2, 3]]]))(P(20, 4).shuffle("b", shuffle_method="tasks", max_branch=2)),
        "two_selections_sort": lambda: (lambda s: dx.concat([s.partitions[0], s.partitions[2]]))(P(20, 4).sort_values("a", shuffle_method="tasks")),
        "two_selections_merge": lambda: (lambda s: dx.concat([s.partitions[0], s.partitions[1]]))(P(14, 4).merge(P(10, 3)[["b", "a"]].rename(columns={"a": "ra"}), on="b", how="inner", broadcast=False, shuffle_method="tasks")),
        "from_delayed_roundtrip": delayed_roundtrip,
        "from_delayed_sum": lambda: dx.from_delayed([dask.delayed(_pdf)(3, shift=3 * i) for i in range(4)], meta=_pdf(3).iloc[:0]).a.sum(),
        "from_graph_persist": lambda: (P() + 1).persist() * 2,
        "to_parquet": lambda: P().to_parquet(os.path.join(_tmpdir(), "tp"), compute=False),
        "to_parquet_meta": lambda: P().to_parquet(os.path.join(_tmpdir(), "tpm"), compute=False, write_metadata_file=True),
        "sample": lambda: P().sample(frac=0.5, random_state=1),
        "random_split": lambda: P().random_split([0.5, 0.5], random_state=1)[0],
        "ffill": lambda: P().c.ffill(),
        "enforce_runtime_divisions": lambda: K().enforce_runtime_divisions(),
        "series_apply": lambda: P().a.apply(lambda x: x + 1, meta=("a", "int64")),
        "head": lambda: (P() + 1).head(3, compute=False),
        "head_all": lambda: (P() + 1).head(9, npartitions=-1, compute=False),
        "tail": lambda: (P() + 1).tail(3, compute=False),
        "index_head": lambda: P().index.head(3, compute=False),
        "tail_index": lambda: P().index.tail(2, compute=False),
        "resample": lambda: dx.from_pandas(e2e.T_dt(8), npartitions=3).resample("2D").sum(),
        "rolling_timedelta": lambda: dx.from_pandas(e2e.T_dt(8), npartitions=3).a.rolling("2D").sum(),
        "rolling_int": lambda: K().a.rolling(3).sum(),
        "shift_timedelta": lambda: dx.from_pandas(e2e.T_dt(8), npartitions=3).shift(1, freq="1D"),
        "set_index_sorted_overlap": lambda: dx.from_pandas(pd.DataFrame({"k": [1, 2, 2, 2, 3, 3, 4, 5], "v": range(8)}), npartitions=4, sort=False).set_index("k", sorted=True),
        "sort_values_quantiles": lambda: P(30, 6).sort_values("a"),
        "repartition_freq": lambda: dx.from_pandas(e2e.T_dt(8), npartitions=2).repartition(freq="3D"),
        "repartition_size": lambda: P().repartition(partition_size="200B"),
        "lengths": lambda: P().map_partitions(len),
        "nunique_split_out": lambda: P().b.unique(),
        "value_counts": lambda: P().b.value_counts(),
        "cov": lambda: P()[["a", "c"]].cov(),
        "isin_series": lambda: P().a.isin([1, 2, 3]).sum(),
        "to_frame_scalars": lambda: P().sum().to_frame(),
    }
    return progs


def harvest(ctx, cache):
    """[(label, node)] — every node of every stage of the extra programs whose class has a flat/gather model or is
    Blockwise-derived; `cache` maps node names already seen to True"""
    from harness import plans

    out = []
    for name, thunk in extra_programs().items():
        try:
            q = thunk()
            expr = q.expr if hasattr(q, "expr") else q
            stages = plans.stage_exprs(expr, ["fused"] if ctx.quick else plans.STAGES)
        except Exception:  # noqa: BLE001
            continue
        for st, e in stages:
            for n in e.walk():
                if n._name in cache:
                    continue
                cache[n._name] = True
                out.append((f"{name}@{st}", n))
    return out


# --------------------------------------------------------------------------- families


def _compare_instances(f, insts, tag):
    reqs, code, inputs = [], [], []
    seen_cls = {}
    for lab, e in insts:
        nodes = list(e.walk()) if hasattr(e, "walk") else [e]
        for n in nodes:
            try:
                d = describe(n)
            except Exception as ex:  # noqa: BLE001
                d = (tag, "ping", f"ERR describe {type(n).__name__}: {type(ex).__name__}: {str(ex)[:160]}")
            if d is None or d[0] != tag:
                continue
            reqs.append(d[1])
            code.append(d[2])
            inputs.append({"class": type(n).__name__, "instance": lab, "request": d[1]})
            seen_cls[type(n).__name__] = seen_cls.get(type(n).__name__, 0) + 1
    model = drive(reqs)
    f.compare(inputs, code, model)
    for d in f.disagreements:
        if d:
            d["diff"] = first_diff(d["code"], d["model"])
    return seen_cls


_INSTANCES = {}


def all_instances(ctx):
    key = (ctx.tier, ctx.seed)
    if key not in _INSTANCES:
        insts = explicit_instances(ctx)
        insts += harvest(ctx, {})
        _INSTANCES[key] = insts
    return _INSTANCES[key]


MUST_FLAT = ["StackPartition", "StackPartitionInterleaved", "Partitions", "FromPandas", "FromArray", "FromMap", "ReadCSV",
             "ReadParquetFSSpec", "ReadParquetPyarrowFS", "Literal", "FusedIO", "FusedParquetIO", "FromDelayed",
             "ToParquetBarrier", "FromScalars", "LocElement", "LocList", "LocSlice", "ResolveOverlappingDivisions"]
MUST_GATHER = ["Lengths", "SeriesQuantileDask", "SeriesQuantileTdigest", "GroupByCumulativeFinalizer", "RepartitionQuantiles",
               "MergeAsofIndexed"]


def fam_flat(ctx):
    """T2: exact equality of the real flat `_layer()` / `_task()` dicts with Layers/Flat.lean, plus the T3 check that the
    model's reference-bound test agrees with the real partition counts"""
    f = Family("graph_equality[flat layers: StackPartition(Interleaved), Partitions, PartitionsFiltered sources, FusedIO, FromDelayed, ToParquetBarrier, FromScalars, Loc*, ResolveOverlappingDivisions]")
    seen = _compare_instances(f, all_instances(ctx), "flat")
    missing = [c for c in MUST_FLAT if c not in seen]
    if missing:
        f.disagreements.append({"input": "must-run classes without an instance", "code": ",".join(missing), "model": ""})
    f.note = "instances per class: " + ", ".join(f"{k}={v}" for k, v in sorted(seen.items()))
    return f


def fam_gather(ctx):
    f = Family("graph_equality[Lengths, SeriesQuantileDask/Tdigest, GroupByCumulativeFinalizer, RepartitionQuantiles + create_merge_tree, MergeAsofIndexed + prefix/suffix_reduction]")
    seen = _compare_instances(f, all_instances(ctx), "gather")
    missing = [c for c in MUST_GATHER if c not in seen]
    if missing:
        f.disagreements.append({"input": "must-run classes without an instance", "code": ",".join(missing), "model": ""})
    f.note = "instances per class: " + ", ".join(f"{k}={v}" for k, v in sorted(seen.items()))
    return f


def blockwise_nodes(ctx, extra_exprs=()):
    from dask_expr._expr import Blockwise
    from dask_expr.io import BlockwiseIO

    from harness.extractors_layers import MODELS

    def is_bw(n):
        ent = MODELS.get(type(n).__name__)
        for c in type(n).__mro__:  # the nearest class with a table entry decides
            if c.__name__ in MODELS:
                ent = MODELS[c.__name__]
                break
        return ent is not None and ent[0].startswith("Dx.Blockwise.layer")

    seen, out = set(), []
    for lab, e in list(all_instances(ctx)) + list(extra_exprs):
        nodes = list(e.walk()) if hasattr(e, "walk") else [e]
        for n in nodes:
            if n._name in seen or not isinstance(n, Blockwise) or isinstance(n, BlockwiseIO) or not is_bw(n):
                continue
            seen.add(n._name)
            out.append((lab, n))
    return out


def fam_blockwise_shape(ctx, extra_exprs=()):
    """T2 for every Blockwise-derived class (incl. the ones overriding `_task`, `_blockwise_arg`, `_broadcast_dep`):
    the keys a real task refers to are `argKey` of its dependencies; every Expr argument is a dependency"""
    f = Family("task_references[Blockwise._task and overrides: Apply, BlockwiseHead/Tail(Index), EnforceRuntimeDivisions, FillnaCheck, Index, MapPartitions, Sample, Split, GroupByUDFBlockwise, BlockwiseMerge, DescribeNumericAggregate, ResampleAggregation, ToParquetData, Fused]")
    reqs, code, inputs, per = [], [], [], {}
    bad_args = []
    for lab, n in blockwise_nodes(ctx, extra_exprs):
        try:
            req, txt = blockwise_case(n)
        except Exception as ex:  # noqa: BLE001
            req, txt = "ping", f"ERR {type(ex).__name__}: {str(ex)[:120]}"
        reqs.append(req)
        code.append(txt)
        inputs.append({"class": type(n).__name__, "instance": lab, "request": req})
        per[type(n).__name__] = per.get(type(n).__name__, 0) + 1
        if not blockwise_args_ok(n):
            bad_args.append(f"{type(n).__name__}@{lab}")
    model = drive(reqs)
    f.compare(inputs, code, model)
    for b in bad_args[:5]:
        f.disagreements.append({"input": {"class": b.split("@")[0]}, "code": "an Expr argument of the task is not among dependencies(): " + b, "model": "all Expr arguments are dependencies"})
    own_task = ["Apply", "BlockwiseHead", "BlockwiseTail", "Index", "MapPartitions", "Fused", "BlockwiseMerge", "Sample", "Split",
                "FillnaCheck", "EnforceRuntimeDivisions", "GroupByUDFBlockwise", "DescribeNumericAggregate", "ToParquetData",
                "BlockwiseHeadIndex", "BlockwiseTailIndex", "ResampleAggregation"]
    missing = [c for c in own_task if c not in per]
    if missing:
        f.disagreements.append({"input": "must-run classes without an instance", "code": ",".join(missing), "model": ""})
    f.note = f"{len(per)} Blockwise classes; own-_task classes: " + ", ".join(f"{c}={per.get(c, 0)}" for c in own_task)
    return f


def fam_sources(ctx):
    """T1/T2: the graph-building methods of every covered class hash to the committed value (LayerHashes.lean, read
    through the driver); a disagreement names the class, which steers the failing-input search"""
    from harness import extractors_layers as el

    f = Family("source_hashes[graph-building methods of every modelled class vs committed LayerHashes.lean]")
    rows = [r for r in el.layer_rows() if r["covered"]]
    model = drive([f"lk hash cls={r['name']}" for r in rows])
    f.compare([{"class": r["name"], "methods": r["kind"]} for r in rows], [r["hash"] for r in rows], model)
    f.exhaustive = True
    f.note = f"{len(rows)} covered classes; unmodelled: " + ",".join(r["name"] for r in el.layer_rows() if not r["covered"])
    return f


def fam_repartition_hyps(ctx):
    """T3: the float-computed parameters of real repartition expressions satisfy the hypotheses of
    C09_layer_repartition_{fewer,size,divisions} (checked by the Lean functions)"""
    import dask_expr as dx
    from dask_expr._repartition import RepartitionSize, RepartitionToFewer

    f = Family("hypothesis[RepartitionToFewer boundaries, RepartitionSize boundaries/nsplits, RepartitionDivisions plan]")
    reqs, inputs = [], []
    nmax = 12 if ctx.quick else 40
    for nin in range(1, nmax + 1):
        fr = dx.from_pandas(_pdf(max(nin, 1) * 2), npartitions=nin, sort=False)
        if fr.npartitions != nin:
            continue
        for nout in range(1, nin):
            e = RepartitionToFewer(fr.expr, nout)
            reqs.append(f"lk check fewer bs={_nats(e._partitions_boundaries)} nin={nin}")
            inputs.append({"class": "RepartitionToFewer", "nin": nin, "nout": nout})
    sizes = ["100B", "200B", "400B", "1kB"] if ctx.quick else ["50B", "100B", "150B", "200B", "300B", "400B", "800B", "1kB", "4kB"]
    for nin in ([1, 3, 5] if ctx.quick else [1, 2, 3, 4, 5, 7, 9]):
        fr = dx.from_pandas(_pdf(nin * 6), npartitions=nin, sort=False)
        for sz in sizes:
            try:
                e = RepartitionSize(fr.expr, partition_size=sz)
                ns = [int(k) for k in e._nsplits]
                bs = [int(b) for b in e._partition_boundaries]
            except Exception:  # noqa: BLE001
                continue
            reqs.append(f"lk check size ns={_nats(ns)} bs={_nats(bs)}")
            inputs.append({"class": "RepartitionSize", "nin": nin, "size": sz, "nsplits": ns, "boundaries": bs})
    import itertools

    vals = range(0, 5 if ctx.quick else 6)
    vecs = [list(c) for r in (2, 3, 4) for c in itertools.combinations_with_replacement(vals, r)]
    pairs = [(a, b, force) for a in vecs for b in vecs for force in (False, True)
             if len(set(a)) == len(a) or a[-1] == a[-2]]
    ctx.rng.shuffle(pairs)
    for a, b, force in pairs[: (600 if ctx.quick else 6000)]:
        reqs.append(f"lk check div a={_nats(a)} b={_nats(b)} force={1 if force else 0}")
        inputs.append({"class": "RepartitionDivisions", "a": a, "b": b, "force": force})
    model = drive(reqs)
    # the planner may refuse (ERR): that is C13's subject; a plan that is emitted must be well formed
    code = ["ERR" if m == "ERR" else "OK" for m in model]
    f.compare(inputs, code, model, [m != "ERR" for m in model])
    f.note = "RepartitionDivisions: the model planner is tied to the real _layer by c13.graph_equality; here every emitted plan is checked"
    return f
