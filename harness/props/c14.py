"""C14 — blockwise fusion only changes task granularity.

Correspondence (T2/T3) between /repo `optimize_blockwise_fusion` / `Fused._task` and the Lean model
`Dx.Fusion` (lean/DxModel/Fusion.lean), plus the fuse-vs-no-fuse end-to-end search.

Iteration order: `_fusion_pass` iterates `sorted(dependencies[next._name])` (name strings in sorted order);
the order decides which group is found.  The model takes the order as a parameter; every pass of the real
loop is captured (the plan before the pass and the `Fused` that replaces `group[0]`) and the model is run
on the abstraction of that plan with the string order of the real names as sort keys.  Every group is also
checked with the proven Lean checkers (`groupOKb`, `planOKb`, `fusedOK`), which are order-independent.
"""
from __future__ import annotations

import contextlib
import itertools
import json
import operator
import os
import re

import dask
import numpy as np
import pandas as pd

from harness import e2e
from harness.core import Family, Failure, Support, drive, first_diff

LEAN_MODULES = ["DxModel.Props.C14"]
GENERATED = []
TRUSTED = [
    "harness/props/c14.py abstraction of an expression to (blockwise?, npartitions, ndim, operands, broadcast rule, members) "
    "(validated by the pass / task families: the model run on the abstraction reproduces the real groups and sub-graphs)",
    "the members' own operations are uninterpreted (`Tsk.apply f`): the theorem holds for every interpretation",
    "dask.core.get evaluates a key by evaluating the keys its task refers to (Graph.lean `run`)",
]
PARTIAL = [
    "C14_task is proven for every Fused node accepted by the decidable checker fusedOK (nested groups at any position and "
    "depth; a nested group must have the partition count of the enclosing one — a one-partition nested group in an "
    "n-partition group is the open finding D60, witnessed by C14_task_counterexample); that the Fused nodes the pass builds "
    "satisfy fusedOK (or have the D60 shape) is established by running the checker on every real Fused node, not by proof",
    "divisions/meta of Fused = those of exprs[0] is definitional in the model; tied by the families and the search",
    "C14_substitute / C14_loop_values are statements about the reference semantics refGraph (a Fused node stands for its first "
    "member); that the task Fused._task computes that value is C14_task (under fusedOK) — the two are not composed into one "
    "theorem about a single graph containing the real fused tasks",
]
EXPLANATION = (
    "Model: _fusion_pass (dependents/dependencies maps, roots, DFS with stack/group name sets, npartitions/broadcast "
    "test, new-root rule, first group with len>1), the outer loop, substitute, Fused._task with nested groups at any position (merged without their dependency placeholders). "
    "Theorems: every group of the pass is GroupOK (C14_group_ok), the fused sub-graph computes what the unfused member "
    "tasks compute for every interpretation (C14_task), meta (C14_meta), the substitution of Fused G for G[0] leaves every other key's value unchanged (C14_substitute) and the whole loop returns a plan whose root has the original root's value (C14_loop_values: rank and member invariants carried through the passes are proven), each successful pass strictly decreases the "
    "number of reachable blockwise nodes (C14_terminates). Tie: real groups / plans / sub-graphs vs model on enumerated "
    "stub DAGs and real expression DAGs pass by pass (model driven with the string order of the real names); every real group also through the proven, order-independent checkers. "
    "Support: optimize(fuse=True) vs optimize(fuse=False) per output partition over the vetted program space."
)

# --------------------------------------------------------------------------- stub expression classes

_STUBS = None


def stubs():
    """Stub Blockwise / Expr subclasses (created once; they register with Expr's token machinery)."""
    global _STUBS
    if _STUBS is not None:
        return _STUBS
    from dask_expr._expr import Blockwise, Expr

    metas = {2: pd.DataFrame({"a": [1]}).iloc[:0], 1: pd.Series([1], name="a").iloc[:0], 0: np.int64(0)}

    def c14_bw(tag, np_, nd, *args):
        return ("v", tag, tuple(args))

    def c14_bwall(tag, np_, nd, *args):
        return ("v", tag, tuple(args))

    class C14BW(Blockwise):
        _parameters = ["tag", "np", "nd"]
        operation = staticmethod(c14_bw)

        @property
        def _meta(self):
            return metas[self.operand("nd")]

        def _divisions(self):
            return (None,) * (self.operand("np") + 1)

    class C14BWAll(C14BW):
        """a Blockwise with the MapPartitions-style broadcast rule"""

        operation = staticmethod(c14_bwall)

        def _broadcast_dep(self, dep):
            return dep.npartitions == 1

    class C14NB(Expr):
        _parameters = ["tag", "np", "nd"]

        @property
        def _meta(self):
            return metas[self.operand("nd")]

        def _divisions(self):
            return (None,) * (self.operand("np") + 1)

        def _layer(self):
            return {
                (self._name, i): (c14_bw, self.operand("tag"), 0, 0,
                                  *[(d._name, i if d.npartitions > 1 else 0) for d in self.dependencies()])
                for i in range(self.npartitions)
            }

    _STUBS = {"BW": C14BW, "BWAll": C14BWAll, "NB": C14NB}
    return _STUBS


def build_stub(spec):
    """spec: list of (kind, np, nd, deps) with deps < own index; kind in BW/BWAll/NB. -> list of exprs"""
    st = stubs()
    ex = []
    for i, (kind, np_, nd, deps) in enumerate(spec):
        ex.append(st[kind](i, np_, nd, *[ex[d] for d in deps]))
    return ex


def spec_wf(spec):
    """every blockwise node's operands are broadcast or have its partition count (what Blockwise._divisions asserts)"""
    for kind, np_, nd, deps in spec:
        if kind == "NB":
            continue
        for d in deps:
            _, dnp, dnd, _ = spec[d]
            b = dnp == 1 and (kind == "BWAll" or dnd < nd)
            if not b and dnp != np_:
                return False
    return True


# --------------------------------------------------------------------------- observing the real passes


@contextlib.contextmanager
def observed_fusion():
    """Records every `expr.substitute(group[0], Fused(...))` call of the real loop as (plan_before, fused)."""
    import dask_expr._expr as E
    from dask_expr import _core

    calls = []
    orig = _core.Expr.substitute

    def wrapped(self, old, new):
        if isinstance(new, E.Fused):
            calls.append((self, new))
        return orig(self, old, new)

    _core.Expr.substitute = wrapped
    try:
        yield calls
    finally:
        _core.Expr.substitute = orig


# --------------------------------------------------------------------------- abstraction of real plans


class _Probe:
    def __init__(self, np_, nd):
        self.npartitions = np_
        self.ndim = nd


def broadcast_kind(e):
    """0 = Blockwise._broadcast_dep, 1 = `dep.npartitions == 1`; None = something else (reported)."""
    res = []
    for np_ in (1, 2):
        for nd in (0, 1, 2):
            try:
                res.append(bool(e._broadcast_dep(_Probe(np_, nd))))
            except Exception:  # noqa: BLE001
                return None
    nd_self = e.ndim
    dflt = [np_ == 1 and nd < nd_self for np_ in (1, 2) for nd in (0, 1, 2)]
    allk = [np_ == 1 for np_ in (1, 2) for nd in (0, 1, 2)]
    if res == dflt:
        return 0
    if res == allk:
        return 1
    return None


class Plan:
    """Numbering of every expression below `root` (operands and Fused members first)."""

    def __init__(self, root):
        from dask_expr._expr import Fused, is_valid_blockwise_op

        self.ids = {}
        self.exprs = []
        self.unknown_bcast = []
        stack = [(root, False)]
        while stack:
            e, done = stack.pop()
            if e._name in self.ids:
                continue
            if done:
                self.ids[e._name] = len(self.exprs)
                self.exprs.append(e)
                continue
            stack.append((e, True))
            kids = list(e.dependencies())
            if isinstance(e, Fused):
                kids += list(e.exprs)
            for k in reversed(kids):
                if k._name not in self.ids:
                    stack.append((k, False))
        self.root = self.ids[root._name]
        rows = []
        for i, e in enumerate(self.exprs):
            bw = bool(is_valid_blockwise_op(e))
            kall = 0
            if bw:
                k = broadcast_kind(e)
                if k is None:
                    self.unknown_bcast.append(type(e).__name__)
                    k = 0
                kall = k
            deps = [self.ids[d._name] for d in e.dependencies()]
            mem = [self.ids[m._name] for m in e.exprs] if isinstance(e, Fused) else []
            rows.append(f"{i}:{int(bw)}:{kall}:{e.npartitions}:{e.ndim}:{_l(deps)}:{_l(mem)}")
        self.text = ";".join(rows)
        # sort keys: rank of every node's name in string order (`sorted(dependencies[...])`)
        order = sorted(range(len(self.exprs)), key=lambda i: self.exprs[i]._name)
        rank = {i: r for r, i in enumerate(order)}
        self.keys = ",".join(str(rank[i]) for i in range(len(self.exprs)))

    def id(self, e):
        return self.ids[e._name]


def _l(xs):
    return ",".join(map(str, xs)) if xs else "-"


def stub_plan_text(spec):
    rows = []
    for i, (kind, np_, nd, deps) in enumerate(spec):
        rows.append(f"{i}:{int(kind != 'NB')}:{int(kind == 'BWAll')}:{np_}:{nd}:{_l(deps)}:-")
    return ";".join(rows)


def render_stub_plan(expr):
    from dask_expr._expr import Fused

    def rm(e):
        if isinstance(e, Fused):
            return "F[" + ",".join(rm(m) for m in e.exprs) + "]"
        return str(e.operand("tag"))

    def r(e):
        ds = e.dependencies()
        if isinstance(e, Fused):
            return "F[" + ",".join(rm(m) for m in e.exprs) + "|" + ",".join(r(d) for d in ds) + "]"
        return str(e.operand("tag")) + ("(" + ",".join(r(d) for d in ds) + ")" if ds else "")

    return r(expr)


# --------------------------------------------------------------------------- input spaces

KINDS_SMALL = [("BW", "n", 2), ("BW", 1, 1), ("BW", 1, 2), ("BW", "n", 1), ("BWAll", "n", 2), ("NB", "n", 2), ("NB", 1, 1)]


def exhaustive_specs(k, n=2):
    """all DAG shapes on k nodes (node i chooses a subset of earlier nodes as operands, in ascending and
    — for two operands — also descending order) x node kinds; last node is the plan root."""
    def dep_choices(i):
        out = [[]]
        for r in (1, 2, 3):
            for c in itertools.combinations(range(i), r):
                out.append(list(c))
                if r == 2:
                    out.append([c[1], c[0]])
        return out

    for kinds in itertools.product(KINDS_SMALL, repeat=k):
        for deps in itertools.product(*[dep_choices(i) for i in range(k)]):
            # connected to the root: every node is an operand of a later node
            used = {d for ds in deps for d in ds}
            if any(i not in used for i in range(k - 1)):
                continue
            yield [(kd, n if np_ == "n" else np_, nd, ds) for (kd, np_, nd), ds in zip(kinds, deps)]


def random_spec(rng, kmax=8):
    k = rng.randint(2, kmax)
    n = rng.choice([2, 3])
    spec = []
    for i in range(k):
        kind = rng.choice(["BW"] * 6 + ["BWAll"] * 2 + ["NB"] * 2)
        nd = rng.choice([0, 1, 1, 2, 2, 2])
        npart = rng.choice([1, 1, n, n, n])
        deps = []
        if i > 0:
            for _ in range(rng.choice([0, 1, 1, 2, 2, 3])):
                deps.append(rng.randrange(i))
        spec.append((kind, npart, nd, deps))
    used = {d for s in spec for d in s[3]}
    tops = [i for i in range(k) if i not in used]
    if len(tops) > 1:
        spec.append(("NB", 1, 1, tops))
    return spec


def _mp_inc(x):
    return x + 1


def real_queries():
    """Real expression DAGs: elementwise chains, shared nodes, broadcast reductions, 1-partition inputs,
    non-blockwise separators between blockwise stages, map_partitions, nested-fusion shapes."""
    import dask_expr as dx

    pdf = e2e.T_int()
    pr = e2e.T_right()

    def mk(n):
        return e2e.frame_from_cuts(pdf, {1: [0, 8], 2: [0, 4, 8], 3: [0, 3, 6, 8]}[n])

    out = []
    for n in (1, 2, 3):
        df = mk(n)
        fp = dx.from_pandas(pdf, npartitions=n, sort=False)
        q = {
            "add1": lambda d: d + 1,
            "chain3": lambda d: ((d + 1) * 2).abs(),
            "assign": lambda d: d.assign(z=d.a + d.b),
            "proj_sum": lambda d: d.a + d.b,
            "shared": lambda d: (lambda x: x + x * 2)(d + 1),
            "diamond": lambda d: (lambda x: (x + 1) + (x * 2))(d.abs()),
            "bcast_sum": lambda d: d + d.sum(),
            "bcast_chain": lambda d: d + (d.sum() + 1) * 2,
            "bcast_chain3": lambda d: d + ((d.sum() + 1) * 2 + 3),
            "bcast_chain4": lambda d: (d + (((d.sum() + 1) * 2 + 3) * 5)) * (d.max() * 2 + 1),
            # collections built on an already optimised collection: nested groups that are not the first member,
            # with a dependency of the nested group that is also a member of the outer group
            "nested_dep_member": lambda d: (lambda s: (d + (2 + s)).optimize() + s)(1 - d.sum()),
            "nested_dep_member2": lambda d: (lambda s: (d * (s + 2)).optimize() - s)(d.sum() * 3),
            "nested_dep_member3": lambda d: (lambda s: (lambda f2: (f2 + s) * f2)((d - (s * 2)).optimize()))(d.max() + 1),
            # a one-partition (scalar) optimised collection broadcast into an n-partition group
            "nested_bcast_scalar": lambda d: d.a + ((d.a.sum() + 1) * 2).optimize(),
            "nested_bcast_scalar2": lambda d: d[["a", "b"]] * ((d.a.sum() + 1) * 2).optimize() + 1,
            "nested_plain": lambda d: d.b + ((d.a - d.b) + 1).optimize(),
            "nested_twice": lambda d: ((d.a + 1).optimize() * d.b).optimize() - d.a,
            "bcast_two": lambda d: (d + d.sum()) * (d.max() + 1),
            "bcast_shared": lambda d: (lambda s: (d + s) + (d + (s + 1)))(d.sum() * 2),
            # a one-partition member read both by an n-partition member (broadcast) and by a one-partition member of the
            # same dimensionality (not "broadcast" for that consumer): it has to be keyed (name, 0) for both (seeded C14-m4)
            "scalar_two_consumer_kinds": lambda d: (lambda m: (d.a - m) / (m + 0.5))(d.b.mean()),
            "scalar_two_consumer_kinds2": lambda d: (lambda m: (d[["a", "b"]] * m) + (m * 2 + 1))(d.a.sum() + 1),
            "series_bcast": lambda d: d.a + d.a.sum(),
            "series_bcast_chain": lambda d: (d.a + (d.a.sum() + 1)) * d.b.max(),
            "cumsum_between": lambda d: (d[["a", "b"]] + 1).cumsum() + 1,
            "repart_between": lambda d: (d + 1).repartition(npartitions=2) + 1,
            "shuffle_between": lambda d: (d + 1).shuffle("b", shuffle_method="tasks") + 1,
            "two_consumers": lambda d: (lambda x: dx.concat([x[["a"]], x[["b"]].cumsum()], axis=1))(d + 1),
            "filter_chain": lambda d: (d[d.a > 2] + 1)[["a", "c"]],
            "mappart": lambda d: d.map_partitions(_mp_inc) + 1,
            "mappart_bcast": lambda d: d.map_partitions(operator.add, d.sum()),
            "head_chain": lambda d: (d + 1).head(3, npartitions=-1, compute=False) + 1,
            "tail_chain": lambda d: (d + 1).tail(2, compute=False),
            "shuffle_tail": lambda d: d.shuffle("b", shuffle_method="tasks").tail(2, compute=False),
            "shuffle_head": lambda d: d.shuffle("b", shuffle_method="tasks").head(2, compute=False),
            "shuffle_tail_chain": lambda d: (d.shuffle("b", shuffle_method="tasks") + 1).tail(2, compute=False) * 2,
            "setindex_tail": lambda d: d.set_index("a").tail(2, compute=False),
            "where": lambda d: d.a.where(d.b > 1, -1) + d.a,
            "len_like": lambda d: (d + 1).a.sum() + (d + 1).b.sum(),
            "fillna_clip": lambda d: d.fillna(0).clip(lower=1, upper=5).astype({"a": "float64"}),
            "index_ops": lambda d: (d + 1).index,
            "rename_assign": lambda d: d.rename(columns={"a": "A"}).assign(q=1).add_prefix("p_"),
        }
        for name, fn in q.items():
            for src, fr in (("from_map", df), ("from_pandas", fp)):
                out.append((f"{name}/n{n}/{src}", (lambda fn=fn, fr=fr: fn(fr))))
        r = e2e.frame_from_cuts(pr, [0, 2, 6])
        out.append((f"merge/n{n}", lambda df=df, r=r: (df + 1).merge(r, on="b") + 1))
    return out


# --------------------------------------------------------------------------- families


def _is_d10(exc):
    """known finding D10 (C15): `assert key in divisions_lru` once more than 10 other sorts were planned since the
    expression was built — the cached corpus of plans of a long run hits it; such cases are skipped here"""
    import traceback

    return isinstance(exc, AssertionError) and "divisions_lru" in "".join(traceback.format_exception(exc))


def _fuse_real(expr, pol=None):
    from dask_expr._expr import optimize_blockwise_fusion

    with observed_fusion() as calls:
        out = optimize_blockwise_fusion(expr)
    return out, calls


def _pass_requests(label, expr, reqs, code, inputs, nontriv, checks):
    """one request per real pass (model run on the plan before the pass, real name order as sort keys)
    + bookkeeping for the `done` logic of the outer loop.  Appends atomically."""
    out, calls = _fuse_real(expr)
    r, c, i, n = [], [], [], []
    lab = label if isinstance(label, list) else str(label)
    for before, fused in calls:
        pb = Plan(before)
        g = [pb.id(m) for m in fused.exprs]
        ds = [pb.id(d) for d in fused.dependencies()]
        r.append(f"fusion pass dag={pb.text} root={pb.root} keys={pb.keys}")
        c.append(f"G group={_l(g)} deps={_l(ds)} np={fused.npartitions} nd={fused.ndim}")
        i.append({"case": lab, "plan": pb.text, "keys": pb.keys})
        n.append(True)
    # the pass after the last successful one (runs unless the last one reported done)
    pf = Plan(out)
    r.append(f"fusion pass dag={pf.text} root={pf.root} keys={pf.keys}")
    c.append("G none")
    i.append({"case": lab, "plan": pf.text, "keys": pf.keys, "what": "final plan"})
    n.append(False)
    checks.append((len(reqs), len(calls)))
    reqs += r; code += c; inputs += i; nontriv += n
    return out, calls


def _compare_passes(f, reqs, code, inputs, nontriv, checks):
    model = drive(reqs)
    # split the model's `done=` flag off and check the loop logic with it
    stripped, done = [], []
    for m in model:
        mm = re.match(r"(.*) done=([01])$", m)
        stripped.append(mm.group(1) if mm else m)
        done.append(mm.group(2) if mm else None)
    code2, model2, inputs2, non2 = [], [], [], []
    for first, k in checks:
        for j in range(first, first + k):
            code2.append(code[j]); model2.append(stripped[j]); inputs2.append(inputs[j]); non2.append(True)
            if j < first + k - 1:
                # a later pass replaced something: this pass cannot have reported done
                code2.append("not done"); model2.append("not done" if done[j] == "0" else f"done={done[j]}")
                inputs2.append(dict(inputs[j], what="loop continues")); non2.append(True)
        last_done = done[first + k - 1] if k else "0"
        # after the last successful pass the loop stops: it reported done, or the next pass finds nothing
        code2.append("stops")
        model2.append("stops" if (last_done == "1" or stripped[first + k] == "G none") else f"continues: {stripped[first + k]}")
        inputs2.append(dict(inputs[first + k], what="loop stops")); non2.append(k > 0)
    f.compare(inputs2, code2, model2, non2)
    for d in f.disagreements:
        if d:
            d["diff"] = first_diff(str(d["code"]), str(d["model"]))


def fam_pass_stub(ctx):
    """T2 (i): every pass of the real loop on stub DAGs — group members, group dependencies, loop logic."""
    f = Family("fusion_pass_groups[_fusion_pass + outer loop on stub DAGs, real name order]")
    rng = ctx.rng
    specs = []
    kmax_ex = 3 if ctx.quick else 4
    for k in range(1, kmax_ex + 1):
        for spec in exhaustive_specs(k):
            if k >= 3 and not spec_wf(spec) and (ctx.quick or k == 4):
                continue
            specs.append(spec)
    if ctx.quick and len(specs) > 5000:
        rng.shuffle(specs)
        specs = specs[:5000]
    nrand = 4000 if ctx.quick else 60000
    base = len(specs)
    while len(specs) < base + nrand:
        sp = random_spec(rng)
        if spec_wf(sp) or rng.random() < 0.15:
            specs.append(sp)
    reqs, code, inputs, nontriv, checks = [], [], [], [], []
    multi = 0
    for spec in specs:
        ex = build_stub(spec)
        try:
            _, calls = _pass_requests(spec, ex[-1], reqs, code, inputs, nontriv, checks)
            multi += len(calls) > 1
        except Exception as e:  # noqa: BLE001
            f.disagreements.append({"input": {"case": spec}, "code": f"ERR {type(e).__name__}: {str(e)[:80]}", "model": "-"})
    _compare_passes(f, reqs, code, inputs, nontriv, checks)
    f.exhaustive = not ctx.quick
    f.note = (f"{len(specs)} DAGs (all shapes x kinds on <= {kmax_ex} nodes, random <= 9 nodes: shared nodes, 1/n partitions, "
              f"broadcast operands, both broadcast rules, non-blockwise separators); multi-pass cases={multi}")
    return f


_PLANS = {}


def _real_plans(ctx):
    """(label, simplified-physical expression) for the real-expression corpus (built once per run)."""
    from harness import programs

    if ctx.tier in _PLANS:
        return _PLANS[ctx.tier]
    out = _PLANS.setdefault(ctx.tier, [])
    for name, fn in real_queries():
        try:
            out.append((name, fn().expr.optimize(fuse=False)))
        except Exception:  # noqa: BLE001
            continue
    progs = programs.valid_programs(2 if not ctx.quick else 1)
    idx = list(range(len(progs)))
    if not ctx.quick:
        ctx.rng.shuffle(idx)
        idx = idx[:1500]
    for i in idx:
        p = progs[i]
        try:
            r = p.fn(programs.dask_env())
            if hasattr(r, "expr"):
                out.append(("prog:" + p.name, r.expr.optimize(fuse=False)))
        except Exception:  # noqa: BLE001
            continue
    return out


def fam_pass_real(ctx):
    """T2 (i): every pass on real expression DAGs — group members, group dependencies, loop logic."""
    f = Family("fusion_pass_groups[_fusion_pass + outer loop on real expression DAGs, real name order]")
    reqs, code, inputs, nontriv, checks = [], [], [], [], []
    unknown = set()
    skipped = 0
    plans = _real_plans(ctx)
    for label, expr in plans:
        try:
            _pass_requests(label, expr, reqs, code, inputs, nontriv, checks)
            unknown.update(Plan(expr).unknown_bcast)
        except Exception as e:  # noqa: BLE001
            if _is_d10(e):
                skipped += 1
                continue
            f.disagreements.append({"input": {"case": str(label)}, "code": f"ERR {type(e).__name__}: {str(e)[:80]}", "model": "-"})
    _compare_passes(f, reqs, code, inputs, nontriv, checks)
    if unknown:
        f.disagreements.append({"input": "unknown _broadcast_dep override", "code": sorted(unknown), "model": "default|all"})
    f.note = f"{len(plans)} real plans (fusion corpus + vetted programs)" + (f"; {skipped} skipped (known finding D10)" if skipped else "")
    return f


def d60_shape(fused):
    """open finding D60: a nested Fused member with ONE partition inside a Fused with several (any depth)"""
    from dask_expr._expr import Fused

    for m in fused.exprs:
        if isinstance(m, Fused):
            if m.npartitions == 1 and fused.npartitions > 1:
                return True
            if d60_shape(m):
                return True
    return False


def _count_blockwise(expr):
    from dask_expr._expr import is_valid_blockwise_op

    seen, stack, n = set(), [expr], 0
    while stack:
        e = stack.pop()
        if e._name in seen:
            continue
        seen.add(e._name)
        n += bool(is_valid_blockwise_op(e))
        stack.extend(e.dependencies())
    return n


def fam_native(ctx):
    """T3: every group the real code finds satisfies the proven (order-independent) checker groupOKb,
    every plan the hypothesis planOKb of C14_terminates and substOKb of C14_substitute, every resulting Fused satisfies fusedOK
    (the hypothesis of C14_task); T2: the measure of C14_terminates is the number of reachable
    valid blockwise expressions of the real plan (before and after each pass)."""
    f = Family("native_groups[proven checkers groupOKb / planOKb / fusedOK + measure on the groups the unmodified code finds]")
    from dask_expr._expr import Fused

    rng = ctx.rng
    reqs, inputs, want = [], [], []
    cases = []
    for _ in range(1500 if ctx.quick else 20000):
        sp = random_spec(rng)
        if spec_wf(sp):
            cases.append(("stub", sp, build_stub(sp)[-1]))
    for label, expr in _real_plans(ctx):
        cases.append(("real", label, expr))
    for kind, label, expr in cases:
        try:
            out, calls = _fuse_real(expr)
            plans_before = [Plan(before) for before, _ in calls]
            pf = Plan(out) if calls else None
        except Exception as e:  # noqa: BLE001
            if not _is_d10(e):
                f.disagreements.append({"input": {"case": str(label)}, "code": f"ERR {type(e).__name__}: {str(e)[:80]}", "model": "-"})
            continue
        for n, (before, fused) in enumerate(calls):
            pb = plans_before[n]
            reqs.append(f"fusion group dag={pb.text} root={pb.root} group={_l([pb.id(m) for m in fused.exprs])}")
            want.append("OK")
            inputs.append({"case": str(label), "check": "group", "plan": pb.text})
            reqs.append(f"fusion planok dag={pb.text} root={pb.root}")
            want.append("OK")
            inputs.append({"case": str(label), "check": "planok", "plan": pb.text})
            reqs.append(f"fusion substok dag={pb.text} root={pb.root}")
            want.append("OK")
            inputs.append({"case": str(label), "check": "substok", "plan": pb.text})
            reqs.append(f"fusion measure dag={pb.text} root={pb.root}")
            want.append(str(_count_blockwise(before)))
            inputs.append({"case": str(label), "check": "measure", "plan": pb.text})
        if calls:
            reqs.append(f"fusion measure dag={pf.text} root={pf.root}")
            want.append(str(_count_blockwise(out)))
            inputs.append({"case": str(label), "check": "measure-final", "plan": pf.text})
            for e in pf.exprs:
                if isinstance(e, Fused):
                    reqs.append(f"fusion check dag={pf.text} node={pf.id(e)}")
                    # open finding D60: the checker must reject a one-partition nested group in an n-partition group
                    want.append("FAIL" if d60_shape(e) else "OK")
                    inputs.append({"case": str(label), "check": "fused", "plan": pf.text, "node": pf.id(e)})
    model = drive(reqs)
    f.compare(inputs, want, model)
    f.note = f"{len(cases)} plans, {len(reqs)} checks"
    return f


def render_fused_task(plan: Plan, fused, index):
    """canonical text of the real `Fused._task(index)`: resolved sub-graph + positional arguments"""
    t = fused._task(index)
    graph, name, args = t[1], t[2], t[3:]
    names = {e._name: i for i, e in enumerate(plan.exprs)}

    def rk(k):
        if isinstance(k, tuple) and len(k) == 2 and isinstance(k[0], str) and k[0] in names:
            return f"{names[k[0]]}.{k[1]}"
        if isinstance(k, str) and k in names:
            return f"T{names[k]}"
        if isinstance(k, str) and k.startswith("_") and k[1:].isdigit():
            return k
        return "?" + repr(k)[:30]

    def keys_in(x, acc):
        if isinstance(x, tuple) and len(x) == 2 and isinstance(x[0], str) and x[0] in names and isinstance(x[1], (int, np.integer)):
            acc.append(rk(x))
        elif isinstance(x, (tuple, list)):
            for y in x:
                keys_in(y, acc)
        elif isinstance(x, dict):
            for y in x.values():
                keys_in(y, acc)
        return acc

    lines = []
    for k, v in graph.items():
        if isinstance(v, tuple) and v and callable(v[0]):
            owner = names.get(k[0]) if isinstance(k, tuple) else None
            lines.append(f"{rk(k)}=apply{owner}({','.join(keys_in(v[1:], []))})")
        else:
            lines.append(f"{rk(k)}=alias({rk(v)})")
    return "T " + "|".join(sorted(set(lines))) + "#" + ",".join(rk(a) for a in args), rk(name)


def fam_task(ctx):
    """T2 (ii): the sub-graph built by the real Fused._task(i) equals the model's."""
    f = Family("fused_subgraph[Fused._task(i) incl. nested groups, broadcast members, placeholders]")
    from dask_expr._expr import Fused

    rng = ctx.rng
    cases = []
    for _ in range(1200 if ctx.quick else 15000):
        sp = random_spec(rng)
        if spec_wf(sp):
            cases.append((sp, build_stub(sp)[-1], None))
    for label, expr in _real_plans(ctx):
        cases.append((label, expr, None))
    reqs, code, inputs, nontriv = [], [], [], []
    for label, expr, pol in cases:
        try:
            out, calls = _fuse_real(expr)
            pf = Plan(out) if calls else None
        except Exception:  # noqa: BLE001  (known finding D10 on long runs; the pass families report anything else)
            continue
        if not calls:
            continue
        for e in pf.exprs:
            if not isinstance(e, Fused):
                continue
            for index in range(e.npartitions):
                text, top = render_fused_task(pf, e, index)
                reqs.append(f"fusion task dag={pf.text} node={pf.id(e)} index={index}")
                code.append(text)
                inputs.append({"case": str(label), "plan": pf.text, "node": pf.id(e), "index": index})
                nontriv.append(isinstance(e.exprs[0], Fused) or any(m.npartitions == 1 for m in e.exprs) or index > 0)
    model = drive(reqs)
    f.compare(inputs, code, model, nontriv)
    for d in f.disagreements:
        if d:
            d["diff"] = first_diff(d["code"], d["model"])
    f.note = f"{len(reqs)} fused tasks; nested groups={sum(1 for c in code if '=alias(T' in c)}"
    return f


def fam_meta(ctx):
    """T2: npartitions / divisions / meta of every Fused are those of its first member (C14_meta)."""
    f = Family("fused_meta[Fused._meta/_divisions/npartitions = exprs[0]]")
    from dask_expr._expr import Fused

    inputs, code, model = [], [], []
    for label, expr in _real_plans(ctx):
        try:
            out, calls = _fuse_real(expr)
        except Exception:  # noqa: BLE001
            continue
        for _before, fu in calls:
            r = fu.exprs[0]
            inputs.append({"case": label, "fused": str(fu)})
            code.append((fu.npartitions, tuple(map(str, fu.divisions)), str(getattr(fu._meta, "dtypes", type(fu._meta))), fu.ndim))
            model.append((r.npartitions, tuple(map(str, r.divisions)), str(getattr(r._meta, "dtypes", type(r._meta))), r.ndim))
    f.compare(inputs, code, model)
    return f


def families(ctx):
    return [fam_pass_stub, fam_pass_real, fam_native, fam_task, fam_meta]


# --------------------------------------------------------------------------- end-to-end support / search


def _layouts(quick):
    Ls = [[0, 3, 6, 8], [0, 8], [0, 4, 8], [0, 1, 2, 8], [0, 2, 4, 6, 8]]
    Rs = [[0, 2, 6], [0, 6], [0, 3, 6], [0, 1, 6], [0, 2, 4, 6]]
    return list(zip(Ls, Rs))


def fused_structure_problems(expr):
    """A Fused group whose member references an expression that is neither a member nor a dependency."""
    from dask_expr._expr import Fused

    out = []
    seen = set()
    stack = [expr]
    while stack:
        e = stack.pop()
        if e._name in seen:
            continue
        seen.add(e._name)
        stack.extend(e.dependencies())
        if isinstance(e, Fused):
            local = {m._name for m in e.exprs}
            depn = {d._name for d in e.dependencies()}
            for m in e.exprs:
                if isinstance(m, Fused):
                    stack.append(m)
                for d in m.dependencies():
                    if d._name not in local and d._name not in depn:
                        out.append(f"{type(m).__name__} in {e} references {type(d).__name__} outside the group's dependencies")
    return out


def graph_problems(expr):
    """keys referenced by the emitted graph but defined nowhere"""
    from dask.core import get_dependencies

    g = dict(expr.__dask_graph__())
    out = []
    for k, v in g.items():
        try:
            get_dependencies(g, task=v)
        except KeyError as e:  # pragma: no cover
            out.append(f"{k}: {e}")
    return out


def run_program_case(case):
    """-> None when fusion changes nothing observable, else a description."""
    from harness import programs

    progs = {p.name: p for p in programs.valid_programs(case["depth"])}
    p = progs[case["program"]]
    env = programs.dask_env(case["cutsL"], case["cutsR"], case["known"])
    try:
        r = p.fn(env)
    except Exception:  # noqa: BLE001
        return None  # program not expressible on this layout (not a fusion matter)
    if not hasattr(r, "expr"):
        return None
    return compare_fuse(r.expr, twice=case.get("twice", False), noindex=p.noindex)


def _unoptimized_runs(expr):
    """does the merely lowered (never simplified, never fused) plan execute?"""
    def go():
        e = expr.lower_completely()
        return list(dask.get(dict(e.__dask_graph__()), e.__dask_keys__()))

    return e2e.run_or_err(go)[0] == "ok"


def compare_fuse(expr, twice=False, noindex=False):
    a = e2e.run_or_err(lambda: expr.optimize(fuse=False))
    b = e2e.run_or_err(lambda: expr.optimize(fuse=True))
    if a[0] == "err" and b[0] == "err":
        if _unoptimized_runs(expr):
            return f"optimize raises with and without fusion but the unoptimized plan executes: {b[1:]}"
        return None
    if a[0] == "err" or b[0] == "err":
        return f"optimize raised only for fuse={'False' if a[0] == 'err' else 'True'}: {(a if a[0] == 'err' else b)[1:]}"
    ea, eb = a[1], b[1]
    if twice:
        from dask_expr._expr import optimize_blockwise_fusion

        eb = optimize_blockwise_fusion(eb)
    if ea.npartitions != eb.npartitions:
        return f"npartitions {ea.npartitions} (unfused) vs {eb.npartitions} (fused)"
    if tuple(map(str, ea.divisions)) != tuple(map(str, eb.divisions)):
        return f"divisions {ea.divisions} (unfused) vs {eb.divisions} (fused)"
    ma, mb = ea._meta, eb._meta
    if type(ma) is not type(mb) or str(getattr(ma, "dtypes", None)) != str(getattr(mb, "dtypes", None)) or \
            list(getattr(ma, "columns", [])) != list(getattr(mb, "columns", [])):
        return f"meta differs: {ma!r} vs {mb!r}"
    sp = fused_structure_problems(eb)
    if sp:
        return "fused structure: " + sp[0]
    hz = nested_order_hazard(eb)
    ra = e2e.run_or_err(lambda: list(dask.get(dict(ea.__dask_graph__()), ea.__dask_keys__())))
    rb = e2e.run_or_err(lambda: list(dask.get(dict(eb.__dask_graph__()), eb.__dask_keys__())))
    if ra[0] == "err" and rb[0] == "err":
        if _unoptimized_runs(expr):
            return f"neither optimized plan can be executed but the unoptimized plan can: {rb[1:]}"
        return None
    if ra[0] == "err" or rb[0] == "err":
        return f"graph execution raised only {'unfused' if ra[0] == 'err' else 'fused'}: {(ra if ra[0] == 'err' else rb)[1:]}"
    unordered = _has_unordered(ea)
    # a join / reset_index renumbers the rows: with an unspecified row order (disk shuffle) the index labels
    # are unspecified too.  Deterministic plans are compared exactly.
    noindex = unordered and (noindex or _has_join(ea) or _has_renumbering(ea))
    if unordered:
        # after a disk shuffle the row order inside a partition is unspecified, hence also which rows a later
        # positional repartition puts where: compare the collection as a whole (sorted)
        def whole(parts):
            parts = [p.to_series().reset_index(drop=True) if isinstance(p, pd.Index) else p for p in parts]
            return pd.concat(parts) if parts and all(isinstance(x, (pd.DataFrame, pd.Series)) for x in parts) else None

        wa, wb = whole(ra[1]), whole(rb[1])
        index_result = bool(ra[1]) and all(isinstance(x, pd.Index) for x in ra[1])
        if wa is not None and wb is not None:
            if not e2e.same(wa, wb, sort_rows=True, drop_index=noindex or index_result):
                return f"collection differs: unfused={e2e.describe(wa, 8)!r:.200} fused={e2e.describe(wb, 8)!r:.200}"
            return None
    for i, (x, y) in enumerate(zip(ra[1], rb[1])):
        if not e2e.same(x, y, sort_rows=unordered, drop_index=noindex):
            return (f"partition {i} differs{' [' + hz + ']' if hz else ''}: "
                    f"unfused={e2e.describe(x, 6)!r:.200} fused={e2e.describe(y, 6)!r:.200}")
    return None


def nested_order_hazard(expr):
    """a Fused whose member precedes a nested Fused member that depends on it (Fused._task then overwrites the
    member's task with the nested group's stale placeholder)"""
    from dask_expr._expr import Fused

    for e in expr.walk():
        if isinstance(e, Fused):
            names = [m._name for m in e.exprs]
            for pos, m in enumerate(e.exprs):
                if isinstance(m, Fused) and any(d._name in names[:pos] for d in m.dependencies()):
                    return "member precedes nested Fused that depends on it"
    return None


def _has_renumbering(expr):
    return any(type(e).__name__ in ("ResetIndex", "CumulativeBlockwise") for e in expr.walk())


def _has_join(expr):
    return any("Merge" in type(e).__name__ or "Join" in type(e).__name__ for e in expr.walk())


def _has_unordered(expr):
    """disk shuffles collect rows in write order: row order inside a partition is unspecified"""
    names = {type(e).__name__ for e in expr.walk()}
    return bool(names & {"DiskShuffle", "P2PShuffle"})


def run_stub_case(case):
    """free-interpretation execution of a stub DAG: fused vs unfused terms per partition"""
    spec = [tuple(s[:3]) + (list(s[3]),) for s in case["spec"]]
    ex = build_stub(spec)
    root = ex[-1]
    out, _ = _fuse_real(root)
    if out.npartitions != root.npartitions or out.ndim != root.ndim:
        return f"npartitions/ndim changed: {root.npartitions},{root.ndim} -> {out.npartitions},{out.ndim}"
    a = e2e.run_or_err(lambda: dask.get(dict(out.__dask_graph__()), out.__dask_keys__()))
    b = e2e.run_or_err(lambda: dask.get(dict(root.__dask_graph__()), root.__dask_keys__()))
    if a != b:
        return f"fused {str(a)[:300]} vs unfused {str(b)[:300]}"
    return None


def _query_has_d60_shape(case):
    from dask_expr._expr import Fused

    try:
        expr = dict(real_queries())[case["query"]]().expr
        out = expr.optimize(fuse=True)
        if case.get("twice"):
            out = out.optimize(fuse=True)
        return any(isinstance(e, Fused) and d60_shape(e) for e in out.walk())
    except Exception:  # noqa: BLE001
        return False


def run_query_case(case):
    qs = dict(real_queries())
    try:
        coll = qs[case["query"]]()
    except Exception:  # noqa: BLE001
        return None
    return compare_fuse(coll.expr, twice=case.get("twice", False))


def run_case(case):
    k = case["kind"]
    if k == "program":
        return run_program_case(case)
    if k == "stub":
        return run_stub_case(case)
    return run_query_case(case)


def _cases(ctx, broken):
    from harness import programs

    rng = ctx.rng
    cases = []
    for name, _ in real_queries():
        cases.append({"kind": "query", "query": name})
        if "/n3" in name or not ctx.quick:
            cases.append({"kind": "query", "query": name, "twice": True})
    depth = 2
    progs = programs.valid_programs(depth)
    layouts = _layouts(ctx.quick)
    idx = list(range(len(progs)))
    if ctx.quick:
        rng.shuffle(idx)
        idx = idx[:240]
    for j, i in enumerate(idx):
        lay = layouts[j % len(layouts)]
        for cl, cr in [lay]:
            cases.append({"kind": "program", "program": progs[i].name, "depth": depth, "cutsL": cl, "cutsR": cr,
                          "known": (j % 3 != 0)})
    for _ in range(300 if ctx.quick else 6000):
        sp = random_spec(rng)
        if spec_wf(sp):
            cases.append({"kind": "stub", "spec": sp})
    steered = []
    for b in broken:
        inp = (b.get("first") or {}).get("input")
        if isinstance(inp, dict) and "spec" in inp:
            steered.append({"kind": "stub", "spec": inp["spec"]})
        if isinstance(inp, dict) and isinstance(inp.get("case"), list):
            steered.append({"kind": "stub", "spec": inp["case"]})
        lab = str(inp.get("query", inp.get("case", ""))) if isinstance(inp, dict) else ""
        if lab and not lab.startswith("prog:") and lab in dict(real_queries()):
            steered.append({"kind": "query", "query": lab})
        if isinstance(inp, dict) and str(inp.get("query", inp.get("case", ""))).startswith("prog:"):
            nm = str(inp.get("query", inp.get("case")))[5:]
            for cl, cr in layouts:
                steered.append({"kind": "program", "program": nm, "depth": depth, "cutsL": cl, "cutsR": cr, "known": True})
    return steered + cases


def _safe_run(case):
    try:
        return run_case(case)
    except Exception as e:  # noqa: BLE001
        return f"harness could not run the case: {type(e).__name__}: {str(e)[:200]}"


def support(ctx, broken):
    sup = Support()
    per_sig = {}
    cases = _cases(ctx, broken)
    if ctx.quick:
        results = ((c, _safe_run(c)) for c in cases)
        pool = None
    else:
        import multiprocessing as mp

        pool = mp.get_context("fork").Pool(min(14, os.cpu_count() or 4))
        results = zip(cases, pool.imap(_safe_run, cases, chunksize=16))
    try:
        for case, msg in results:
            sup.executed += 1
            sup.count(case["kind"] + ("/twice" if case.get("twice") else ""))
            if len(sup.samples) < 3:
                sup.samples.append(case)
            if msg:
                sig = {"kind": case["kind"], "what": msg.split(":")[0].split(" [")[0][:40]}
                if "[" in msg.split(":")[0]:
                    sig["structure"] = msg.split("[")[1].split("]")[0]
                if case["kind"] == "query" and sig["what"].startswith("graph execution raised only fused"):
                    # the open finding D60 is the SHAPE "one-partition nested Fused inside an n-partition Fused";
                    # a fused-only failure of a plan without that shape is a different defect (seeded C14-m4)
                    sig["d60_shape"] = _query_has_d60_shape(case)
                # keep searching: at most two failures per signature are reported (a known finding must not
                # stop the search for other failures)
                k = json.dumps(sig, sort_keys=True)
                per_sig[k] = per_sig.get(k, 0) + 1
                if per_sig[k] <= 2:
                    sup.failures.append(Failure(sig=sig, case=case, detail=msg))
    finally:
        if pool is not None:
            pool.terminate()
    return sup


def replay(case):
    msg = run_case(case)
    return Failure(sig={}, case=case, detail=msg) if msg else None
