"""C07 helpers: real expression -> model tree (the postfix protocol of lean/Driver/Schema.lean), schema rendering,
the pool of frames and the enumerated / seeded-random queries per operator class (DxModel/Meta.lean)."""
from __future__ import annotations

import itertools
import re

import numpy as np
import pandas as pd

KCH = {"i": "i", "u": "i", "f": "f", "b": "b", "M": "d", "O": "o", "U": "o", "T": "o"}
LABEL_OK = re.compile(r"^[A-Za-z0-9_\-\.]+$")
KRE = re.compile(r":([ifbod?])(?=[,;)])")
PROMO = {("i", "f"), ("i", "o"), ("b", "f"), ("b", "o")}


def kch(dt):
    """dtype -> kind character of the protocol (int, float, bool, object/str, datetime; ? = outside the model)"""
    try:
        if isinstance(dt, pd.CategoricalDtype):
            return "?"
        k = np.dtype(dt).kind if not hasattr(dt, "numpy_dtype") else dt.numpy_dtype.kind
    except TypeError:
        s = str(dt)
        if "string" in s or s in ("str", "object"):
            return "o"
        return "?"
    return KCH.get(k, "?")


def lab(x):
    if not isinstance(x, str) or not LABEL_OK.match(x):
        raise ValueError("label outside the model: %r" % (x,))
    return x


def olab(x):
    return "~" if x is None else lab(x)


def rlevels(ix):
    return ",".join(f"{olab(n)}:{kch(ix.get_level_values(i).dtype)}" for i, n in enumerate(ix.names))


def render_sch(x):
    """pandas object -> schema text; ERR for labels outside the model (non-string labels)"""
    try:
        if isinstance(x, pd.DataFrame):
            return "F(" + ",".join(f"{lab(c)}:{kch(t)}" for c, t in zip(x.columns, x.dtypes)) + ";" + rlevels(x.index) + ")"
        if isinstance(x, pd.Series):
            return f"S({olab(x.name)}:{kch(x.dtype)};{rlevels(x.index)})"
        if isinstance(x, pd.Index):
            return "I(" + rlevels(x) + ")"
    except ValueError:
        return "ERR"
    if isinstance(x, (pd.Timestamp, np.datetime64)):
        return "C(d)"
    if isinstance(x, (bool, np.bool_)):
        return "C(b)"
    if isinstance(x, (int, np.integer)):
        return "C(i)"
    if isinstance(x, (float, np.floating)):
        return "C(f)"
    if isinstance(x, str):
        return "C(o)"
    return "C(?)"


def shape(s):
    if s.startswith("C(") and len(s) == 4:
        return "C(_)"
    return KRE.sub(":_", s)


def kinds(s):
    if s.startswith("C(") and len(s) == 4:
        return [s[2]]
    return KRE.findall(s)


def canon(code, model, empty=False, lenient=False):
    """code schema rewritten to the model's where they differ only by the tolerated promotion of int/bool kinds (either
    direction: the declaration may have been inferred on a stand-in with missing values) or, for an empty object, by
    kinds at all (value dependent inference).  -> (schema, promoted?)"""
    if code == model:
        return code, False
    if shape(code) != shape(model):
        return code, False
    for c, m in zip(kinds(code), kinds(model)):
        if c == m or (m, c) in PROMO or (c, m) in PROMO or empty:
            continue
        if m == "o" and model.startswith("C("):
            continue  # a scalar reduced from an object column has the python type of the values, not of the stand-in's strings
        if lenient and c in "fo" and m in "ibf":
            continue  # a promotion that went through a later aggregation (sum of a promoted column, min over mixed columns)
        return code, False
    return model, True


class Unsupported(Exception):
    pass


class OutsideModel(Exception):
    """an inner node whose `_meta` has labels the model cannot express (non-string or duplicate labels)"""


def inside_model(x):
    try:
        if isinstance(x, pd.DataFrame):
            [lab(c) for c in x.columns]
            [olab(n) for n in x.index.names]
            return x.columns.is_unique
        if isinstance(x, pd.Series):
            olab(x.name)
            [olab(n) for n in x.index.names]
        if isinstance(x, pd.Index):
            [olab(n) for n in x.names]
    except ValueError:
        return False
    return True


def strs(xs):
    xs = list(xs)
    return ",".join(lab(x) for x in xs) if xs else "-"


def aslist(x):
    if x is None:
        return []
    if isinstance(x, (list, tuple, pd.Index)):
        return list(x)
    return [x]


_CLS = {}


def _classes():
    if _CLS:
        return _CLS
    from dask_expr import _concat as C
    from dask_expr import _expr as E
    from dask_expr import _groupby as G
    from dask_expr import _merge as M
    from dask_expr import _reductions as R
    from dask_expr import _shuffle as S

    _CLS.update(
        E=E, R=R, G=G, M=M, C=C, S=S,
        RED={R.Sum: "sum", R.Min: "min", R.Max: "max", R.Count: "count", R.Mean: "mean", R.Any: "any", R.All: "all"},
        GB={G.Sum: "sum", G.Min: "min", G.Max: "max", G.Count: "count", G.Mean: "mean", G.First: "first", G.Last: "last", G.Size: "size"},
        KEEP=(E.Filter, E.Head, E.Tail, S.SortValues, R.DropDuplicates, S.Shuffle, E.Fillna, E._DeepCopy),
    )
    return _CLS


def _same_index(frames):
    """concat(axis=1): only inputs whose stand-in indexes are of one class, dtype and names are inside the model"""
    ix = [f._meta.index for f in frames]
    return all(type(i) is type(ix[0]) and i.dtype == ix[0].dtype and list(i.names) == list(ix[0].names) for i in ix)


def _same_nlevels(frames):
    return len({f._meta.index.nlevels for f in frames if hasattr(f._meta, "index")}) <= 1


OPAQUE = "src|!"  # marks an opaque source that stands for an unmodelled operator (not a leaf of the real expression)


def _stack_kinds_ok(frames):
    """row-wise concat: pandas' block-wise result for bool columns stacked with numeric ones depends on the order of the
    inputs (int+bool -> int, float+bool -> float, bool+float -> object): outside the model"""
    metas = [f._meta for f in frames]
    if all(isinstance(m, pd.DataFrame) for m in metas):
        seen = {}
        for m in metas:
            for c, t in zip(m.columns, m.dtypes):
                seen.setdefault(c, set()).add(kch(t))
        if any("b" in ks and len(ks) > 1 for ks in seen.values()):
            return False
    elif all(isinstance(m, pd.Series) for m in metas):
        ks = {kch(m.dtype) for m in metas}
        if "b" in ks and len(ks) > 1:
            return False
    return True


def tokens(e, rt=None, root=True):
    """postfix token list of expression `e`; nodes of classes outside the model become opaque sources (their `_meta`)"""
    K = _classes()
    E, R, G, M, C, S = K["E"], K["R"], K["G"], K["M"], K["C"], K["S"]
    rt = rt or {}
    sfx = rt.get(e._name, "")
    t = type(e)
    if not root:
        try:
            ok = inside_model(e._meta)
        except Exception:  # noqa: BLE001
            ok = False  # an inner node that cannot declare its schema (an optimizer-created node that raises: C04/C01)
        if not ok:
            raise OutsideModel(type(e).__name__)
    try:
        if t is E.Projection:
            cols = e.operand("columns")
            if isinstance(cols, list):
                return tokens(e.frame, rt, False) + ["getcols|" + strs(cols) + sfx]
            if isinstance(cols, str):
                return tokens(e.frame, rt, False) + ["getcol|" + lab(cols) + sfx]
        elif t is E.RenameFrame and isinstance(e.operand("columns"), dict):
            m = e.operand("columns")
            return tokens(e.frame, rt, False) + ["rename|" + (",".join(f"{lab(a)}>{lab(b)}" for a, b in m.items()) or "-")]
        elif t is E.RenameSeries and isinstance(e.operand("index"), str):
            return tokens(e.frame, rt, False) + ["renames|" + lab(e.operand("index"))]
        elif t is E.AddPrefix:
            return tokens(e.frame, rt, False) + ["prefix|" + lab(e.prefix)]
        elif t is E.AddSuffix:
            return tokens(e.frame, rt, False) + ["suffix|" + lab(e.suffix)]
        elif t is E.Drop and e.operand("errors") == "raise":
            return tokens(e.frame, rt, False) + ["drop|" + strs(aslist(e.operand("columns")))]
        elif t in K["KEEP"]:
            return tokens(e.frame, rt, False) + ["keep"]
        elif t is E.ResetIndex and e.operand("name") is E.no_default:
            return tokens(e.frame, rt, False) + ["reset|%d" % bool(e.drop)]
        elif t is S.SetIndex and isinstance(e._other, str) and not e.operand("append"):
            return tokens(e.frame, rt, False) + ["setindex|%s|%d" % (lab(e._other), bool(e.drop)) + sfx]
        elif t is E.Index:
            return tokens(e.frame, rt, False) + ["index"]
        elif t is E.ToSeriesIndex and e.operand("name") is E.no_default and e.operand("index") is None:
            return tokens(e.frame, rt, False) + ["idx2s"]
        elif t is E.ToFrameIndex and e.operand("index") is True:
            n = e.operand("name")
            return tokens(e.frame, rt, False) + ["idx2f|" + ("~" if n is E.no_default else lab(n))]
        elif t is E.ToFrame:
            n = e.operand("name")
            return tokens(e.frame, rt, False) + ["toframe|" + ("~" if n is E.no_default else lab(n))]
        elif t is R.ValueCounts:
            return tokens(e.frame, rt, False) + ["vc|%d" % bool(e.normalize) + sfx]
        elif t in K["RED"]:
            if "axis" in e._parameters and e.operand("axis") not in (0,):
                raise Unsupported
            if "numeric_only" in e._parameters and e.operand("numeric_only"):
                raise Unsupported
            fm = e.frame._meta
            if t in (R.Any, R.All) and "o" in ([kch(fm.dtype)] if isinstance(fm, pd.Series) else [kch(x) for x in getattr(fm, "dtypes", [])]):
                raise Unsupported  # str columns refuse any/all, genuine object columns do not: one kind in the model
            return tokens(e.frame, rt, False) + ["reduce|" + K["RED"][t] + sfx]
        elif t in (R.Len, R.Size):
            return tokens(e.frame, rt, False) + ["len"]
        elif t in K["GB"] and all(isinstance(b, str) for b in e.by):
            if (e.operand("chunk_kwargs") or {}).get("numeric_only") or e.operand("split_out") not in (None, 1):
                raise Unsupported
            sl = e._slice
            if sl is None:
                s = "*"
            elif isinstance(sl, str):
                s = "1:" + lab(sl)
            elif isinstance(sl, (list, tuple)):
                s = "m:" + strs(sl)
            else:
                raise Unsupported
            return tokens(e.frame, rt, False) + ["gb|%s|%s|%s" % (strs(e.by), s, K["GB"][t]) + sfx]
        elif t is E.Assign:
            out = tokens(e.frame, rt, False)
            for k, v in zip(e.keys, e.vals):
                out = out + (tokens(v, rt, False) if isinstance(v, E.Expr) else ["src|" + render_sch(v)]) + ["assign|" + lab(k)]
            return out
        elif t is M.Merge and not e.left_index and not e.right_index and not e.indicator:
            lo, ro = aslist(e.left_on), aslist(e.right_on)
            ls, rs = e.suffixes
            lm, rm = e.left._meta, e.right._meta
            if len(lo) != len(ro) or any(a not in lm.columns or b not in rm.columns or kch(lm[a].dtype) != kch(rm[b].dtype)
                                         for a, b in zip(lo, ro)):
                raise Unsupported  # keys of different kinds: pandas coerces them (outside the model)
            return tokens(e.left, rt, False) + tokens(e.right, rt, False) + [
                "merge|%s|%s|%s|%s|%s" % (e.how, strs(lo), strs(ro), ls or "~", rs or "~") + sfx]
        elif t is C.Concat and e.axis in (0, 1) and e.join in ("outer", "inner"):
            fr = e._frames
            if (e.axis == 1 and not _same_index(fr)) or not _same_nlevels(fr) or (e.axis == 0 and not _stack_kinds_ok(fr)):
                raise Unsupported
            out = []
            for f in fr:
                out += tokens(f, rt, False)
            return out + ["concat|%d|%d|%d" % (e.axis, e.join == "inner", len(fr)) + sfx]
    except (Unsupported, ValueError):
        pass
    leaf = not e.dependencies()
    return [("src|" if leaf else OPAQUE) + render_sch(e._meta)]


def to_tree(e, rt=None):
    """model tree of `e` ('' when an inner node is outside the label model)"""
    try:
        return "/".join(tokens(e, rt)).replace(OPAQUE, "src|")
    except OutsideModel:
        return ""


def has_opaque_operator(e):
    """does the tree of `e` contain an opaque source that stands for an unmodelled operator?"""
    try:
        return any(t.startswith(OPAQUE) for t in tokens(e))
    except OutsideModel:
        return True


def op_class(tree):
    """the operator of the root token (for the distribution in the evidence)"""
    return tree.rsplit("/", 1)[-1].split("|", 1)[0].split("@", 1)[0]


# --------------------------------------------------------------------------- the pool and the queries


def pool():
    n = 6
    base = {
        "a": np.arange(n, dtype="int64"), "b": np.arange(n, dtype="float64") / 2, "c": np.arange(n) % 2 == 0,
        "d": [f"s{i % 3}" for i in range(n)], "e": pd.to_datetime("2020-01-01") + pd.to_timedelta(np.arange(n), "D"),
        "k": np.arange(n, dtype="int64") % 3,
    }
    P = {}
    P["num"] = pd.DataFrame({c: base[c] for c in "abk"})
    P["mix"] = pd.DataFrame({c: base[c] for c in "abcdk"})
    P["all"] = pd.DataFrame(base)
    P["named"] = pd.DataFrame({c: base[c] for c in "abk"}, index=pd.Index(np.arange(n), name="id"))
    P["sidx"] = pd.DataFrame({c: base[c] for c in "ack"}, index=pd.Index([f"r{i}" for i in range(n)], name="key"))
    P["hasindex"] = pd.DataFrame({"index": base["a"], "b": base["b"], "k": base["k"]})
    P["right"] = pd.DataFrame({"k": [0, 1, 2, 3], "z": list("wxyz"), "b": [1, 2, 3, 4]})
    P["right2"] = pd.DataFrame({"k2": [0, 1, 2, 3], "a": [1.5, 2, 3, 4], "y": [True, False, True, False]})
    return P


REDS = ("sum", "min", "max", "count", "mean", "any", "all")
GBS = ("sum", "min", "max", "count", "mean", "first", "last", "size")


def enumerated_queries():
    """[(label, thunk)] — one-operator and two-operator instances of every modelled operator class over the pool"""
    import dask_expr as dx

    P = pool()
    D = {k: dx.from_pandas(v, npartitions=2) for k, v in P.items()}
    out = []

    def T(label, f):
        out.append((label, f))

    for fn, df in D.items():
        cols = list(P[fn].columns)
        for f in REDS:
            T(f"{fn}.{f}", lambda df=df, f=f: getattr(df, f)())
            for c in cols:
                T(f"{fn}.{c}.{f}", lambda df=df, f=f, c=c: getattr(df[c], f)())
            for cs in itertools.combinations(cols, 2):
                T(f"{fn}[{cs}].{f}", lambda df=df, f=f, cs=cs: getattr(df[list(cs)], f)())
        T(f"{fn}.reset", lambda df=df: df.reset_index())
        T(f"{fn}.reset_drop", lambda df=df: df.reset_index(drop=True))
        T(f"{fn}.index", lambda df=df: df.index)
        T(f"{fn}.index.to_series", lambda df=df: df.index.to_series())
        T(f"{fn}.index.to_frame", lambda df=df: df.index.to_frame())
        T(f"{fn}.index.to_frame(n)", lambda df=df: df.index.to_frame(name="q"))
        T(f"{fn}.len", lambda df=df: df.size)
        T(f"{fn}.rename", lambda df=df, cols=cols: df.rename(columns={cols[0]: "A", "zz": "q"}))
        T(f"{fn}.prefix", lambda df=df: df.add_prefix("p_"))
        T(f"{fn}.suffix", lambda df=df: df.add_suffix("_s"))
        T(f"{fn}.assign", lambda df=df, cols=cols: df.assign(z=df[cols[0]], **{cols[1]: 1.5}))
        T(f"{fn}.drop", lambda df=df, cols=cols: df.drop(columns=[cols[0]]))
        T(f"{fn}.head.sort", lambda df=df, cols=cols: df.sort_values(cols[0]).head(3, compute=False))
        for c in cols:
            T(f"{fn}.{c}.reset", lambda df=df, c=c: df[c].reset_index())
            T(f"{fn}.{c}.reset_drop", lambda df=df, c=c: df[c].reset_index(drop=True))
            T(f"{fn}.{c}.vc", lambda df=df, c=c: df[c].value_counts())
            T(f"{fn}.{c}.vcn", lambda df=df, c=c: df[c].value_counts(normalize=True))
            T(f"{fn}.{c}.to_frame", lambda df=df, c=c: df[c].to_frame())
            T(f"{fn}.{c}.to_frame(n)", lambda df=df, c=c: df[c].to_frame(name="zz"))
            T(f"{fn}.{c}.rename", lambda df=df, c=c: df[c].rename("nn"))
            T(f"{fn}.{c}.index", lambda df=df, c=c: df[c].index)
            for d in (True, False):
                T(f"{fn}.set_index({c},{d})", lambda df=df, c=c, d=d: df.set_index(c, drop=d))
                T(f"{fn}.set_index({c},{d}).reset", lambda df=df, c=c, d=d: df.set_index(c, drop=d).reset_index())
                T(f"{fn}.set_index({c},{d}).index", lambda df=df, c=c, d=d: df.set_index(c, drop=d).index.to_frame())
            for f in GBS:
                T(f"{fn}.gb({c}).{f}", lambda df=df, c=c, f=f: getattr(df.groupby(c), f)())
                for c2 in cols:
                    if c2 != c:
                        T(f"{fn}.gb({c}).{c2}.{f}", lambda df=df, c=c, c2=c2, f=f: getattr(df.groupby(c)[c2], f)())
                        T(f"{fn}.gb({c})[[{c2}]].{f}", lambda df=df, c=c, c2=c2, f=f: getattr(df.groupby(c)[[c2]], f)())
                        T(f"{fn}.gb({c},{c2}).{f}", lambda df=df, c=c, c2=c2, f=f: getattr(df.groupby([c, c2]), f)())
                        T(f"{fn}.gb({c},{c2}).{f}.reset", lambda df=df, c=c, c2=c2, f=f: getattr(df.groupby([c, c2]), f)().reset_index())
                sl = [x for x in reversed(cols) if x != c][:2]
                T(f"{fn}.gb({c})[{sl}].{f}", lambda df=df, c=c, sl=sl, f=f: getattr(df.groupby(c)[sl], f)())
    for ln, rn in itertools.product(["num", "mix", "named", "sidx"], ["right", "right2", "num"]):
        for how in ("inner", "left", "right", "outer", "leftsemi"):
            L, Rr = D[ln], D[rn]
            common = [c for c in P[ln].columns if c in P[rn].columns]
            if common:
                T(f"merge({ln},{rn},{how})", lambda L=L, Rr=Rr, how=how: L.merge(Rr, how=how))
                T(f"merge({ln},{rn},{how},on={common[0]})", lambda L=L, Rr=Rr, how=how, c=common[0]: L.merge(Rr, how=how, on=c))
                T(f"merge({ln},{rn},{how},sfx)", lambda L=L, Rr=Rr, how=how, c=common[0]: L.merge(Rr, how=how, on=c, suffixes=("_l", "_r")))
            lk, rk = "k", ("k2" if "k2" in P[rn].columns else "k")
            T(f"merge({ln},{rn},{how},lo/ro)", lambda L=L, Rr=Rr, how=how, lk=lk, rk=rk: L.merge(Rr, how=how, left_on=lk, right_on=rk))
            T(f"merge({ln},{rn},{how},lo=a)", lambda L=L, Rr=Rr, how=how, rk=rk: L.merge(Rr, how=how, left_on="a", right_on=rk))
    for names in itertools.chain(itertools.combinations(D, 2), itertools.combinations(["num", "mix", "right", "named"], 3)):
        fs = [D[n] for n in names]
        for join in ("outer", "inner"):
            T(f"concat({names},{join})", lambda fs=fs, join=join: dx.concat(fs, join=join))
            T(f"concat({names},{join}).reset", lambda fs=fs, join=join: dx.concat(fs, join=join).reset_index())
        s0 = [D[n][P[n].columns[0]] for n in names]
        T(f"concat_series({names})", lambda s0=s0: dx.concat(s0))
        T(f"concat_series({names}).to_frame", lambda s0=s0: dx.concat(s0).to_frame(name="v"))
    for names in itertools.combinations(["num", "mix", "named", "hasindex"], 2):
        fs = [D[names[0]], D[names[1]].add_prefix("r_")]
        T(f"concat1({names})", lambda fs=fs: dx.concat(fs, axis=1))
    return out


# one-step builders for seeded-random compositions: name -> (applicable(meta), build(rng, q, meta))


def _frame_steps():
    def cols(m):
        return [c for c in m.columns if isinstance(c, str)]

    S = {}
    S["getcols"] = lambda rng, q, m: q[rng.sample(cols(m), k=rng.randint(1, len(cols(m))))]
    S["getcol"] = lambda rng, q, m: q[rng.choice(cols(m))]
    S["rename"] = lambda rng, q, m: q.rename(columns={rng.choice(cols(m)): "R" + str(rng.randint(0, 2)), "nope": "x"})
    S["prefix"] = lambda rng, q, m: q.add_prefix(rng.choice(["p_", "x"]))
    S["suffix"] = lambda rng, q, m: q.add_suffix(rng.choice(["_s", "y"]))
    S["drop"] = lambda rng, q, m: q.drop(columns=[rng.choice(cols(m))])
    S["filter"] = lambda rng, q, m: q[q[cols(m)[0]] == q[cols(m)[0]]]
    S["head"] = lambda rng, q, m: q.head(2, compute=False)
    S["reset"] = lambda rng, q, m: q.reset_index(drop=rng.random() < 0.3)
    S["setindex"] = lambda rng, q, m: q.set_index(rng.choice(cols(m)), drop=rng.random() < 0.7)
    S["index"] = lambda rng, q, m: q.index
    S["reduce"] = lambda rng, q, m: getattr(q, rng.choice(REDS))()
    S["len"] = lambda rng, q, m: q.size
    S["assign"] = lambda rng, q, m: q.assign(**{rng.choice(["z", cols(m)[0]]): q[rng.choice(cols(m))]})

    def gb(rng, q, m):
        cs = cols(m)
        keys = rng.sample(cs, k=1 if rng.random() < 0.7 else min(2, len(cs)))
        rest = [c for c in cs if c not in keys]
        g = q.groupby(keys if len(keys) > 1 else keys[0])
        r = rng.random()
        if rest and r < 0.3:
            g = g[rng.choice(rest)]
        elif rest and r < 0.55:
            g = g[rng.sample(rest, k=rng.randint(1, len(rest)))]
        return getattr(g, rng.choice(GBS))()

    S["gb"] = gb
    return S


def _series_steps():
    S = {}
    S["reduce"] = lambda rng, q, m: getattr(q, rng.choice(REDS))()
    S["vc"] = lambda rng, q, m: q.value_counts(normalize=rng.random() < 0.4)
    S["toframe"] = lambda rng, q, m: q.to_frame(name="v") if (rng.random() < 0.5 or m.name is None) else q.to_frame()
    S["renames"] = lambda rng, q, m: q.rename("n" + str(rng.randint(0, 1)))
    S["reset"] = lambda rng, q, m: q.reset_index(drop=rng.random() < 0.4)
    S["index"] = lambda rng, q, m: q.index
    S["len"] = lambda rng, q, m: q.size
    S["head"] = lambda rng, q, m: q.head(2, compute=False)
    return S


def _index_steps():
    S = {}
    S["idx2s"] = lambda rng, q, m: q.to_series()
    S["idx2f"] = lambda rng, q, m: q.to_frame(name="ix") if (rng.random() < 0.5 or m.name is None) else q.to_frame()
    return S


def random_query(rng, depth):
    """one seeded-random composition of modelled operators over the pool (None when the real API refuses a step)"""
    import dask_expr as dx

    P = pool()
    D = {k: dx.from_pandas(v, npartitions=rng.choice([1, 2, 3])) for k, v in P.items()}
    FS, SS, IS = _frame_steps(), _series_steps(), _index_steps()
    names = sorted(D)
    q = D[rng.choice(names)]
    label = []
    for _ in range(depth):
        m = getattr(q, "_meta", None)
        if isinstance(m, pd.DataFrame):
            r = rng.random()
            if r < 0.12:
                other = D[rng.choice(names)]
                common = [c for c in m.columns if c in other._meta.columns]
                how = rng.choice(["inner", "left", "right", "outer", "leftsemi"])
                try:
                    q = q.merge(other, how=how, on=rng.choice(common)) if common and rng.random() < 0.7 else q.merge(
                        other, how=how, left_on=rng.choice(list(m.columns)), right_on=rng.choice(list(other._meta.columns)))
                    label.append("merge")
                except Exception:  # noqa: BLE001
                    return None
                continue
            if r < 0.22:
                others = [D[rng.choice(names)] for _ in range(rng.randint(1, 2))]
                try:
                    q = dx.concat([q] + others, join=rng.choice(["outer", "inner"]))
                    label.append("concat")
                except Exception:  # noqa: BLE001
                    return None
                continue
            steps = FS
            if len([c for c in m.columns if isinstance(c, str)]) == 0:
                return None
        elif isinstance(m, pd.Series):
            steps = SS
        elif isinstance(m, pd.Index):
            steps = IS
        else:
            break
        k = rng.choice(sorted(steps))
        try:
            q = steps[k](rng, q, m)
        except Exception:  # noqa: BLE001
            return None
        label.append(k)
    return ("/".join(label), q) if hasattr(q, "expr") and label else None
